#!/usr/bin/env python3
"""tools/seed_keep.py <name> <property ids,comma> <patch> <demo> <meta.txt> <needs text> <ran text> <detected-by text>
Stores a confirmed seeded change under /verif/seeded/<name>/ (patch.diff, demo.py, meta.json)."""
import json, os, shutil, sys
name, props, patch, demo, metatxt, needs, ran, detected = sys.argv[1:9]
d = os.path.join(os.path.dirname(os.path.dirname(os.path.abspath(__file__))), "seeded", name)
os.makedirs(d, exist_ok=True)
shutil.copy(patch, os.path.join(d, "patch.diff"))
shutil.copy(demo, os.path.join(d, "demo.py"))
author = open(metatxt).read() if os.path.exists(metatxt) else ""
json.dump({"breaks_property": props.split(","), "needs_to_manifest": needs, "confirmed_by_coordinator": ran,
           "detected_by": detected, "author_notes": author}, open(os.path.join(d, "meta.json"), "w"), indent=1)
print("kept", d)
