#!/bin/sh
# tools/seed_sweep.sh <tier> <first seed> <last seed> [ids...]: run checks for several VERIF_SEED values without
# rewriting evidence; print only runs that are not "held" (VIOLATION / INCONCLUSIVE), plus a summary.
TIER="$1"; A="$2"; B="$3"; shift 3
IDS="$*"; [ -n "$IDS" ] || IDS="$(python3 -c "import json;print(' '.join(c['property_id'] for c in json.load(open('MANIFEST.json'))['checks']))")"
n=0; bad=0
for s in $(seq $A $B); do
  for id in $IDS; do
    out="$(VERIF_SEED=$s ./check $id --tier $TIER --no-evidence 2>&1 | grep -v '^WARNING')"; rc=$?
    n=$((n+1))
    if printf '%s\n' "$out" | grep -qE '^VIOLATION|^INCONCLUSIVE'; then
      bad=$((bad+1)); echo "### $id seed=$s"; printf '%s\n' "$out" | grep -E '^VIOLATION|mechanism=|^INCONCLUSIVE|^RESULT' | cut -c1-300 | head -8
    fi
  done
  echo "seed $s done ($n runs, $bad not held)"
done
