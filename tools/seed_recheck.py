#!/usr/bin/env python3
"""Re-run every kept seeded change against the checks of the properties it breaks (quick tier, scratch
worktree through VERIF_REPO) and record the current result in seeded/<name>/meta.json ("detected_now").
Usage: tools/seed_recheck.py [name-prefix ...]"""
import glob, json, os, re, subprocess, sys
H = os.path.dirname(os.path.dirname(os.path.abspath(__file__)))
sel = sys.argv[1:]
tot = miss = 0
for d in sorted(glob.glob(os.path.join(H, "seeded", "*"))):
    name = os.path.basename(d)
    if sel and not any(name.startswith(s) for s in sel):
        continue
    mp = os.path.join(d, "meta.json")
    m = json.load(open(mp))
    out = subprocess.run([os.path.join(H, "tools", "seed_eval.sh"), os.path.join(d, "patch.diff"), "quick"] + m["breaks_property"],
                         capture_output=True, text=True,
                         env=dict(os.environ, **({"SEED_BASE": m["base_commit"]} if m.get("base_commit") else {}))).stdout
    res = {}
    cur = None
    for l in out.splitlines():
        mm = re.match(r"^(C\d+): violations=(\d+) RESULT (\w+)", l)
        if mm:
            cur = mm.group(1)
            res[cur] = {"verdict": mm.group(3), "keys": []}
        mm = re.match(r"^\s+mechanism=(\S+) count=(\d+)", l)
        if mm and cur:
            res[cur]["keys"].append(mm.group(1))
    m["detected_now"] = res
    json.dump(m, open(mp, "w"), indent=1)
    bk = m.get("base_keys", {})
    caught = any(v["verdict"] == "violated" and set(v["keys"]) - set(bk.get(k, [])) for k, v in res.items())
    tot += 1
    miss += (not caught)
    print("%-50s %s" % (name, "; ".join("%s:%s[%s]" % (k, v["verdict"], ",".join(v["keys"][:3])) for k, v in res.items())), flush=True)
print("seeded changes: %d, not caught by any targeted check: %d" % (tot, miss))
