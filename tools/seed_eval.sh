#!/bin/sh
# Usage: tools/seed_eval.sh <patch.diff> <tier> <check id>...
# Applies a seeded change to a scratch worktree of /repo (HEAD), runs the named checks against it
# (VERIF_REPO), prints one line per check, and removes the worktree.  Never touches /repo's tree.
# SEED_BASE=<commit>: base the scratch worktree on that commit instead of HEAD (seeds whose code site a later fix replaced).
PATCH="$(readlink -f "$1")"; TIER="$2"; shift 2
HERE="$(cd "$(dirname "$0")/.." && pwd)"
WT="$(mktemp -d /tmp/seedeval_XXXXXX)"
rmdir "$WT"
git -C /repo worktree add -q --detach "$WT" "${SEED_BASE:-HEAD}" || exit 2
if ! git -C "$WT" apply "$PATCH"; then
  echo "PATCH DOES NOT APPLY: $PATCH"
  git -C /repo worktree remove --force "$WT"
  exit 2
fi
rc=0
for id in "$@"; do
  out="$(cd "$HERE" && VERIF_REPO="$WT" VERIF_MAXSHARDS="${VERIF_MAXSHARDS:-4}" ./check "$id" --tier "$TIER" --no-evidence 2>&1 | grep -v conda)"
  code=$?
  v="$(printf '%s\n' "$out" | grep -c '^VIOLATION')"
  res="$(printf '%s\n' "$out" | grep '^RESULT' | cut -c1-120)"
  echo "$id: violations=$v $res"
  printf '%s\n' "$out" | grep -A1 '^VIOLATION' | grep 'mechanism=' | cut -c1-220 | head -5
done
git -C /repo worktree remove --force "$WT"
exit 0
