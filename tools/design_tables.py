#!/usr/bin/env python3
"""Print the markdown tables of DESIGN.md section 10.3/10.4 from known_findings.json and seeded/*/meta.json."""
import glob, json, os
H = os.path.dirname(os.path.dirname(os.path.abspath(__file__)))
kf = json.load(open(os.path.join(H, "known_findings.json")))["findings"]
print("| property | mechanism key | commit | what failed |\n|---|---|---|---|")
for e in sorted([e for e in kf if e["status"] == "fixed"], key=lambda e: (e["property"], e["key"])):
    print("| %s | `%s` | %s | %s |" % (e["property"], e["key"], e["commit"], e["what"].replace("|", "\\|")))
print()
print("| property | mechanism key | what fails (recorded, not repaired) |\n|---|---|---|")
for e in sorted([e for e in kf if e["status"] == "known"], key=lambda e: (e["property"], e["key"])):
    print("| %s | `%s` | %s |" % (e["property"], e["key"], e["what"].replace("|", "\\|")))
print()
print("| seeded change | breaks | needs to manifest | at seeding time | now (tools/seed_recheck.py) |\n|---|---|---|---|---|")
for d in sorted(glob.glob(os.path.join(H, "seeded", "*"))):
    m = json.load(open(os.path.join(d, "meta.json")))
    now = "; ".join("%s %s: %s" % (k, v["verdict"], ", ".join(v["keys"][:3])) for k, v in m.get("detected_now", {}).items()) or "-"
    print("| `%s` | %s | %s | %s | %s |" % (os.path.basename(d), ",".join(m["breaks_property"]), m["needs_to_manifest"].replace("|", "\\|"), m["detected_by"].replace("|", "\\|"), now.replace("|", "\\|")))
