#!/bin/sh
# Emulates `vp check`: fresh clone of the COMMITTED /verif, setup_cmd, every quick_cmd once with its
# evidence file removed first; validates evidence against the schema.  Usage: tools/selfcheck.sh [tier] [seed]
TIER="${1:-quick}"; SEED="${2:-0}"
D="$(mktemp -d /tmp/vcheck_XXXXXX)"
git clone -q /verif "$D/verif" || exit 2
cd "$D/verif" || exit 2
sh -c "$(python3 -c "import json;print(json.load(open('MANIFEST.json'))['setup_cmd'])")" > "$D/setup.log" 2>&1 || { echo "SETUP FAILED"; tail -20 "$D/setup.log"; }
python3 - "$TIER" "$SEED" <<'PY'
import json, os, subprocess, sys, time
tier, seed = sys.argv[1], sys.argv[2]
m = json.load(open('MANIFEST.json'))
bad = 0
for c in m['checks']:
    ev = c['evidence_file']
    if os.path.exists(ev): os.unlink(ev)
    cmd = c['quick_cmd'] if tier == 'quick' else c.get('thorough_cmd', c['quick_cmd'])
    t = time.time()
    p = subprocess.run(cmd, shell=True, capture_output=True, text=True, env=dict(os.environ, VERIF_SEED=seed, PIP_NO_INDEX='1'))
    dt = time.time() - t
    out = p.stdout + p.stderr
    viol = [l for l in out.splitlines() if l.startswith('VIOLATION')]
    known = sum(1 for l in out.splitlines() if l.startswith('KNOWN-FINDING'))
    status = 'ok'
    if p.returncode != 0 or viol: status = 'ALARM rc=%d' % p.returncode
    if not os.path.exists(ev): status += ' NO-EVIDENCE'
    else:
        try:
            e = json.load(open(ev))
            r = subprocess.run(['python3-vt', '-c', "import json,jsonschema,sys;jsonschema.validate(json.load(open(sys.argv[1])), json.load(open('/root/.vp/EVIDENCE.schema.json')))", ev], capture_output=True, text=True)
            if r.returncode != 0: status += ' EVIDENCE-INVALID ' + r.stderr.strip().splitlines()[-1][:150]
            if e.get('level') != c['level_claimed']['category']: status += ' LEVEL-MISMATCH %s/%s' % (e.get('level'), c['level_claimed']['category'])
        except Exception as ex:
            status += ' EVIDENCE-UNREADABLE %r' % ex
    if status != 'ok': bad += 1
    print('%s %-28s %6.1fs known=%d' % (c['property_id'], status, dt, known), flush=True)
    if status != 'ok':
        print('    ' + '\n    '.join([l[:300] for l in out.splitlines() if not l.startswith('WARNING')][-8:]))
print('selfcheck: %d checks, %d need attention' % (len(m['checks']), bad))
PY
cd /; rm -rf "$D"
