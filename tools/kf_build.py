#!/usr/bin/env python3
"""Build /verif/known_findings.json from the table below (edited by hand, committed; the checks
only READ the json and never add to it at run time).

status "fixed": repaired in /repo by the named commit; suppresses nothing (the violation is
reported again if it ever returns).  status "known": genuine defect recorded instead of repaired;
the check prints KNOWN-FINDING for exactly this mechanism key and still fails on any other key.
"""
import json
import os

HERE = os.path.dirname(os.path.dirname(os.path.abspath(__file__)))

FIXED = [
    # property, key, commit, what failed
    ("C11", "cooperator-stop-skips-tasks", "e348168", "Cooperator.stop() skipped every second running task; their whenDone() Deferreds never fired"),
    ("C16", "lineonly-split-delimiter-at-max", "6d8d2e7", "LineOnlyReceiver reported lineLengthExceeded for a MAX_LENGTH line whose delimiter arrived split"),
    ("C22", "chunked-trailer-limit-split-crlf", "830d4ff", "chunked trailers of 65535-65536 bytes rejected only when the final CRLF arrived split after its CR"),
    ("C19", "request-target-0x7f-0xb0", "4dc71f9", "request targets containing bytes 0x7F-0xB0 were accepted (compared with decimal 176 instead of 126)"),
    ("C20", "reason-phrase-not-sanitised", "d5b974f", "reason phrase with CR LF written verbatim: header injection / response splitting"),
    ("C25", "suffix-range-longer-than-file", "cd7cfd6", "Range: bytes=-N with N > file size gave a negative offset and a 500"),
    ("C26", "preauthchild-prefix-sibling", "be91dc7", "FilePath('/b/root').preauthChild('../rootX/secret') escaped through the shared name prefix"),
    ("C27", "redirect-resolved-against-original-uri", "6a76389", "second and later redirect hops were resolved against the original request URI"),
    ("C28", "html-comment-early-close", "41406c8", "Comment data starting with '>' or '->' or containing '--!>' closed the comment for an HTML tokenizer"),
    ("C30", "amp-empty-key", "c4d0818", "AmpBox with an empty key serialised as the box terminator and corrupted the stream"),
    ("C32", "dns-label-64-255", "85ca6f0", "labels of 64..255 bytes were emitted with an illegal length octet instead of being refused"),
    ("C32", "dns-compression-offset-overflow", "c22605d", "compression pointers to offsets >= 0x4000 were truncated: wrong names in messages > 16 KiB"),
    ("C35", "ssh-banner-line-own-segment", "08656e1", "a banner line delivered in its own segment before the SSH version line was parsed as a binary packet"),
    ("C36", "ssh-close-before-second-ext-buffer", "6dbaf9d", "pending close + two buffered extended-data types: CLOSE sent before the second entry, which was dropped"),
    ("C37", "lsh-rsa-private-pq-swap", "7404165", "RSA private key with p > q parsed back from the LSH format with p and q exchanged"),
    ("C38", "telnet-writesequence-unescaped", "2a3ca20", "TelnetTransport.writeSequence sent IAC bytes and LF unescaped/untranslated"),
    ("C40", "smtp-dot-first-in-chunk", "8131c5d", "a dot line starting the message or a FileSender chunk was not dot-stuffed; body executed as SMTP commands"),
    ("C41", "imap-utf7-direct-chars", "fb59638", "IMAP4 modified UTF-7 encoder left newline/tab etc. unencoded ('\\n' -> '&-')"),
    ("C41", "xtext-plus-equals-unescaped", "b6760b9", "xtext_encode did not escape '+' and '=' in byte strings"),
    ("C46", "quote-equals-positional", "601c755", "quoteStringArgument did not escape '=': quoted positional text became a keyword argument"),
    ("C47", "haproxy-short-first-segment", "68f0d01", "PROXY header whose first delivery is shorter than 8/16 bytes closed the connection"),
    ("C48", "digest-non-loginfailed-exceptions-opaque-base64", "c0dd5f5", "binascii.Error escaped from Digest decode() for undecodable base64 in the opaque"),
    ("C48", "digest-non-loginfailed-exceptions-unknown-algorithm", "c0dd5f5", "KeyError escaped from checkPassword() for an unknown algorithm"),
    ("C48", "digest-non-loginfailed-exceptions-nonascii-parameter-name", "c0dd5f5", "UnicodeDecodeError escaped from Digest decode() for a non-ASCII parameter name"),
    ("C48", "digest-non-loginfailed-exceptions-missing-uri", "a497eac", "TypeError from checkPassword() for a Digest response without uri"),
    ("C48", "digest-non-loginfailed-exceptions-qop-auth-int", "a497eac", "TypeError from checkPassword() for qop=auth-int"),
    ("C55", "log-decoration-raises-time", "bc42d91", "eventAsText/formatEventAsClassicLogText raised for an unrepresentable log_time"),
    ("C55", "log-decoration-raises-level", "bc42d91", "eventAsText/formatEventAsClassicLogText raised for a log_level without a name"),
    ("C55", "log-decoration-raises-namespace", "bc42d91", "eventAsText/formatEventAsClassicLogText raised for a log_namespace whose formatting fails"),
    ("C55", "traceback-error-str-raises", "e52f315", "str() of the exception raised by getTraceback() escaped from eventAsText()"),
    ("C55", "legacy-traceback-error-str-raises", "e52f315", "str() of the exception raised by getTraceback() escaped from textFromEventDict()"),
    ("C55", "legacy-bytes-format-returns-bytes", "b00be1a", "textFromEventDict returned bytes for a bytes format string"),
    ("C36", "receiver-window-1-never-replenished", "2237bb2", "a receive window of one byte was never replenished"),
    ("C47", "haproxy-v1-bare-unknown-rejected", "35b5f30", "the v1 short form 'PROXY UNKNOWN' was rejected"),
    ("C47", "haproxy-v1-overlong-line-accepted", "c53e5f6", "a v1 header line over 107 bytes was accepted when its CRLF came in the same segment"),
    ("C32", "dns-a6-suffix-octets-rounded-down", "573cc18", "Record_A6 wrote floor((128-prefixLen)/8) suffix octets instead of ceil"),
    ("C19", "post-content-type-parse-raises", "36231ba", "legal Content-Type values of a POST raised out of dataReceived; request neither delivered nor answered"),
    ("C01", "paused-chainee-strands-inner-callbacks", "37981a7", "callbacks queued on a fired Deferred were stranded when the Deferred waiting on it was paused"),
    ("C14", "writesequence-one-shot-iterable-dropped", "6c0310b", "FileDescriptor.writeSequence(iterator) silently dropped all data"),
]

# property, key, what fails (identified by mechanism; see DESIGN.md section 10 for each)
KNOWN = [
    ("C42", "imap-backslash-not-unescaped", "IMAP4: collapseNestedLists escapes a backslash in a quoted string as two backslashes but parseNestedParens only un-escapes backslash-quote: [b'a\\\\b'] parses back with the backslash doubled, [b'a\\\\'] raises MismatchedQuoting (not repaired: the existing test_parenParser pins the doubled-backslash result)"),
    ("C43", "irc-limit-in-characters", "IRCClient.msg/notice apply the length limit to characters before UTF-8 encoding: msg('#chan', 'e-acute'*100, length=60) sends 103-octet lines (not repaired: needs an octet-aware splitter, ~35 lines)"),
    ("C43", "irc-lowquote-expands-after-split", "IRCClient.msg/notice split first and low-level quote (NUL/DLE -> two characters) afterwards: msg('#chan', NUL*100, 60) sends lines over the limit (same repair as irc-limit-in-characters)"),
    ("C50", "stale-break-removes-live-lock", "FilesystemLock: two processes break the same stale lock; the slower one's rmlink removes the faster one's fresh lock and both lock() calls return True (not repaired: needs a protocol redesign)"),
    ("C56", "flatten-drops-format-spec", "flattenEvent/eventAsJSON store str(value) and the flattened format drops the format spec: '{n:05d}' formats as '42' after flattening"),
    ("C56", "flatten-conv-a", "flattened events cannot format fields using the !a conversion: 'Unable to format event'"),
    ("C56", "flatten-mid-path-call", "a call in the middle of a field path ('{o.sub().attr}') is not resolvable after flattening"),
    ("C56", "flatten-ignores-custom-format", "values with their own __format__ are rendered with str() after flattening"),
]


def main():
    extra = os.path.join(HERE, "tools", "kf_extra.json")
    fixed, known = list(FIXED), list(KNOWN)
    if os.path.exists(extra):
        x = json.load(open(extra))
        fixed += [tuple(e) for e in x.get("fixed", [])]
        known += [tuple(e) for e in x.get("known", [])]
    out = []
    for p, k, c, w in fixed:
        out.append({"property": p, "key": k, "status": "fixed", "commit": c, "what": w,
                    "line": "fixed: property=%s %s %s" % (p, c, w)})
    for p, k, w in known:
        out.append({"property": p, "key": k, "status": "known", "what": w,
                    "line": "known: property=%s %s" % (p, w)})
    with open(os.path.join(HERE, "known_findings.json"), "w") as f:
        json.dump({"format": "entries are keyed by (property, mechanism key); 'fixed' entries suppress nothing",
                   "findings": out}, f, indent=1)
    print("fixed %d, known %d" % (len(fixed), len(known)))


if __name__ == "__main__":
    main()
