#!/bin/sh
# Usage: tools/seed_verify.sh <patch.diff> <demo.py> <test path>...
# Confirms, in a scratch worktree of /repo HEAD: demo passes without the patch, fails with it,
# and the named existing test modules give the same pass/fail counts with and without the patch.
PATCH="$(readlink -f "$1")"; DEMO="$(readlink -f "$2")"; shift 2
WT="$(mktemp -d /tmp/seedverify_XXXXXX)"; rmdir "$WT"
RUN="$(mktemp -d /tmp/seedverify_run_XXXXXX)"
git -C /repo worktree add -q --detach "$WT" HEAD || exit 2
cd "$RUN"
PYTHONPATH="$WT/src${SEED_EXTRA_PATH:+:$SEED_EXTRA_PATH}" timeout 600 ${SEED_PY:-/venv/bin/python} "$DEMO" >/dev/null 2>&1; a=$?
t0="$(cd "$WT" && PYTHONPATH="$WT/src" timeout 3000 /venv/bin/python -m pytest -q -p no:cacheprovider "$@" 2>&1 | grep -E "passed|failed|error" | tail -1)"
if ! git -C "$WT" apply "$PATCH"; then echo "PATCH DOES NOT APPLY"; git -C /repo worktree remove --force "$WT"; rm -rf "$RUN"; exit 2; fi
PYTHONPATH="$WT/src${SEED_EXTRA_PATH:+:$SEED_EXTRA_PATH}" timeout 600 ${SEED_PY:-/venv/bin/python} "$DEMO" >/dev/null 2>&1; b=$?
t1="$(cd "$WT" && PYTHONPATH="$WT/src" timeout 3000 /venv/bin/python -m pytest -q -p no:cacheprovider "$@" 2>&1 | grep -E "passed|failed|error" | tail -1)"
echo "demo without patch: exit $a (want 0); with patch: exit $b (want != 0)"
echo "tests without patch: $t0"
echo "tests with patch:    $t1"
cd /; git -C /repo worktree remove --force "$WT"; rm -rf "$RUN"
