#!/bin/sh
# tools/seed_batch.sh <worktree name> <k> "<checks>" "<test paths>"  -> verify + evaluate one delivered seed
N="$1"; K="$2"; CH="$3"; TS="$4"
P=/tmp/seed_$N/_seed/$K
echo "##### $N/$K"
/verif/tools/seed_verify.sh $P/patch.diff $P/demo.py $TS
/verif/tools/seed_eval.sh $P/patch.diff quick $CH
