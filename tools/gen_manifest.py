#!/venv/bin/python
"""Regenerate /verif/MANIFEST.json from the property modules that exist under vf/props.

A property with a module is claimed; one without is listed under not_applicable with the reason
from NOT_APPLICABLE below (or "check not built yet").  Run: /venv/bin/python tools/gen_manifest.py
"""
import importlib
import json
import os
import sys

HERE = os.path.dirname(os.path.dirname(os.path.abspath(__file__)))
sys.path.insert(0, HERE)
sys.path.insert(0, "/repo/src")

NOT_APPLICABLE = {}

ENGINES = [
    {"name": "core", "path": "vf/run.py", "kind_free_text": "runner: shards, three-valued verdicts, known-finding classification, evidence writer"},
    {"name": "E1-explore", "path": "vf/engines/explore.py", "kind_free_text": "stateless bounded-exhaustive DFS over histories of real objects with abstract-state hashing"},
    {"name": "E2-netsim", "path": "vf/engines/netsim.py", "kind_free_text": "deterministic in-memory transports and segmentation/loss scheduler"},
    {"name": "E3-fsfault", "path": "vf/engines/fsfault.py", "kind_free_text": "crash-point and partial-write injection at filesystem-call granularity"},
]


def main():
    global ACCEPTED
    ACCEPTED = set(open(os.path.join(HERE, "tools", "accepted.txt")).read().split())
    props = [json.loads(l) for l in open(os.path.join(HERE, "properties.jsonl"))]
    baseline = json.load(open("/root/.vp/BASELINE.json"))["cmd"].replace("--junitxml=<file>", "--junitxml=/tmp/twisted-baseline.junit.xml")
    hooks_commits = []
    hc = os.path.join(HERE, "hooks_commits.txt")
    if os.path.exists(hc):
        hooks_commits = [l.split()[0] for l in open(hc) if l.strip() and not l.startswith("#")]
    checks, na = [], []
    served = {}
    for p in props:
        pid = p["id"]
        path = os.path.join(HERE, "vf", "props", pid.lower() + ".py")
        ready = os.path.exists(path) and any(l.strip().startswith("READY = True") for l in open(path))
        ready = ready and pid in ACCEPTED
        if not ready or pid in NOT_APPLICABLE:
            na.append({"property_id": pid, "reason": NOT_APPLICABLE.get(pid, "check not built yet in this round (design in DESIGN.md section 4)")})
            continue
        try:
            mod = importlib.import_module("vf.props." + pid.lower())
        except Exception as e:  # e.g. C17 module under the wrong interpreter
            print("warning: cannot import", pid, e, file=sys.stderr)
            mod = None
        level = getattr(mod, "LEVEL", "exploration")
        text = getattr(mod, "LEVEL_TEXT", None) or (
            "Runtime monitoring: the real twisted code is executed on generated/enumerated cases while "
            "the monitor compares every observed event with an executable reference; held means held on "
            "the executions counted in the evidence file, not a proof. " + (getattr(mod, "RULE", "") or ""))
        note = getattr(mod, "LEVEL_NOTE", None) or "; ".join(getattr(mod, "ASSUMPTIONS", [])) or "oracle code in the property module is trusted"
        c = {
            "property_id": pid,
            "quick_cmd": "./check %s --tier quick" % pid,
            "thorough_cmd": "./check %s --tier thorough" % pid,
            "evidence_file": "evidence/%s.json" % pid,
            "replay_cmd_template": "./check %s --replay {path}" % pid,
            "engine": getattr(mod, "ENGINE", "core"),
            "level_claimed": {"category": level, "text": text[:1500], "design_ref": "DESIGN.md section 4, %s" % pid},
            "level_note": note[:1500],
            "technique": getattr(mod, "TECHNIQUE", "runtime monitoring: reference-model oracle over executions of the real code"),
        }
        for e in getattr(mod, "ENGINE", "core").split("+"):
            served.setdefault(e.strip(), []).append(pid)
        checks.append(c)
    engines = []
    for e in ENGINES:
        if os.path.exists(os.path.join(HERE, e["path"])):
            e = dict(e)
            e["serves_properties"] = sorted(set(served.get(e["name"], []) + (sorted(c["property_id"] for c in checks) if e["name"] == "core" else [])))
            engines.append(e)
    man = {
        "version": 1,
        "setup_cmd": "./setup.sh",
        "hooks": {
            "guard": "TWISTED_VERIF",
            "enable": "no source hooks are needed: monitors attach from /verif (subclassing, wrapping test seams, sys.monitoring, audit hooks); ./check exports TWISTED_VERIF=1 and PYTHONPATH=/repo/src so the current working tree is what runs",
            "baseline_off_cmd": baseline,
            "source_commits": hooks_commits,
            "add_only": True,
        },
        "engines": engines,
        "checks": checks,
        "not_applicable": na,
        "notes": "Technique family: runtime monitoring only. Exit 0 = held on everything observed (KNOWN-FINDING lines are listed defects from known_findings.json); exit 1 + VIOLATION line = unlisted violation; exit 2 + INCONCLUSIVE line = monitor not reached / watchdog (never folded into held). See DESIGN.md.",
    }
    with open(os.path.join(HERE, "MANIFEST.json"), "w") as f:
        json.dump(man, f, indent=1)
    print("claimed %d, not_applicable %d" % (len(checks), len(na)))


if __name__ == "__main__":
    main()
