#!/bin/sh
# tools/run_all.sh <tier> <seed> [ids...] : run checks one after another, one summary line each.
TIER="$1"; SEED="$2"; shift 2
IDS="$*"; [ -n "$IDS" ] || IDS="$(python3 -c "import json;print(' '.join(c['property_id'] for c in json.load(open('MANIFEST.json'))['checks']))")"
for id in $IDS; do
  s=$(date +%s)
  out="$(VERIF_SEED=$SEED ./check $id --tier $TIER ${NOEVID:+--no-evidence} 2>&1 | grep -v '^WARNING')"
  e=$(( $(date +%s) - s ))
  v=$(printf '%s\n' "$out" | grep -c '^VIOLATION'); i=$(printf '%s\n' "$out" | grep -c '^INCONCLUSIVE'); k=$(printf '%s\n' "$out" | grep -c '^KNOWN-FINDING')
  r=$(printf '%s\n' "$out" | grep '^RESULT' | cut -d' ' -f2-8)
  echo "$id ${e}s viol=$v inconcl=$i known=$k $r"
  if [ "$v" != 0 ] || [ "$i" != 0 ]; then printf '%s\n' "$out" | grep -E '^VIOLATION|mechanism=|^INCONCLUSIVE' | cut -c1-300 | head -8; fi
done
