#!/usr/bin/env python3
"""tools/seed_task.py <name> <Cxx> [<Cyy> ...]
Creates a scratch worktree /tmp/seed_<name> of /repo HEAD and writes /tmp/seed_<name>/TASK.md holding
ONLY the property texts and the generic instructions for an independent seeded-change author
(nothing from /verif's machinery).  Prints the worktree path."""
import json
import os
import subprocess
import sys

name = sys.argv[1]
ids = sys.argv[2:]
# "Cxx Cxx" (same id twice) = two different changes for one property
import glob
wt = "/tmp/seed_" + name
props = {}
for l in open(os.path.join(os.path.dirname(os.path.dirname(os.path.abspath(__file__))), "properties.jsonl")):
    p = json.loads(l)
    props[p["id"]] = p
subprocess.check_call(["git", "-C", "/repo", "worktree", "add", "-q", "--detach", wt, "HEAD"])
parts = []
for n, i in enumerate(ids):
    p = props[i]
    parts.append("(%s) \"%s. %s\"\n    (code: %s)" % (chr(65 + n), p["title"], p["statement"], ", ".join(p["anchors"]["files"])))
task = """# Task: produce realistic, subtle regressions in Twisted

You are a software engineer asked to produce realistic, subtle regressions in the Twisted codebase, for
testing a verification pipeline that you know nothing about.  You have your own scratch git worktree of
twisted/twisted at WT (work ONLY there; do not read or touch /verif or /repo; do not look for
verification tooling anywhere).  Python interpreter: /venv/bin/python (3.12).  Run tests like

    cd WT && PYTHONPATH=WT/src /venv/bin/python -m pytest -q -p no:cacheprovider src/twisted/test/test_defer.py

(the PYTHONPATH is essential: without it the installed copy under /repo is imported).  NEVER use `git stash`
(stashes are shared between worktrees and other people work in sibling worktrees): save a change with
`git diff > file`, revert with `git checkout -- .`, re-apply with `git apply file`.

## The properties your changes must break (one change per property)

PROPS

## What to deliver

Make NCH different, independent changes to the twisted source (each a separate patch against the unmodified
worktree; change k breaks property k in the order above) such that the code still imports and the existing
test suite still passes: find the existing test modules that exercise the files you touch (grep for imports
of the module; e.g. src/twisted/test/test_*.py, src/twisted/<pkg>/test/test_*.py), run them with and without
your change and report pass counts (identical counts required; some tests fail on the unmodified tree already
because the suite runs as root - ignore those if they fail identically).

Each change must need something SPECIFIC to manifest - a particular interleaving or schedule, a crash or
fault at a particular point, a multi-step sequence of operations, an unusual input or boundary value, or two
cooperating sites that each look fine alone - not something ordinary use would expose at once (if the obvious
existing tests fail with it, it is too blunt).  Make them look like plausible refactoring / optimisation /
clean-up mistakes a maintainer could commit.  Do not add new files to the source tree; do not touch tests.
Never do anything destructive outside your worktree (no deleting/overwriting files elsewhere, even in demos:
demos must confine filesystem activity to a tempfile.mkdtemp() directory they remove).

For change k in 1..NCH write under WT/_seed/k/:
* `patch.diff` - output of `git diff` in the worktree with only that change applied (paths src/twisted/...);
* `demo.py` - a small standalone program, run as `PYTHONPATH=<tree>/src /venv/bin/python demo.py`, that exits
  non-zero (prints FAIL) with the change and exits 0 (prints PASS) without it - verify both yourself;
* `meta.txt` - which property it breaks, what is needed for it to manifest, which test modules you ran and
  their pass counts with and without the change.

Leave the worktree itself clean (`git checkout -- .`) at the end so that only `_seed/` remains as untracked
content.  Your final message: a short summary of each change (what, what it needs to manifest).
"""
avoid = []
for d in sorted(glob.glob(os.path.join(os.path.dirname(os.path.dirname(os.path.abspath(__file__))), "seeded", "*"))):
    try:
        m = json.load(open(os.path.join(d, "meta.json")))
    except Exception:
        continue
    if set(m["breaks_property"]) & set(ids):
        avoid.append("* " + m["needs_to_manifest"])
if avoid:
    task += """
## Already tried by other engineers (do something DIFFERENT in kind: other code site, other trigger)

""" + "\n".join(avoid) + "\n"
if len(set(ids)) < len(ids):
    task += """
Note: the same property is listed more than once on purpose: deliver that many DIFFERENT changes for it
(different code sites and different manifestation conditions).
"""
task = task.replace("WT", wt).replace("PROPS", "\n\n".join(parts)).replace("NCH", str(len(ids)))
with open(os.path.join(wt, "TASK.md"), "w") as f:
    f.write(task)
print(wt)
