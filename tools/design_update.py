#!/usr/bin/env python3
"""Regenerate the tables between the TABLES markers of DESIGN.md."""
import os, subprocess
H = os.path.dirname(os.path.dirname(os.path.abspath(__file__)))
p = os.path.join(H, "DESIGN.md")
s = open(p).read()
t = subprocess.run(["python3", os.path.join(H, "tools", "design_tables.py")], capture_output=True, text=True).stdout
a, b = s.index("<!-- TABLES:BEGIN -->"), s.index("<!-- TABLES:END -->")
s = s[:a] + "<!-- TABLES:BEGIN -->\n\n" + t + "\n" + s[b:]
open(p, "w").write(s)
# seeded-change statistics line (10.4)
import glob, json, re
n = miss = caught_now = checked = 0
for f in glob.glob(os.path.join(H, "seeded", "*", "meta.json")):
    m = json.load(open(f)); n += 1
    if str(m["detected_by"]).upper().startswith("MISSED"): miss += 1
    dn = m.get("detected_now") or {}
    if dn:
        checked += 1
        if any(v["verdict"] == "violated" for v in dn.values()): caught_now += 1
line = ("Of the %d kept changes, %d were caught by the quick tier as it stood when the change was delivered and "
        "%d were missed; at the last `tools/seed_recheck.py` run %d of the %d re-run changes are caught.\n"
        % (n, n - miss, miss, caught_now, checked))
s = re.sub(r"<!-- SEEDSTATS -->\n(?:Of the \d+ kept changes[^\n]*\n)?", "<!-- SEEDSTATS -->\n" + line, s)
open(p, "w").write(s)
