#!/usr/bin/env python3
"""Regenerate the tables between the TABLES markers of DESIGN.md."""
import os, subprocess
H = os.path.dirname(os.path.dirname(os.path.abspath(__file__)))
p = os.path.join(H, "DESIGN.md")
s = open(p).read()
t = subprocess.run(["python3", os.path.join(H, "tools", "design_tables.py")], capture_output=True, text=True).stdout
a, b = s.index("<!-- TABLES:BEGIN -->"), s.index("<!-- TABLES:END -->")
s = s[:a] + "<!-- TABLES:BEGIN -->\n\n" + t + "\n" + s[b:]
open(p, "w").write(s)
