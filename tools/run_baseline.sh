#!/bin/sh
# Run the pinned baseline suite (guard OFF) in repo dir $1 (default /repo) and compare with
# /root/.vp/BASELINE.json stable_pass.  Prints the baseline tests that did not pass.
REPO="${1:-/repo}"
OUT="$(mktemp -d)"
cd "$REPO" || exit 2
env -u TWISTED_VERIF PYTHONPATH="$REPO/src" /venv/bin/python -m pytest -ra -q -p no:cacheprovider --timeout=900 \
    --continue-on-collection-errors --junitxml="$OUT/junit.xml" > "$OUT/log.txt" 2>&1
tail -3 "$OUT/log.txt"
python3 - "$OUT/junit.xml" <<'PY'
import json, sys, xml.etree.ElementTree as ET
sp = set(json.load(open('/root/.vp/BASELINE.json'))['stable_pass'])
root = ET.parse(sys.argv[1]).getroot()
passed, failed = set(), set()
for tc in root.iter('testcase'):
    tid = (tc.get('classname') or '') + '::' + (tc.get('name') or '')
    if tc.find('failure') is not None or tc.find('error') is not None: failed.add(tid)
    elif tc.find('skipped') is not None: pass
    else: passed.add(tid)
passed -= failed
missing = sorted(sp - passed)
print('baseline stable tests: %d, passed now: %d, baseline tests NOT passing: %d' % (len(sp), len(sp & passed), len(missing)))
for m in missing[:60]: print('  MISSING', m, '(failed)' if m in failed else '(not run/skipped)')
sys.exit(1 if missing else 0)
PY
rc=$?
rm -rf "$OUT"
exit $rc
