"""Self-tests of the trusted-base programs (reference parsers etc.), run by setup.sh.
Each engine/reference module may define selftest(); failures make setup fail."""
import importlib
import pkgutil
import sys


def main():
    import vf.engines as E
    bad = 0
    for m in pkgutil.iter_modules(E.__path__):
        try:
            mod = importlib.import_module("vf.engines." + m.name)
        except Exception as e:  # engines needing twisted are tested by the checks themselves
            continue
        st = getattr(mod, "selftest", None)
        if st:
            try:
                st()
                print("selftest ok:", m.name)
            except Exception as e:
                bad += 1
                print("selftest FAILED:", m.name, repr(e))
    return 1 if bad else 0


if __name__ == "__main__":
    sys.exit(main())
