"""CLI of the runtime-monitoring framework.

    python -m vf.run <ID> --tier quick|thorough [--seed N] [--replay FILE]
    (internal)         <ID> --tier T --seed N --shard i/n --out FILE

Exit codes: 0 held (KNOWN-FINDING lines allowed), 1 violation (VIOLATION lines printed),
2 inconclusive (INCONCLUSIVE line printed; never folded into held).
"""
import argparse
import importlib
import json
import os
import subprocess
import sys
import tempfile
import time
import traceback

from vf.core.ctx import Ctx, jsonable

HOME = os.environ.get("VERIF_HOME") or os.path.dirname(os.path.dirname(os.path.abspath(__file__)))
REPO = os.environ.get("VERIF_REPO", "/repo")


def load_known():
    path = os.path.join(HOME, "known_findings.json")
    try:
        with open(path) as f:
            return json.load(f)["findings"]
    except FileNotFoundError:
        return []


def check_tree():
    """The monitored code must be the working tree of $VERIF_REPO."""
    import twisted

    want = os.path.realpath(os.path.join(REPO, "src"))
    got = os.path.realpath(twisted.__file__)
    if not got.startswith(want + os.sep):
        print("INCONCLUSIVE reason=twisted imported from %s, not from %s" % (got, want))
        sys.exit(2)


def run_shard(mod, ctx):
    try:
        mod.run(ctx)
    except BaseException as e:  # harness crash: inconclusive, never held
        if isinstance(e, KeyboardInterrupt):
            raise
        ctx.inconclusive("harness exception in shard %d: %s" % (ctx.shard, "".join(traceback.format_exception(type(e), e, e.__traceback__))[-1500:]))


def main(argv=None):
    ap = argparse.ArgumentParser()
    ap.add_argument("prop")
    ap.add_argument("--tier", default=os.environ.get("VERIF_TIER", "quick"), choices=["quick", "thorough"])
    ap.add_argument("--seed", type=int, default=int(os.environ.get("VERIF_SEED", "0") or 0))
    ap.add_argument("--shard", default=None)
    ap.add_argument("--out", default=None)
    ap.add_argument("--replay", default=None)
    ap.add_argument("--no-evidence", action="store_true")
    a = ap.parse_args(argv)
    pid = a.prop.upper()
    t0 = time.time()
    check_tree()
    mod = importlib.import_module("vf.props." + pid.lower())

    if a.replay:
        with open(a.replay) as f:
            w = json.load(f)
        ctx = Ctx(pid, w.get("tier", a.tier), w.get("seed", a.seed))
        ctx.replaying = True
        if not hasattr(mod, "replay"):
            print("replay: %s has no replay(); re-run with VERIF_SEED=%s" % (pid, w.get("seed")))
            return 2
        mod.replay(ctx, w)
        return finish(mod, ctx, a, t0, write_evidence=False)

    if a.shard:
        i, n = map(int, a.shard.split("/"))
        ctx = Ctx(pid, a.tier, a.seed, i, n)
        run_shard(mod, ctx)
        with open(a.out, "w") as f:
            json.dump(ctx.dump(), f)
        return 0

    nsh = getattr(mod, "SHARDS", {}).get(a.tier, 1)
    nsh = max(1, min(nsh, int(os.environ.get("VERIF_MAXSHARDS", "16"))))
    ctx = Ctx(pid, a.tier, a.seed, 0, 1)
    if nsh == 1:
        run_shard(mod, ctx)
    else:
        watchdog = getattr(mod, "WATCHDOG_S", {}).get(a.tier, 3600 if a.tier == "quick" else 6 * 3600)
        tmpd = tempfile.mkdtemp(prefix="vfshard_")
        procs = []
        for i in range(nsh):
            out = os.path.join(tmpd, "s%d.json" % i)
            cmd = [sys.executable, "-m", "vf.run", pid, "--tier", a.tier, "--seed", str(a.seed), "--shard", "%d/%d" % (i, nsh), "--out", out]
            # shard output goes to a file, not a pipe: a shard that prints more than the pipe buffer
            # (tracebacks of deliberately provoked failures) would block until its turn to be read
            logf = open(out + ".log", "wb")
            procs.append((i, out, subprocess.Popen(cmd, stdout=logf, stderr=subprocess.STDOUT), logf))
        for i, out, p, logf in procs:
            timed_out = False
            try:
                p.wait(timeout=max(1, watchdog - (time.time() - t0)))
            except subprocess.TimeoutExpired:
                p.kill()
                p.wait()
                timed_out = True
            logf.close()
            try:
                with open(out + ".log", "rb") as f:
                    f.seek(max(0, os.path.getsize(out + ".log") - 800))
                    o = f.read()
                os.unlink(out + ".log")
            except OSError:
                o = b""
            if timed_out:
                ctx.inconclusive("watchdog: shard %d exceeded %ds" % (i, watchdog))
                continue
            if p.returncode != 0 or not os.path.exists(out):
                ctx.inconclusive("shard %d exited %s: %s" % (i, p.returncode, (o or b"").decode("utf-8", "replace")))
                continue
            with open(out) as f:
                ctx.merge(json.load(f))
            os.unlink(out)
        try:
            os.rmdir(tmpd)
        except OSError:
            pass
    return finish(mod, ctx, a, t0, write_evidence=not a.no_evidence)


def finish(mod, ctx, a, t0, write_evidence=True):
    pid = ctx.prop_id
    known = {(k["property"], k["key"]): k for k in load_known()}
    # floors: silent monitors are inconclusive, not held
    floors = {} if getattr(ctx, "replaying", False) else getattr(mod, "FLOORS", {})
    if isinstance(floors.get(ctx.tier), dict):  # {"quick": {...}, "thorough": {...}} form
        floors = floors[ctx.tier]
    for name, floor in floors.items():
        if isinstance(floor, dict):
            continue
        have = ctx.evaluations if name == "evaluations" else ctx.n_distinct if name == "distinct" else ctx.counters.get(name, 0)
        if have < floor:
            ctx.inconclusive("monitor counter %s=%d below floor %d" % (name, have, floor))
    if (ctx.n_distinct < 2 or ctx.evaluations < 1) and not getattr(ctx, "replaying", False):
        ctx.inconclusive("fewer than 2 distinct non-trivial cases observed")

    unlisted = []
    lines = []
    os.makedirs(os.path.join(HOME, "replays"), exist_ok=True)
    for key in sorted(ctx.violations):
        v = ctx.violations[key]
        k = known.get((pid, key))
        if k is not None and k.get("status") == "known":
            lines.append("KNOWN-FINDING: property=%s %s [%s; seen %d times in this run]" % (pid, k["what"], key, v["count"]))
            continue
        path = os.path.join(HOME, "replays", "%s-%s-seed%d.json" % (pid, "".join(c if c.isalnum() or c in "-_" else "_" for c in key)[:80], ctx.seed))
        with open(path, "w") as f:
            json.dump({"property": pid, "key": key, "what": v["what"], "seed": ctx.seed, "tier": ctx.tier, "witness": v["witness"], "count": v["count"]}, f, indent=1)
        unlisted.append((key, path, v))
        lines.append("VIOLATION property=%s replay=%s" % (pid, path))
        lines.append("  mechanism=%s count=%d: %s" % (key, v["count"], v["what"]))

    if write_evidence:
        cov = {
            "evaluations": ctx.evaluations,
            "distinct_nontrivial": ctx.n_distinct,
            "rule": getattr(mod, "RULE", ""),
            "samples": ctx.samples[:5],
            "counters": ctx.counters,
        }
        if ctx.exhaustive is not None:
            cov["exhaustive"] = bool(ctx.exhaustive)
        for k, v in ctx.extra.items():
            cov[k] = sorted(v) if isinstance(v, set) else jsonable(v)
        cov["known_findings_seen"] = sorted(k for k in ctx.violations if (pid, k) in known and known[(pid, k)].get("status") == "known")
        cov["verdict"] = "violated" if unlisted else ("inconclusive" if ctx.inconclusive_reasons else "held on everything observed")
        if ctx.inconclusive_reasons:
            cov["inconclusive_reasons"] = ctx.inconclusive_reasons
        ev = {
            "property_id": pid,
            "tier": ctx.tier,
            "seed": ctx.seed,
            "level": getattr(mod, "LEVEL", "exploration"),
            "coverage": cov,
            "assumptions": list(getattr(mod, "ASSUMPTIONS", [])),
            "wall_s": round(time.time() - t0, 3),
            "violations": len(unlisted),
        }
        os.makedirs(os.path.join(HOME, "evidence"), exist_ok=True)
        tmp = os.path.join(HOME, "evidence", ".%s.json.tmp" % pid)
        with open(tmp, "w") as f:
            json.dump(ev, f, indent=1, sort_keys=True)
        os.replace(tmp, os.path.join(HOME, "evidence", "%s.json" % pid))

    for l in lines:
        print(l)
    summary = "%s tier=%s seed=%d evaluations=%d distinct=%d wall=%.1fs" % (pid, ctx.tier, ctx.seed, ctx.evaluations, ctx.n_distinct, time.time() - t0)
    if unlisted:
        print("RESULT violated " + summary)
        return 1
    if ctx.inconclusive_reasons:
        for r in ctx.inconclusive_reasons:
            print("INCONCLUSIVE property=%s reason=%s" % (pid, r))
        print("RESULT inconclusive " + summary)
        return 2
    print("RESULT held " + summary + " counters=" + json.dumps(ctx.counters, sort_keys=True)[:600])
    return 0


if __name__ == "__main__":
    sys.exit(main())
