"""Harness-owned stand-in for the `priority` package (absent from this sandbox and its wheelhouse),
just enough for `twisted.web._http2` to import and run: a *flat* tree.

Every unblocked stream is served round-robin; dependencies, weights and exclusivity are accepted
and ignored.  Stream ordering is not part of property C29 (flow control is enforced by the real
`h2` state machines on both sides); this is stated as an assumption in the C29 evidence.

Same public surface as priority 1.3/2.0 as far as twisted uses it: PriorityTree with
insert_stream / remove_stream / block / unblock / reprioritize / __iter__ / __next__, and the
exceptions DeadlockError, DuplicateStreamError, MissingStreamError (next() raises DeadlockError
when no stream is unblocked, also when the tree is empty).
"""


class PriorityError(Exception):
    pass


class DeadlockError(PriorityError):
    pass


class DuplicateStreamError(PriorityError):
    pass


class MissingStreamError(KeyError, PriorityError):
    pass


class PriorityTree:
    def __init__(self, maximum_streams=1000):
        self._active = {}  # stream id -> bool, insertion ordered
        self._last = None

    def insert_stream(self, stream_id, depends_on=None, weight=16, exclusive=False):
        if stream_id in self._active:
            raise DuplicateStreamError("Stream %d already in tree" % stream_id)
        self._active[stream_id] = True

    def reprioritize(self, stream_id, depends_on=None, weight=16, exclusive=False):
        if stream_id not in self._active:
            raise MissingStreamError("Stream %d not in tree" % stream_id)

    def remove_stream(self, stream_id):
        if stream_id not in self._active:
            raise MissingStreamError("Stream %d not in tree" % stream_id)
        del self._active[stream_id]

    def block(self, stream_id):
        if stream_id not in self._active:
            raise MissingStreamError("Stream %d not in tree" % stream_id)
        self._active[stream_id] = False

    def unblock(self, stream_id):
        if stream_id not in self._active:
            raise MissingStreamError("Stream %d not in tree" % stream_id)
        self._active[stream_id] = True

    def __iter__(self):
        return self

    def __next__(self):
        ready = [s for s, a in self._active.items() if a]
        if not ready:
            raise DeadlockError("No unblocked streams to schedule.")
        later = [s for s in ready if self._last is not None and s > self._last]
        self._last = later[0] if later else ready[0]
        return self._last

    next = __next__
