"""Run context shared by every property module.

A property module (vf/props/cXX.py) exports::

    LEVEL = "exploration" | "fault_enumeration"
    RULE = "how cases are generated and what makes one distinct/non-trivial"
    ASSUMPTIONS = [...]
    FLOORS = {"counter name": minimum}       # below -> INCONCLUSIVE (monitor not reached)
    SHARDS = {"quick": n, "thorough": m}     # optional, subprocess shards
    def run(ctx): ...                        # drives the workload, calls ctx.* to report
    def replay(ctx, witness): ...            # optional: re-execute one recorded case

and reports through the Ctx below.  Nothing here imports twisted.
"""
import hashlib
import json
import os
import random
import time


def _h(obj):
    if not isinstance(obj, (bytes, bytearray)):
        obj = repr(obj).encode("utf-8", "backslashreplace")
    return hashlib.blake2b(obj, digest_size=8).hexdigest()


def jsonable(o, depth=0):
    """Best-effort conversion of witnesses/samples to JSON (bytes -> latin-1 repr)."""
    if depth > 12:
        return repr(o)
    if o is None or isinstance(o, (bool, int, str)):
        return o
    if isinstance(o, float):
        return o if o == o and o not in (float("inf"), float("-inf")) else repr(o)
    if isinstance(o, (bytes, bytearray)):
        b = bytes(o)
        if len(b) > 400:
            return "b:%r...(%d bytes, blake2=%s)" % (b[:200], len(b), _h(b))
        return "b:" + repr(b)[2:-1]
    if isinstance(o, dict):
        return {str(jsonable(k, depth + 1)): jsonable(v, depth + 1) for k, v in o.items()}
    if isinstance(o, (list, tuple, set, frozenset)):
        return [jsonable(x, depth + 1) for x in o]
    return repr(o)


class Ctx:
    MAX_DISTINCT = 400000

    def __init__(self, prop_id, tier, seed, shard=0, nshards=1):
        self.prop_id = prop_id
        self.tier = tier
        self.seed = seed
        self.shard = shard
        self.nshards = nshards
        self.rng = random.Random("%s:%s:%s" % (prop_id, seed, shard))
        self.counters = {}
        self.evaluations = 0
        self._distinct = set()
        self.samples = []
        self.violations = {}  # key -> {"what":..., "witness":..., "count": n}
        self.inconclusive_reasons = []
        self.extra = {}  # free-form evidence (sets become sorted lists)
        self.exhaustive = None
        self.t0 = time.time()
        self.deadline = None

    # ---- sizing -----------------------------------------------------------------------------
    @property
    def quick(self):
        return self.tier == "quick"

    def size(self, quick, thorough):
        """Total case count for this tier (before sharding)."""
        n = quick if self.tier == "quick" else thorough
        scale = float(os.environ.get("VERIF_SCALE", "1"))
        return max(1, int(n * scale))

    def cases(self, quick, thorough=None):
        """Iterate the case indices this shard owns out of size(quick, thorough)."""
        n = self.size(quick, quick if thorough is None else thorough)
        return range(self.shard, n, self.nshards)

    def owns(self, k):
        """For enumerations: does this shard own item number/hash k?"""
        if not isinstance(k, int):
            k = int(_h(k), 16)
        return k % self.nshards == self.shard

    def case_rng(self, *key):
        return random.Random("%s:%s:%s" % (self.prop_id, self.seed, ":".join(map(str, key))))

    # ---- reporting --------------------------------------------------------------------------
    def count(self, name, n=1):
        self.counters[name] = self.counters.get(name, 0) + n

    def maxi(self, name, v):
        k = "max_" + name
        if v > self.extra.get(k, float("-inf")):
            self.extra[k] = v

    def seen(self, name, value):
        """Record a member of a small named set (event types, exception types, configs...)."""
        s = self.extra.setdefault("set_" + name, set())
        if len(s) < 500:
            s.add(value if isinstance(value, str) else repr(value))

    def evaluated(self, n=1):
        self.evaluations += n

    def distinct(self, signature):
        """Count one DISTINCT non-trivial case, identified by its signature."""
        if len(self._distinct) < self.MAX_DISTINCT:
            self._distinct.add(_h(signature))
        else:
            self.count("distinct_overflow_dropped")

    def sample(self, obj, limit=4):
        if len(self.samples) < limit:
            self.samples.append(jsonable(obj))

    def violation(self, key, what, witness):
        """Report a violation.  `key` names the MECHANISM (never a hash of the input)."""
        v = self.violations.get(key)
        if v is None:
            self.violations[key] = {"what": what, "witness": jsonable(witness), "count": 1}
        else:
            v["count"] += 1

    def inconclusive(self, reason):
        if reason not in self.inconclusive_reasons:
            self.inconclusive_reasons.append(reason)

    # ---- (de)serialisation for shard merging --------------------------------------------------
    def dump(self):
        extra = {}
        for k, v in self.extra.items():
            extra[k] = sorted(v) if isinstance(v, set) else v
        return {
            "counters": self.counters,
            "evaluations": self.evaluations,
            "distinct": sorted(self._distinct),
            "samples": self.samples,
            "violations": self.violations,
            "inconclusive": self.inconclusive_reasons,
            "extra": extra,
            "exhaustive": self.exhaustive,
        }

    def merge(self, d):
        for k, v in d["counters"].items():
            self.counters[k] = self.counters.get(k, 0) + v
        self.evaluations += d["evaluations"]
        self._distinct.update(d["distinct"])
        for s in d["samples"]:
            if len(self.samples) < 5:
                self.samples.append(s)
        for k, v in d["violations"].items():
            if k in self.violations:
                self.violations[k]["count"] += v["count"]
            else:
                self.violations[k] = v
        for r in d["inconclusive"]:
            self.inconclusive(r)
        for k, v in d["extra"].items():
            if k.startswith("set_"):
                self.extra.setdefault(k, set()).update(v)
            elif k.startswith("max_"):
                if v > self.extra.get(k, float("-inf")):
                    self.extra[k] = v
            else:
                self.extra.setdefault(k, v)
        if d["exhaustive"] is not None:
            self.exhaustive = d["exhaustive"] if self.exhaustive is None else (self.exhaustive and d["exhaustive"])

    @property
    def n_distinct(self):
        return len(self._distinct)
