"""C43 IRC messages are split within the length limit without losing content; CTCP / low-level
quoting round-trip.

Monitor: a real IRCClient (performLogin off, lineRate None) on a recording transport; msg()/notice()
are called with generated (user, text, length) and the *bytes written* are observed.  The stream must
be a sequence of CRLF-terminated lines; every line is at most `length` octets including CRLF, has no
CR/LF inside, starts with "PRIVMSG|NOTICE <user> :"; the message parts -- UTF-8 decoded and low-level
de-quoted by the monitor's own RFC-CTCP dequoter, as a receiver would -- concatenated and stripped of
whitespace equal the text stripped of whitespace.  ctcpQuote/lowQuote are checked by round trip.

A fifth of the cases run with `lineRate` set: the lines then leave through the client's rate-limit queue,
driven by a task.Clock put in place of the module's `reactor` for the call (restored in `finally`); the
same checks are applied to the bytes in *arrival order* once the queue has drained (bounded number of ticks).

Guards: "whitespace" is everything str.isspace() accepts (textwrap drops such chunks at line edges);
a ValueError is accepted when the limit leaves no room for any payload; the length verdict is only
taken when the room (limit - prefix - CRLF) can hold the largest single character of the text on the
wire (4 octets suffice), since no splitter can do better; lone surrogates are not generated.
Classification by counterfactual: the same call with non-ASCII characters replaced by 'x'
(-> `irc-limit-in-characters`, DESIGN 6-21) or with NUL/DLE replaced by U+0001
(-> `irc-lowquote-expands-after-split`) passing every check names the mechanism; anything else keeps
a stage key.
"""
LEVEL = "exploration"
ENGINE = "core"
TECHNIQUE = "runtime monitoring: octet-length / CRLF / content-preservation checks on the bytes written to the transport"
RULE = ("random (PRIVMSG|NOTICE, user, text, limit): text of 0..600 characters built from words of 1..400 "
        "characters over ASCII, hyphens, 2/3/4-byte code points, NUL/DLE/SOH/backslash, separated by "
        "spaces/tabs/LF/CR/CRLF/VT/FF/Unicode spaces; limit from prefix+CRLF+1 up to 512 (biased to small "
        "rooms and to 512), plus a deterministic grid: each of 24 texts x every room 1..40.  Quoting: all "
        "strings of length <= 3 over the 10 characters that the quoters treat specially, plus random text.  "
        "Distinct = (type, user, text, limit) resp. the quoted string; non-trivial = the text needs more "
        "than one line or contains a character that is not printable ASCII.")
ASSUMPTIONS = ["receiver model: lines are split at CRLF, UTF-8 decoded, low-level de-quoted per the CTCP "
               "specification (DLE 0/n/r/DLE) by the monitor's own dequoter"]
SHARDS = {"quick": 4, "thorough": 16}
FLOORS = {"lines_checked": 50000, "multi_line_messages": 5000, "length_verdicts": 10000,
          "content_comparisons": 15000, "quote_roundtrips": 4000, "non_ascii_texts": 3000,
          "rate_limited_messages": 4000, "rate_limited_messages_of_3_or_more_lines": 1500, "rate_limited_lines_sent_by_timer": 20000}
READY = True

M_QUOTE = "\x10"
_LOW = {"0": "\x00", "n": "\n", "r": "\r", M_QUOTE: M_QUOTE}


def low_dequote(s):
    out = []
    i = 0
    while i < len(s):
        c = s[i]
        if c == M_QUOTE and i + 1 < len(s):
            out.append(_LOW.get(s[i + 1], s[i + 1]))
            i += 2
        else:
            out.append(c)
            i += 1
    return "".join(out)


def nows(s):
    return "".join(c for c in s if not c.isspace())


WORDCHARS = "abcdefghijklmnopqrstuvwxyzABCXYZ0123456789"
PUNCT = ".,;:!?-'\"()[]{}/\\@#$%^&*_+=~|<>`"
SEPS = [" ", " ", " ", " ", "  ", "\t", "\n", "\n", "\r", "\r\n", "\n\n", "\x0b", "\x0c", " \n ", "\xa0", "　", " ", "\x85", "\x1c"]
WIDE = "éßñüäöçàÿ¿£Жжאاกあア中文가€—�！\U0001f600\U0001f4a9\U00010348\U0010ffff\U00020000"


def gen_word(rng, kind):
    n = rng.choice((1, 1, 2, 3, 4, 5, 7, 9, 12, 20, 35, 80)) if rng.random() < 0.93 else rng.choice((120, 250, 400))
    out = []
    for _ in range(n):
        r = rng.random()
        if kind == "ascii":
            out.append(rng.choice(WORDCHARS) if r < 0.9 else rng.choice(PUNCT))
        elif kind == "wide":
            out.append(rng.choice(WIDE) if r < 0.8 else rng.choice(WORDCHARS))
        elif kind == "ctl":
            out.append(rng.choice("\x00\x10\x01\\\x7f\x02\x1f") if r < 0.5 else rng.choice(WORDCHARS + "0nr"))
        else:
            out.append(rng.choice(WORDCHARS) if r < 0.5 else rng.choice(WIDE) if r < 0.8 else rng.choice(PUNCT) if r < 0.93 else rng.choice("\x00\x10\x01\\"))
    return "".join(out)


def gen_text(rng):
    kind = rng.choice(("ascii", "ascii", "wide", "wide", "mixed", "mixed", "ctl"))
    nwords = rng.choice((0, 1, 1, 2, 3, 5, 8, 13, 30))
    parts = []
    if rng.random() < 0.15:
        parts.append(rng.choice(SEPS))
    total = 0
    for w in range(nwords):
        word = gen_word(rng, kind)
        total += len(word)
        parts.append(word)
        if total > 600:
            break
        if w != nwords - 1 or rng.random() < 0.2:
            parts.append(rng.choice(SEPS))
    return "".join(parts)


GRID_TEXTS = ["hello world", "a" * 50, "é" * 30, "\U0001f600" * 12, "ab cd ef gh ij kl mn op", "x\ny\n\nz", "line one\r\nline two",
              "tab\tsep\tfields", "\x00\x00\x00\x00\x00\x00\x00\x00", "a\x10b\x10c\x10d\x10", "well-known hyphen-ated words-here",
              "   lead and trail   ", "日本語のテキストがここにあります", "mixed é ascii ü and 中文 words", "\\back\\slash\\", "\x01ACTION waves\x01",
              "one", "", " ", "\n", "aé" * 20, "word " * 12, "é " * 25, "x" * 39 + " " + "y" * 41]


class Recorder:
    """Minimal transport: records every write."""

    disconnecting = False

    def __init__(self):
        self.writes = []

    def write(self, data):
        self.writes.append(bytes(data))

    def writeSequence(self, seq):
        self.writes.append(b"".join(seq))

    def getPeer(self):
        return None

    def getHost(self):
        return None

    def loseConnection(self):
        self.disconnecting = True


def make_client(irc, rate=None):
    class Client(irc.IRCClient):
        performLogin = 0
        lineRate = rate

    c = Client()
    t = Recorder()
    c.makeConnection(t)
    del t.writes[:]
    return c, t


def wire_len(ch):
    return 2 if ch in "\x00\x10\n\r" else len(ch.encode("utf-8"))


def send(irc, c, t, kind, user, text, limit, rate, info):
    """Call msg()/notice(); with a rate limit, drive the queue with a task.Clock until it is empty."""
    if rate is None:
        (c.msg if kind == "PRIVMSG" else c.notice)(user, text, limit)
        return
    from twisted.internet import task

    clock = task.Clock()
    saved = irc.reactor
    irc.reactor = clock
    try:
        (c.msg if kind == "PRIVMSG" else c.notice)(user, text, limit)
        info["sent_immediately"] = len(t.writes)
        for _ in range(5000):  # bounded: one line per tick
            if not clock.getDelayedCalls():
                break
            clock.advance(rate)
        info["queue_drained"] = not clock.getDelayedCalls() and not c._queue
    finally:
        irc.reactor = saved


def verdict(irc, kind, user, text, limit, rate=None):
    """None if every check passes; else (stage, details).  Also returns stats through details=None."""
    c, t = make_client(irc, rate)
    prefix = ("%s %s :" % (kind, user)).encode("utf-8")
    room = limit - len(prefix) - 2
    info = {"room": room}
    try:
        send(irc, c, t, kind, user, text, limit, rate, info)
    except ValueError as e:
        if room <= 0:
            info["refused"] = True
            return None, info
        return ("value-error-for-feasible-limit", {"exception": repr(e), "room": room}), info
    except Exception as e:
        return ("send-raises:" + type(e).__name__, {"exception": repr(e)[:300], "room": room}), info
    stream = b"".join(t.writes)
    info["writes"] = len(t.writes)
    if rate is not None and not info.get("queue_drained"):
        return ("rate-limit-queue-not-drained", {"writes": len(t.writes), "rate": rate}), info
    if room <= 0:
        return ("no-value-error-for-impossible-limit", {"room": room, "stream": stream[:300]}), info
    if stream and not stream.endswith(b"\r\n"):
        return ("stream-not-crlf-terminated", {"stream_tail": stream[-80:]}), info
    lines = stream.split(b"\r\n")[:-1] if stream else []
    info["lines"] = len(lines)
    parts = []
    over = []
    for n, line in enumerate(lines):
        if b"\r" in line or b"\n" in line:
            return ("cr-or-lf-inside-line", {"line_index": n, "line": line[:300]}), info
        if not line.startswith(prefix):
            return ("line-without-command-prefix", {"line_index": n, "line": line[:300], "prefix": prefix}), info
        try:
            parts.append(low_dequote(line[len(prefix):].decode("utf-8")))
        except UnicodeDecodeError as e:
            return ("line-not-utf8", {"line_index": n, "line": line[:300], "exception": repr(e)}), info
        if len(line) + 2 > limit:
            over.append((n, line))
    got, want = nows("".join(parts)), nows(text)
    info["compared"] = True
    if got != want:
        k = next((i for i in range(min(len(got), len(want))) if got[i] != want[i]), min(len(got), len(want)))
        return ("content-differs", {"first_difference_at_nonspace_char": k, "sent": got[max(0, k - 20):k + 20], "text": want[max(0, k - 20):k + 20],
                                    "sent_len": len(got), "text_len": len(want)}), info
    feasible = room >= max([wire_len(ch) for ch in text] or [1])
    info["feasible"] = feasible
    if over and feasible:
        n, line = over[0]
        return ("line-over-limit", {"line_index": n, "line": line[:700], "octets_with_crlf": len(line) + 2, "limit": limit,
                                    "characters_with_crlf": len(line.decode("utf-8")) + 2, "lines_over_limit": len(over), "lines": len(lines)}), info
    return None, info


def ascii_fold(text):
    return "".join(c if ord(c) < 128 else "x" for c in text)


def unquote_fold(text):
    return text.replace("\x00", "\x01").replace("\x10", "\x01")


def check_msg(ctx, irc, kind, user, text, limit, rate=None):
    ctx.evaluated()
    v, info = verdict(irc, kind, user, text, limit, rate)
    ctx.count("messages_sent")
    if rate is not None:
        ctx.count("rate_limited_messages")
        if info.get("lines", 0) >= 3:
            ctx.count("rate_limited_messages_of_3_or_more_lines")
        ctx.count("rate_limited_lines_sent_by_timer", max(0, info.get("writes", 0) - info.get("sent_immediately", 0)))
    ctx.count("lines_checked", info.get("lines", 0))
    if info.get("lines", 0) > 1:
        ctx.count("multi_line_messages")
    if info.get("compared"):
        ctx.count("content_comparisons")
    if info.get("feasible"):
        ctx.count("length_verdicts")
    elif "feasible" in info:
        ctx.count("room_smaller_than_one_character_not_judged")
    if info.get("refused"):
        ctx.count("value_error_no_room")
    nonascii = any(ord(c) > 127 for c in text)
    if nonascii:
        ctx.count("non_ascii_texts")
    if any(c in text for c in "\x00\x10"):
        ctx.count("texts_with_nul_or_dle")
    ctx.maxi("lines_per_message", info.get("lines", 0))
    if info.get("lines", 0) > 1 or nonascii or any(not 0x20 <= ord(c) < 0x7F for c in text):
        ctx.distinct((kind, user, text, limit, rate))
    if v is None:
        return
    stage, det = v
    keys = ["irc-" + stage]
    what = {"irc-" + stage: "IRCClient.%s: %s" % ("msg" if kind == "PRIVMSG" else "notice", stage)}
    if stage == "line-over-limit":
        a = nonascii and verdict(irc, kind, user, ascii_fold(text), limit, rate)[0] is None
        b = any(c in text for c in "\x00\x10") and verdict(irc, kind, user, unquote_fold(text), limit, rate)[0] is None
        ab = not a and not b and nonascii and verdict(irc, kind, user, unquote_fold(ascii_fold(text)), limit, rate)[0] is None
        ks = []
        if a or ab:
            ks.append("irc-limit-in-characters")
            what[ks[-1]] = "the length limit is applied to characters before UTF-8 encoding: lines with multi-byte characters exceed the limit in octets"
        if b or ab:
            ks.append("irc-lowquote-expands-after-split")
            what[ks[-1]] = "low-level quoting (NUL/DLE -> two characters) is applied after splitting: lines exceed the limit"
        if ks:
            keys = ks
            det["counterfactual"] = "passes with non-ASCII folded to 'x': %s; with NUL/DLE folded to SOH: %s; with both: %s" % (a, b, ab or (a and b))
    det.update({"kind": kind, "user": user, "text_codepoints": [ord(c) for c in text], "text": text[:300], "limit": limit, "stage": stage,
                "line_rate": rate})
    for k in keys:
        ctx.violation(k, what[k], det)


def check_quote(ctx, irc, s):
    ctx.evaluated()
    ctx.count("quote_roundtrips")
    if any(c in s for c in "\x00\x10\n\r\x01\\"):
        ctx.distinct(("quote", s))
    for name, q, d in (("ctcp", irc.ctcpQuote, irc.ctcpDequote), ("low", irc.lowQuote, irc.lowDequote)):
        try:
            quoted = q(s)
            back = d(quoted)
        except Exception as e:
            ctx.violation("irc-%s-quote-raises" % name, "%sQuote/%sDequote raises" % (name, name), {"quote": name, "text_codepoints": [ord(c) for c in s], "exception": repr(e)})
            continue
        if back != s:
            ctx.violation("irc-%s-quote-roundtrip" % name, "%sDequote(%sQuote(s)) != s" % (name, name),
                          {"quote": name, "text_codepoints": [ord(c) for c in s], "quoted": quoted, "dequoted": back})
        if name == "low":
            if any(c in quoted for c in "\x00\n\r"):
                ctx.count("lowquote_output_with_nul_cr_lf")
            if low_dequote(quoted) != s:  # the monitor's receiver model must agree with the real dequoter's contract
                ctx.violation("irc-low-quote-not-ctcp-spec", "lowQuote output is not what a CTCP-spec dequoter reads back",
                              {"quote": name, "text_codepoints": [ord(c) for c in s], "quoted": quoted, "spec_dequoted": low_dequote(quoted)})


USERS = ["#chan", "nick", "#a", "&local-channel", "someone_with_a_longer_nick", "#" + "c" * 49]
SPECIAL = "\x10\x00\n\r0nr\\\x01a"


def gen_limit(rng, prefix_len):
    mn = prefix_len + 2
    r = rng.random()
    if r < 0.05:
        return rng.choice((mn, mn - 1, mn - 5, 1))
    if r < 0.30:
        return mn + rng.randrange(1, 9)
    if r < 0.65:
        return mn + rng.randrange(4, 60)
    if r < 0.75:
        return 512
    return rng.randrange(mn + 1, 513) if mn + 1 < 513 else 512


def run(ctx):
    from twisted.words.protocols import irc

    k = 0
    for text in GRID_TEXTS:
        for room in range(1, 41):
            k += 1
            if ctx.owns(k):
                kind = ("PRIVMSG", "NOTICE")[k % 2]
                check_msg(ctx, irc, kind, "#chan", text, len("%s #chan :" % kind) + 2 + room, rate=(None, 1, 0.5)[k % 3])
                ctx.count("grid_cases")
    # quoting: all strings of length <= 3 over the special characters
    strs = [""] + [a for a in SPECIAL] + [a + b for a in SPECIAL for b in SPECIAL] + [a + b + c for a in SPECIAL for b in SPECIAL for c in SPECIAL]
    for n, s in enumerate(strs):
        if ctx.owns(n):
            check_quote(ctx, irc, s)
    for i in ctx.cases(30000, 1000000):
        rng = ctx.case_rng(i)
        kind = rng.choice(("PRIVMSG", "NOTICE"))
        user = rng.choice(USERS)
        text = gen_text(rng)
        limit = gen_limit(rng, len("%s %s :" % (kind, user)))
        check_msg(ctx, irc, kind, user, text, limit, rate=rng.choice((1, 2, 0.25)) if i % 5 == 0 else None)
        if i % 4 == 0:
            check_quote(ctx, irc, "".join(rng.choice(SPECIAL) if rng.random() < 0.6 else rng.choice(WORDCHARS + WIDE) for _ in range(rng.randrange(0, 30))))
        if i < 4 * ctx.nshards:
            c, t = make_client(irc)
            try:
                c.msg(user, text, limit)
            except Exception as e:
                t.writes.append(("raised " + repr(e)).encode())
            ctx.sample({"kind": kind, "user": user, "text": text[:200], "limit": limit, "written": [w[:120] for w in t.writes[:6]]})


def replay(ctx, w):
    from twisted.words.protocols import irc

    x = w["witness"]
    if "quote" in x:
        check_quote(ctx, irc, "".join(chr(c) for c in x["text_codepoints"]))
    else:
        check_msg(ctx, irc, x["kind"], x["user"], "".join(chr(c) for c in x["text_codepoints"]), x["limit"], rate=x.get("line_rate"))
