"""C05 inlineCallbacks and coroutines match synchronous execution, incl. cancellation.

A random program (tiny structured language: sequences, bounded loops, try/except/finally, awaits of
harness Deferreds X_k, yields of plain values, calls of nested functions, return - also inside
finally -, raise, break, "cancel the root Deferred now" inside nested functions) is compiled from
ONE AST to Python source three ways: generator functions for inlineCallbacks, `async def` functions for ensureDeferred, and plain synchronous functions in
which "await X_k" looks the outcome of X_k up.  Nested calls choose per call site how the callee is
run (inlineCallbacks Deferred, raw generator object, coroutine object, ensureDeferred(coroutine),
native await).

Monitor (API boundary): inside the function every value/exception observed at each await (notes),
control-flow points, handler entries; cancel() calls reaching each X_k (Deferred subclass
overriding the public cancel()); every firing of the returned Deferred.

Oracle: (1) what the function observed at dynamic await k equals the outcome X_k really had - the
value/failure the harness fired it with, or, if a cancellation reached it first, what its canceller
produced (CancelledError, a value, a failure); (2) the synchronous compilation replayed with those
outcomes yields exactly the same note trace and the same final value / uncaught exception; (3) the
returned Deferred fired exactly once; (4) cancel() of the returned Deferred while the function is
suspended at await k reached X_k and no other X; cancel() after completion reaches nothing;
(5) a cancel() of the root Deferred issued from inside a function body (nested function while the root
function is waiting on that nested function, or the root function itself while it is running) (re-entrant: the awaited function is running, nothing
un-fired is awaited) cancels no un-fired X, and the run still satisfies (1)-(3).

"Hot" harness Deferreds: X_k may carry a callback that first fires the Deferred the function is
waiting on (the function is resumed and may await X_k while X_k is running that callback) and then
returns another value / raises / returns a pending Deferred; X_k's outcome is what a callback added
at that moment would see, i.e. what the running callback produces - never its input.

Explicitly paused harness Deferreds: any X_k (plain, chained or hot) may be pause()d - when it is built
(e.g. fired and paused before the function starts) or by the scheduler, possibly while the function
already waits on it - with 0..2 callbacks queued behind (wrap the value / turn a failure into a value /
raise); the scheduler unpause()s it later or never within the run.  Its outcome is what the queued
callbacks produce from the source result and exists from the moment a pass-through marker callback
(attached last at build time) runs; the function must not observe anything of X_k before that
(checked at the observation itself); cancel() must still be called on X_k and has the effect the
Deferred rules give it in X_k's state (un-fired: canceller / CancelledError; waiting on an inner
Deferred: forwarded; fired: no-op) but delivers nothing while the pause lasts; a run whose function
still waits for a never-unpaused X_k must end un-fired with the synchronous replay stopping at
exactly that await.

returnValue(): a quarter of the programs leave generator-flavour functions through
`returnValue(v)` (deprecated, still supported) where the other flavours `return v`.

Cancelling the root Deferred from the root function's own body (it is running, resumed at least
once) is generated too: only "fires exactly once with the function's outcome", the usual trace
equality and "no un-fired X is cancelled" are asserted for it.

Exceptions that are BaseException but not Exception (a harness class, asyncio.CancelledError,
SystemExit, KeyboardInterrupt) are raised by program nodes and delivered as failing X outcomes in
all three compilations; like any uncaught exception they must become the failure of the returned
Deferred (never propagate out of the starting call, never unwind into the code that fired the
awaited Deferred).  GeneratorExit is not used.  A quarter of the
failing X_k hand their exception over in an instance of a harness SUBCLASS of Failure (errback(SubFailure(exc)) or a
callback returning it): the function must see the exception raised exactly as with a plain Failure.  All driving calls of the harness catch BaseException.

Guards: programs never return a Deferred, never use returnValue, never re-await a Deferred (each
dynamic await gets its own X_k), never yield a fired-and-consumed Deferred; a function that
swallows CancelledError and carries on is legitimate - the final outcome is then whatever the
synchronous replay produces; the re-entrant cancel node is skipped while the
root Deferred is not yet known (first synchronous segment) and is a plain note in the synchronous replay;
cancel() of an X that already has its outcome is a no-op and not judged; an X_k fired before it is awaited simply behaves as pre-fired.
"""
import hashlib
import sys

LEVEL = "exploration"
ENGINE = "core"
TECHNIQUE = "runtime monitoring: the same program compiled synchronously and replayed with the observed outcomes is the oracle"
RULE = ("random ASTs (<= 3 functions, <= 9 static awaits, loops <= 3 iterations, try/except/finally nesting <= 3) "
        "compiled three ways; 10 harness Deferreds per run, each pre-fired or fired later (value or failure; plain or "
        "chained to an inner Deferred, or 'hot': carrying a callback that resumes the waiting function and then changes "
        "the result / raises / returns a pending Deferred, or fired-and-paused with 0..2 callbacks queued behind the "
        "pause - paused at build time or by the scheduler while the function may already wait on it, also when chained or "
        "hot - and unpaused later or never; a quarter of the programs use returnValue() in generators; failures are Exception or BaseException-only classes; 4 canceller "
        "behaviours) in a scheduler-chosen order; raise nodes use the same 5 exception classes; 40% of the "
        "multi-function programs contain re-entrant cancel-the-root nodes in nested functions; per program and flavour "
        "(inlineCallbacks / ensureDeferred): one run without cancellation, one run per suspension point with cancel() "
        "injected there, one run per suspension point with a second cancel() at a later suspension point, and one "
        "cancel() after completion.  A case is distinct by (program source, plan, order, flavour, cancellation points); "
        "non-trivial = the function performed at least two dynamic awaits.")
ASSUMPTIONS = ["trusted base: CPython's own execution of the synchronous compilation of the same AST is the reference semantics",
               "the code generator emits the three flavours from one AST by substituting only the await form"]
SHARDS = {"quick": 4, "thorough": 16}
FLOORS = {"runs_compared_with_sync_replay": 5000, "await_observations_checked": 20000, "suspensions": 5000,
          "cancellations_injected_while_suspended": 2000, "second_cancellations": 300, "cancel_observed_as_cancellederror": 500,
          "cancel_observed_as_canceller_value": 100, "cancel_swallowed_then_continued": 100, "nested_calls": 1000,
          "cancel_reached_through_nested_function": 100, "returns_inside_finally": 50, "prefired_awaits": 1000,
          "failures_thrown_into_function": 1000, "cancel_after_completion_checks": 500,
          "awaits_of_deferred_running_its_callback_value": 500, "awaits_of_deferred_running_its_callback_raise": 500,
          "awaits_of_deferred_running_its_callback_defer": 500, "hot_callback_resumed_the_waiting_function": 2000,
          "reentrant_cancels_while_root_waiting": 2000,
          "reentrant_cancel_then_nested_function_finished_without_suspending": 500,
          "paused_deferreds_unpaused": 2000, "awaits_of_explicitly_paused_deferred": 1000, "awaits_of_paused_chained_or_hot_deferred": 300,
          "unpauses_of_chained_or_hot_deferreds": 500, "pauses_while_the_function_waits_on_the_deferred": 300,
          "runs_ending_suspended_on_never_unpaused_deferred": 200, "cancellations_while_awaiting_paused_deferred": 300,
          "baseexception_failures_fired_into_awaited_deferreds": 1000, "baseexception_observed_at_await": 500,
          "baseexception_final_outcomes": 300, "baseexception_raised_before_first_suspension": 50,
          "returnvalue_calls": 1000, "awaits_failing_with_failure_subclass": 1000, "reentrant_cancels_while_root_running": 500}
READY = True

M = 10
# narrow key of a defect found on the unchanged tree (findings/C05-<key>.md): `await d` inside a coroutine while d is
# running its own callback chain returns the INPUT of the callback in progress (Deferred.__await__ reads d.result)
AWAIT_RUNNING = "coroutine-await-of-running-deferred-sees-intermediate-result"
CMODES = ("default", "noop", "succ", "fail")
_T = {}


def _tw():
    if not _T:
        from twisted.internet import defer
        from twisted.python.failure import Failure

        class XD(defer.Deferred):
            cancel_calls = 0

            def cancel(self):
                self.cancel_calls += 1
                defer.Deferred.cancel(self)

        class SubFailure(Failure):
            """An application subclass of Failure (like pb.CopiedFailure): must be thrown into the function like any failure."""
            extra_context = "harness"

        _T.update(defer=defer, Failure=Failure, XD=XD, SubFailure=SubFailure)
    return _T


class Boom(Exception):
    def __init__(self, tag):
        Exception.__init__(self, tag)
        self.tag = tag


class ReplayDiverged(BaseException):
    pass


class HarnessBaseExc(BaseException):
    """A BaseException that is not an Exception (like asyncio.CancelledError, SystemExit, KeyboardInterrupt)."""

    def __init__(self, tag):
        BaseException.__init__(self, tag)
        self.tag = tag


EXC_KINDS = ("boom", "hbase", "acancel", "sysexit", "kbint")


def make_exc(kind, tag):
    """Exception object of the given class carrying `tag` (tags are unique per raise site / per X_k)."""
    if kind == "boom":
        return Boom(tag)
    if kind == "hbase":
        return HarnessBaseExc(tag)
    if kind == "acancel":
        import asyncio
        return asyncio.CancelledError(tag)
    if kind == "sysexit":
        return SystemExit(tag)
    return KeyboardInterrupt(tag)


# ---- program generation ---------------------------------------------------------------------------
class Gen:
    def __init__(self, rng):
        self.rng = rng
        self.site = 0
        self.awaits = 0
        self.size = 0
        self.nfuncs = rng.choice((1, 1, 2, 2, 3))
        # some programs let nested functions cancel the ROOT Deferred from inside their bodies
        self.reentrant = rng.random() < (0.4 if self.nfuncs > 1 else 0.2)
        self.use_returnvalue = rng.random() < 0.25     # generator flavour: returnValue(v) instead of `return v`

    def new_site(self):
        self.site += 1
        return self.site

    def block(self, fn, depth, loops, lo=1, hi=3):
        n = self.rng.randint(lo, hi)
        if self.size > 36:          # size budget: programs stay readable
            n = min(n, 1)
        return [self.stmt(fn, depth, loops, j == n - 1) for j in range(n)]

    def stmt(self, fn, depth, loops, last):
        # return/raise/break only end a block (no dead code)
        r = self.rng
        self.size += 1
        if self.size > 48:
            return ("pt", self.new_site())
        for _ in range(20):
            c = r.random()
            if depth == 0 and c < 0.36 and r.random() < 0.4:
                c = 0.6             # top level: prefer try blocks to bare awaits
            if self.reentrant and r.random() < (0.12 if fn > 0 else 0.05):
                return ("cancelroot", self.new_site())
            if c < 0.36:
                if self.awaits >= 9:
                    continue
                self.awaits += 1
                return ("await", self.new_site())
            if c < 0.40:
                return ("plain", self.new_site(), r.randint(0, 9))
            if c < 0.52:
                if fn + 1 >= self.nfuncs:
                    continue
                return ("call", self.new_site(), r.randint(fn + 1, self.nfuncs - 1), r.choice(("gen", "coro")), r.choice((0, 1)))
            if c < 0.72:
                if depth >= 3:
                    continue
                body = self.block(fn, depth + 1, loops)
                handler = None
                final = None
                k = r.random()
                if k < 0.75:
                    handler = (r.choice(("all", "all", "boom", "cancel", "base")), self.new_site(), self.block(fn, depth + 1, loops, 0, 2))
                if k > 0.45:
                    final = self.block(fn, depth + 1, loops, 1, 2)
                return ("try", body, handler, final)
            if c < 0.80:
                if depth >= 3 or loops >= 2:
                    continue
                return ("loop", r.randint(2, 3), self.block(fn, depth + 1, loops + 1))
            if c < 0.86:
                if not last:
                    continue
                return ("return", r.choice(("r", "r", 1, 2, 3)), self.use_returnvalue and r.random() < 0.7)
            if c < 0.93:
                if not last or depth == 0:
                    continue
                return ("raise", self.new_site(), r.choice(EXC_KINDS[1:]) if r.random() < 0.3 else "boom")
            if c < 0.96:
                if not loops or not last:
                    continue
                return ("break",)
            return ("pt", self.new_site())
        return ("pt", self.new_site())

    def program(self):
        return [self.block(fn, 0, 0, 3, 6) for fn in range(self.nfuncs)]


def has_return_in_finally(stmts, infinal=False):
    for s in stmts:
        if s[0] == "return" and infinal:
            return True
        if s[0] == "try":
            if has_return_in_finally(s[1], infinal) or (s[2] and has_return_in_finally(s[2][2], infinal)) or (s[3] and has_return_in_finally(s[3], True)):
                return True
        if s[0] == "loop" and has_return_in_finally(s[2], infinal):
            return True
    return False


# ---- code generation: one AST, three flavours -------------------------------------------------------
def emit(out, stmts, ind, fl, loopdepth=0):
    aw = {"gen": "yield ", "coro": "await ", "sync": ""}[fl]
    if not stmts:
        out.append(ind + "pass")
    for s in stmts:
        op = s[0]
        if op == "await":
            src = "H.S(k)" if fl == "sync" else aw + "H.X(k)"
            out += [ind + "k = H.A(%d, %r)" % (s[1], fl[0]), ind + "try:", ind + "    r = " + src,
                    ind + "except (GeneratorExit, H.Diverged):", ind + "    raise",
                    ind + "except BaseException as e:", ind + "    H.N(k, 'x', e)", ind + "    raise",
                    ind + "else:", ind + "    H.N(k, 'v', r)"]
        elif op == "plain":
            src = {"gen": "yield %d" % s[2], "coro": "await H.succeed(%d)" % s[2], "sync": "%d" % s[2]}[fl]
            out += [ind + "r = " + src, ind + "H.P(('plain', %d, r))" % s[1]]
        elif op == "call":
            _, site, fn, target, via = s
            if fl == "sync":
                src = "F%d_sync()" % fn
            elif fl == "gen":
                src = "yield " + {("gen", 0): "F%d_gend()", ("gen", 1): "F%d_gen()", ("coro", 0): "F%d_coro()",
                                  ("coro", 1): "H.ensureDeferred(F%d_coro())"}[(target, via)] % fn
            else:
                src = "await " + {("gen", 0): "F%d_gend()", ("gen", 1): "H.ensureDeferred(F%d_gen())", ("coro", 0): "F%d_coro()",
                                  ("coro", 1): "H.ensureDeferred(F%d_coro())"}[(target, via)] % fn
            out += [ind + "H.P(('call', %d))" % site, ind + "try:", ind + "    r = " + src,
                    ind + "except (GeneratorExit, H.Diverged):", ind + "    raise",
                    ind + "except BaseException as e:", ind + "    H.P(('callx', %d, H.tok(e)))" % site, ind + "    raise",
                    ind + "else:", ind + "    H.P(('callv', %d, r))" % site]
        elif op == "try":
            _, body, handler, final = s
            out.append(ind + "try:")
            emit(out, body, ind + "    ", fl, loopdepth)
            if handler:
                cls = {"all": "Exception", "boom": "H.Boom", "cancel": "H.CancelledError", "base": "H.BASES"}[handler[0]]
                out += [ind + "except %s as e:" % cls, ind + "    H.P(('handler', %d, H.tok(e)))" % handler[1]]
                if handler[2]:
                    emit(out, handler[2], ind + "    ", fl, loopdepth)
            if final is not None:
                out.append(ind + "finally:")
                emit(out, final, ind + "    ", fl, loopdepth)
        elif op == "loop":
            out.append(ind + "for i%d in range(%d):" % (loopdepth, s[1]))
            emit(out, s[2], ind + "    ", fl, loopdepth + 1)
        elif op == "return":
            val = "r" if s[1] == "r" else "('R', %d)" % s[1]
            if fl == "gen" and len(s) > 2 and s[2]:
                out += [ind + "H.rv_count()", ind + "H.returnValue(%s)" % val]     # called straight from the generator's frame
            else:
                out.append(ind + "return " + val)
        elif op == "raise":
            out.append(ind + "raise H.make_exc(%r, ('p', %d))" % (s[2], s[1]))
        elif op == "break":
            out.append(ind + "break")
        elif op == "pt":
            out.append(ind + "H.P(('pt', %d))" % s[1])
        elif op == "cancelroot":
            out.append(ind + "H.C(%d)" % s[1])


def compile_program(prog):
    out = []
    for fn in reversed(range(len(prog))):
        for fl in ("gen", "coro", "sync"):
            out.append(("async def F%d_%s():" if fl == "coro" else "def F%d_%s():") % (fn, fl))
            if fl == "gen":
                out.append("    if 0: yield None")
            out.append("    r = None")
            emit(out, prog[fn], "    ", fl)
            out.append("    return ('end', %d, r)" % fn)
        out.append("F%d_gend = H.inlineCallbacks(F%d_gen)" % (fn, fn))
    return "\n".join(out) + "\n"


# ---- the harness object the generated code talks to ---------------------------------------------------
class H:
    """One execution (async or synchronous replay) of a compiled program."""
    Boom = Boom
    Diverged = ReplayDiverged
    make_exc = staticmethod(make_exc)

    def __init__(self):
        import asyncio
        self.BASES = (HarnessBaseExc, asyncio.CancelledError, SystemExit, KeyboardInterrupt)
        tw = _tw()
        self.defer = tw["defer"]
        self.CancelledError = tw["defer"].CancelledError
        self.inlineCallbacks = tw["defer"].inlineCallbacks
        self.ensureDeferred = tw["defer"].ensureDeferred
        self.succeed = tw["defer"].succeed
        self.returnValue = tw["defer"].returnValue

    def reset(self, mode, plan, outcomes=None):
        self.mode = mode
        self.plan = plan
        self.next_k = 0
        self.notes = []
        self.cur = None
        self.calls_open = 0
        self.outcome = outcomes if outcomes is not None else [None] * M  # (ok, token, exception object)
        self.xs, self.ys = [], []
        self.aflav = {}               # dynamic await -> flavour of the awaiting function ('g'/'c'/'s')
        self.run = None               # the AsyncRun (async mode)
        self.root = None              # the Deferred returned by the root function
        self.awaited_in_relay = set() # X_k awaited while X_k was running its own callback
        self.reentrant_pending = False
        self.reentrant_problem = None
        self.diverged = None          # sync replay: index of the await whose outcome is unknown (replay stops there)

    def tok(self, e):
        if isinstance(e, Boom):
            return ("boom", e.tag)
        if isinstance(e, self.CancelledError):
            return "CANCELLED"
        if isinstance(e, self.BASES):
            return ("base", type(e).__name__, e.args[:1])
        return ("exc", type(e).__name__, str(e)[:80])

    # called by generated code
    def A(self, site, flavour):
        if self.diverged is not None:     # a `return`/`break` inside finally can swallow ReplayDiverged: keep stopping
            raise ReplayDiverged(self.diverged)
        k = self.next_k
        if k >= M:
            raise Boom(("overflow",))
        self.next_k += 1
        self.notes.append(("await", site, k))
        self.aflav[k] = flavour
        self.cur = k
        return k

    def X(self, k):
        run = self.run
        if run.in_relay == k:
            self.awaited_in_relay.add(k)
            run.ctx.count("awaits_of_deferred_running_its_callback_%s" % self.plan[k]["hot"])
        if self.outcome[k] is None:
            self.reentrant_pending = False      # about to suspend
        if run.paused_now[k] and self.outcome[k] is None:
            run.ctx.count("awaits_of_explicitly_paused_deferred")
            if self.plan[k]["chained"] or self.plan[k]["hot"]:
                run.ctx.count("awaits_of_paused_chained_or_hot_deferred")
        return self.xs[k]

    def C(self, site):
        """Program node: cancel the ROOT returned Deferred from inside a nested function's body.

        Performed only while the root function is waiting (its frame is not executing): that is the
        statement's domain.  The cancellation is forwarded down the chain of waiting functions to the
        one that is running right now, where nothing is awaited any more - so no un-fired X may be
        cancelled by it and the program carries on exactly as the synchronous replay (which only
        records the note)."""
        if self.diverged is not None:
            raise ReplayDiverged(self.diverged)
        self.notes.append(("cancelroot", site))
        run = self.run
        if self.mode != "async" or self.root is None or run.fired:
            return
        f = sys._getframe(1)
        running = False
        while f is not None:
            if f.f_code in self.root_codes:
                running = True        # the root function itself is executing (it has been resumed at least once,
                break                 # else self.root would not be known): its stale awaited Deferred has fired
            f = f.f_back
        run.ctx.count("reentrant_cancels_while_root_running" if running else "reentrant_cancels_while_root_waiting")
        before = run.cancel_counts()
        unset = [j for j in range(M) if self.outcome[j] is None]
        try:
            self.root.cancel()
        except BaseException as e:  # noqa
            self.reentrant_problem = ("reentrant-cancel-raised", "cancel() of the waiting root Deferred from inside a nested function raised", {"error": repr(e)[:300]})
            return
        after = run.cancel_counts()
        reached = [j for j in unset if after[j] != before[j]]
        if reached and self.reentrant_problem is None:
            self.reentrant_problem = ("reentrant-cancel-reached-unawaited-deferred", "a cancel() issued while the awaited nested function was running cancelled an X nobody awaits", {"reached": reached})
        self.reentrant_pending = True

    def rv_count(self):
        """Generator flavour only: the function is about to leave through the (deprecated, still supported) returnValue()."""
        self.run.ctx.count("returnvalue_calls")

    def S(self, k):
        o = self.outcome[k]
        if o is None:
            self.diverged = k
            raise ReplayDiverged(k)
        if o[0]:
            return o[1]
        raise (o[2] if o[2] is not None else self.CancelledError())

    def N(self, k, kind, r):
        if self.diverged is not None:
            raise ReplayDiverged(self.diverged)
        self.notes.append(("obs", k, kind, r if kind == "v" else self.tok(r)))
        if self.run is not None and self.run.paused_now[k] and self.run.resumed_while_paused is None:
            self.run.resumed_while_paused = k
        if self.cur == k:
            self.cur = None

    def P(self, note):
        if self.diverged is not None:
            raise ReplayDiverged(self.diverged)
        self.notes.append(note)
        if self.reentrant_pending and note[0] in ("callv", "callx"):
            self.reentrant_pending = False
            self.run.ctx.count("reentrant_cancel_then_nested_function_finished_without_suspending")

    def calls_open_at(self, k):
        """Is dynamic await k nested inside a call (from the note trace)?"""
        depth = 0
        for n in self.notes:
            if n[0] == "call":
                depth += 1
            elif n[0] in ("callv", "callx"):
                depth -= 1
            elif n[0] == "await" and n[2] == k:
                return depth > 0
        return False


def make_plan(rng):
    style = rng.random()
    okp = rng.choice((0.75, 0.95, 0.5))
    plan = []
    for k in range(M):
        plan.append({"pre": rng.random() < (0.15 if style < 0.5 else 0.5 if style < 0.8 else 0.0),
                     "ok": rng.random() < okp,
                     "cmode": rng.choice(CMODES) if rng.random() < 0.6 else "default",
                     "chained": rng.random() < 0.2, "hot": None, "steal": False, "paused": None,
                     "exc": rng.choice(EXC_KINDS[1:]) if rng.random() < 0.15 else "boom",
                     # a failing X_k may carry its exception in an instance of a Failure SUBCLASS, handed over by
                     # errback(SubFailure(exc)) or produced by a callback returning it
                     "subf": rng.choice(("errback", "callback")) if rng.random() < 0.25 else None})
    if rng.random() < 0.4:
        # "hot" X_k: carries a callback that first fires the Deferred the function is waiting on (so the
        # function is resumed, and may await X_k, while X_k is running that callback) and then returns a
        # different value / raises / returns a pending Deferred.  X_k's outcome is what that callback yields.
        for k in range(1, M):
            if rng.random() < 0.4:
                plan[k].update(hot=rng.choice(("value", "raise", "defer")), steal=rng.random() < 0.75, pre=False, chained=False)
    if rng.random() < 0.45:
        # explicitly pause()d X_k - any kind (plain, chained, hot): paused when built ("build", e.g. fired-and-
        # paused) or by the scheduler, possibly while the function already waits on it ("later"); 0..2 callbacks
        # queued behind; unpause()d by the scheduler or not at all within the run ("never": the function must
        # stay suspended on it)
        for k in range(M):
            if rng.random() < 0.3:
                plan[k]["paused"] = {"when": "build" if rng.random() < 0.65 else "later",
                                     "ops": [rng.choice(("wrap", "recover", "fail")) for _ in range(rng.randint(0, 2))],
                                     "unpause": "never" if rng.random() < 0.12 else "later"}
    for k in range(M):
        p = plan[k]
        acts = ([] if p["pre"] else ["src"]) + (["z"] if p["hot"] == "defer" else [])
        rng.shuffle(acts)
        if p["paused"]:
            lo = 0
            if p["paused"]["when"] == "later":
                lo = rng.randint(0, len(acts))
                acts.insert(lo, "pause")
                lo += 1
            if p["paused"]["unpause"] == "later":
                acts.insert(rng.randint(lo, len(acts)), "unpause")
        p["acts"] = acts
    spread = rng.choice((0.4, 0.4, 2.0, 10.0))
    toks = [k for k in range(M) for _ in plan[k]["acts"]]
    order = sorted(toks, key=lambda k: k + rng.uniform(-spread, spread))
    return plan, order


class AsyncRun:
    """Run flavour `fl` of the compiled program with plan/order, cancelling at the given suspension points.

    Model of harness Deferred X_k: a *source* stage produces a base result (plain: the harness fires it; chained:
    the inner Deferred y fires; hot: its callback runs and returns / raises / returns Z which fires), optionally
    held back by an explicit pause(); then 0..2 queued callbacks transform it; then a pass-through marker callback
    (added last at build time, so it runs right before anything the function attaches) records the moment X_k's
    outcome exists and stores the MODEL's expectation of it in h.outcome[k]."""

    def __init__(self, ctx, ns, h, fl, plan, order, cancel_at, info):
        self.ctx, self.ns, self.h, self.fl = ctx, ns, h, fl
        self.plan, self.order, self.cancel_at, self.info = plan, order, list(cancel_at), info
        self.fired = []
        self.bad = None
        self.suspensions = 0
        self.cancel_log = []
        self.in_relay = None              # k while hot X_k's callback is executing its "fire the awaited one" part
        self.paused_now = [False] * M     # explicit pause() outstanding
        self.x_called = [False] * M       # X_k itself has been fired (hot: its callback may still be held by a pause)
        self.relay_state = [None] * M     # hot: None / "ran" / "skipped" (X_k failed before its callback)
        self.base = [None] * M            # result of the source stage: (ok, token, exception object)
        self.acts = [list(p.get("acts", ())) for p in plan]
        self.cx, self.op_exc = {}, {}
        self.subf_fired = set()
        self.resumed_while_paused = None
        self.model_problem = None
        self.stuck = None                 # k if the run legitimately ends suspended on a never-unpaused X_k

    def violation(self, key, what, **extra):
        if self.bad:
            return
        self.bad = key
        w = dict(self.info)
        w.update({"flavour": self.fl, "cancel_at": self.cancel_at, "notes": list(self.h.notes), "returned_deferred_firings": list(self.fired),
                  "outcomes": [None if o is None else (o[0], o[1]) for o in self.h.outcome], "cancellations": list(self.cancel_log)})
        w.update(extra)
        self.ctx.violation(key, what, w)

    # ---- building the harness Deferreds -------------------------------------------------------
    def canceller(self, k):
        mode = self.plan[k]["cmode"]
        if mode == "default":
            return None
        if mode == "noop":
            return lambda d: None
        if mode == "succ":
            return lambda d: d.callback(("cv", k))
        self.cx[k] = Boom(("cx", k))
        return lambda d: d.errback(self.cx[k])

    def build_inputs(self):
        XD, h = _tw()["XD"], self.h
        for k in range(M):
            p = self.plan[k]
            if p["hot"]:
                x = XD()                                   # (no canceller: a cancelled hot X_k fails with CancelledError)
                y = XD(self.canceller(k)) if p["hot"] == "defer" else x
                x.addCallback(self.relay, k)
            elif p["chained"]:
                y = XD(self.canceller(k))
                x = XD()
                x.callback(None)
                self.x_called[k] = True
                x.addCallback(lambda _, y=y: y)
            else:
                x = y = XD(self.canceller(k))
                if p.get("subf") == "callback" and not p["ok"]:
                    x.addCallback(self.to_subfailure, k)
            if p["paused"]:
                if p["paused"]["when"] == "build":
                    x.pause()
                    self.paused_now[k] = True
                for j, op in enumerate(p["paused"]["ops"]):
                    if op == "wrap":
                        x.addCallback(lambda v, j=j: ("w", j, v))
                    elif op == "recover":
                        x.addErrback(lambda f, k=k: ("rec", k))
                    else:
                        self.op_exc[(k, j)] = Boom(("pf", k, j))
                        x.addCallback(lambda v, k=k, j=j: self.raise_(self.op_exc[(k, j)]))
            x.addBoth(self.marker, k)
            h.xs.append(x)
            h.ys.append(y)
            if p["pre"]:
                self.do_src(k)

    def raise_(self, e):
        raise e

    def expected(self, k):
        """Model: the queued callbacks applied to the base result."""
        ok, val, exc = self.base[k]
        p = self.plan[k]["paused"]
        for j, op in enumerate(p["ops"] if p else ()):
            if op == "wrap" and ok:
                val = ("w", j, val)
            elif op == "recover" and not ok:
                ok, val, exc = True, ("rec", k), None
            elif op == "fail" and ok:
                ok, exc = False, self.op_exc[(k, j)]
                val = self.h.tok(exc)
        return (ok, val, exc)

    def marker(self, r, k):
        """Last pre-attached callback of X_k: from here on X_k has its outcome."""
        h = self.h
        if self.base[k] is None:
            self.model_problem = self.model_problem or ("X%d delivered a result before the model's source stage completed" % k)
            return r
        h.outcome[k] = self.expected(k)
        got = ("x", h.tok(r.value)) if isinstance(r, _tw()["Failure"]) else ("v", r)
        want = ("v", h.outcome[k][1]) if h.outcome[k][0] else ("x", h.outcome[k][1])
        if got != want:
            self.model_problem = self.model_problem or ("X%d carries %r, model expected %r" % (k, got, want))
        return r

    def relay(self, v, k):
        """Callback carried by hot X_k."""
        h, ctx = self.h, self.ctx
        self.relay_state[k] = "ran"
        c = h.cur
        ctx.count("hot_callbacks_run")
        if not self.fired and self.started and c is not None and c != k and h.outcome[c] is None:
            ctx.count("hot_callback_resumed_the_waiting_function")
            self.in_relay = k
            try:
                self.act(c)
            finally:
                self.in_relay = None
        mode = self.plan[k]["hot"]
        if mode == "value":
            self.base[k] = (True, ("hot", k), None)
            return ("hot", k)
        if mode == "raise":
            e = Boom(("hotx", k))
            self.base[k] = (False, h.tok(e), e)
            raise e
        return h.ys[k]

    # ---- scheduler actions ------------------------------------------------------------------------
    def planned(self, k):
        p = self.plan[k]
        if p["ok"]:
            return (True, ("x", k), None)
        e = make_exc(p["exc"], ("x", k))
        if p["exc"] != "boom":
            self.ctx.count("baseexception_failures_fired_into_awaited_deferreds")
        return (False, self.h.tok(e), e)

    def to_subfailure(self, v, k):
        """Pre-attached callback of a plain failing X_k: turns the harness's firing into a SubFailure result."""
        if v == ("to-subfailure", k):
            return _tw()["SubFailure"](self.base[k][2])
        return v

    def fire_d(self, d, o, k=None):
        if o[0]:
            d.callback(o[1])
            return
        subf = self.plan[k].get("subf") if k is not None else None
        if subf:
            self.subf_fired.add(k)
            self.ctx.count("failure_subclass_failures_fired")
            if subf == "callback" and d is self.h.xs[k] and not self.plan[k]["hot"] and not self.plan[k]["chained"]:
                return d.callback(("to-subfailure", k))
            return d.errback(_tw()["SubFailure"](o[2]))
        d.errback(o[2])

    def do_src(self, k):
        h, p = self.h, self.plan[k]
        if p["hot"]:
            self.x_called[k] = True
            h.xs[k].callback(("raw", k))        # its callback runs now, or at unpause()
        else:
            self.base[k] = self.planned(k)
            self.x_called[k] = True
            self.fire_d(h.ys[k], self.base[k], k)

    def act(self, k, only=None):
        """Perform X_k's next scheduled action (skipping those a cancellation has made moot)."""
        h, p, acts = self.h, self.plan[k], self.acts[k]
        while acts:
            a = only if only in acts else acts[0]
            acts.remove(a)
            only = None
            if a == "src":
                if (p["hot"] or not p["chained"]) and self.x_called[k]:
                    continue                     # cancelled before it was fired
                if p["chained"] and self.base[k] is not None:
                    continue
                return self.do_src(k)
            if a == "z":
                if self.base[k] is not None or self.relay_state[k] == "skipped":
                    continue
                self.base[k] = self.planned(k)
                return self.fire_d(h.ys[k], self.base[k], k)
            if a == "pause":
                if h.outcome[k] is not None:
                    continue                     # already delivered: pausing it now concerns nobody
                if h.cur == k and not self.fired:
                    self.ctx.count("pauses_while_the_function_waits_on_the_deferred")
                self.paused_now[k] = True
                return h.xs[k].pause()
            if a == "unpause":
                if not self.paused_now[k]:
                    continue
                self.paused_now[k] = False
                self.ctx.count("paused_deferreds_unpaused")
                if p["chained"] or p["hot"]:
                    self.ctx.count("unpauses_of_chained_or_hot_deferreds")
                return h.xs[k].unpause()

    def cancel_counts(self):
        return [(x.cancel_calls, y.cancel_calls) for x, y in zip(self.h.xs, self.h.ys)]

    def cancel_model(self, k):
        """What cancel() reaching the awaited X_k does (model).  Returns (inner Deferred must be reached, base set by it)."""
        p, mode = self.plan[k], self.plan[k]["cmode"]
        by_mode = ((True, ("cv", k), None) if mode == "succ" else
                   (False, ("boom", ("cx", k)), self.cx.get(k)) if mode == "fail" else (False, "CANCELLED", None))
        if not self.x_called[k]:                               # X_k itself un-fired
            self.x_called[k] = True
            if p["hot"]:
                self.relay_state[k] = "skipped"                # fails with CancelledError before its callback
                self.base[k] = (False, "CANCELLED", None)
                return False, True
            self.base[k] = by_mode
            return True, True
        waiting_on_inner = (p["chained"] and self.base[k] is None) or \
                           (p["hot"] == "defer" and self.relay_state[k] == "ran" and self.base[k] is None)
        if waiting_on_inner:                                   # forwarded to the Deferred X_k waits on
            self.base[k] = by_mode
            return True, True
        return False, False                                    # X_k has fired: cancel() is a no-op

    def deliverable(self, k):
        return self.base[k] is not None and not self.paused_now[k] and (not self.plan[k]["hot"] or self.relay_state[k] is not None)

    def do_cancel(self, d, second):
        ctx, h = self.ctx, self.h
        k = h.cur
        before = self.cancel_counts()
        unset = [j for j in range(M) if h.outcome[j] is None]
        suspended = not self.fired
        if suspended:
            if k is None or h.outcome[k] is not None:
                return self.violation("harness-inconsistency", "function suspended but no X without outcome is being awaited", cur=k)
            was_paused = self.paused_now[k]
            inner, decided = self.cancel_model(k)
            if was_paused:
                ctx.count("cancellations_while_awaiting_paused_deferred")
            ctx.count("cancellations_injected_while_suspended")
            if second:
                ctx.count("second_cancellations")
            if h.calls_open_at(k):
                ctx.count("cancel_reached_through_nested_function")
        else:
            ctx.count("cancel_after_completion_checks")
        nnotes = len(h.notes)
        try:
            d.cancel()
        except BaseException as e:  # noqa
            return self.violation("cancel-raised", "cancel() of the returned Deferred raised", error=repr(e)[:300])
        after = self.cancel_counts()
        # cancel() of an X that already has its outcome is a no-op and not judged
        reached = [j for j in unset if after[j] != before[j]]
        self.cancel_log.append({"awaiting": k if suspended else None, "reached": reached})
        if not suspended:
            if reached:
                return self.violation("cancel-after-completion-reached-deferred", "cancel() after the function finished cancelled a Deferred", reached=reached)
            return
        if k not in reached or after[k][0] == before[k][0]:
            return self.violation("cancel-did-not-reach-awaited-deferred", "cancel() while suspended did not call cancel() on the awaited Deferred", awaiting=k, reached=reached)
        if reached != [k]:
            return self.violation("cancel-reached-other-deferred", "cancel() while suspended cancelled a Deferred that is not the awaited one", awaiting=k, reached=reached)
        if inner and after[k][1] == before[k][1]:
            return self.violation("cancel-did-not-reach-awaited-deferred", "cancel() did not get through to the Deferred the awaited one is chained to", awaiting=k)
        delivered = h.outcome[k] is not None
        if delivered != self.deliverable(k):
            return self.violation("harness-inconsistency", "X_k's outcome after cancel(): model and Deferred disagree", awaiting=k, model_deliverable=self.deliverable(k))
        resumed = len(h.notes) != nnotes
        if delivered:
            o = h.outcome[k]
            if decided:
                ctx.count("cancel_observed_as_cancellederror" if self.base[k][1] == "CANCELLED" else ("cancel_observed_as_canceller_value" if self.base[k][0] else "cancel_observed_as_canceller_failure"))
            if not resumed:
                return self.violation("function-not-resumed-by-cancellation", "the function did not observe the awaited Deferred's outcome after cancel()", awaiting=k)
            if not o[0] and any(n[0] == "await" for n in h.notes[nnotes:]):
                ctx.count("cancel_swallowed_then_continued")
        elif resumed and self.resumed_while_paused is None:
            return self.violation("function-resumed-without-outcome-of-awaited-deferred", "cancel() resumed the function although the awaited Deferred has no outcome yet", awaiting=k)

    def run(self):
        ctx, h = self.ctx, self.h
        h.reset("async", self.plan)
        h.run = self
        h.root_codes = (self.ns["F0_gen"].__code__, self.ns["F0_coro"].__code__)
        self.started = False
        self.build_inputs()
        self.started = True
        try:
            if self.fl == "gen":
                d = self.ns["F0_gend"]()
            else:
                d = h.ensureDeferred(self.ns["F0_coro"]())
        except BaseException as e:  # noqa
            return self.violation("start-raised", "starting the function raised instead of returning a Deferred", error=repr(e)[:300])
        d.addBoth(self.fired.append)
        h.root = d
        cancels = list(self.cancel_at)
        step = 0
        for k in self.order + [None]:
            if self.fired or self.bad:
                break
            if k is None:
                break
            self.suspensions += 1
            ncancel = 0
            while cancels and cancels[0] == step and not self.bad and not self.fired:
                cancels.pop(0)
                self.do_cancel(d, ncancel > 0 or len(self.cancel_at) - len(cancels) > 1)
                ncancel += 1
            step += 1
            if self.fired or self.bad:
                break
            if h.outcome[k] is None:
                c, only = h.cur, None
                if k == c and c + 1 < M and self.plan[c + 1]["steal"] and "src" in self.acts[c + 1] and not self.x_called[c + 1]:
                    k, only = c + 1, "src"       # let hot X_{c+1}'s callback fire the awaited X_c
                try:
                    self.act(k, only)
                    if only and h.outcome[c] is None and h.cur == c and not self.fired:
                        self.act(c)          # the hot callback was held back (paused): this step still fires X_c itself
                except BaseException as e:  # noqa
                    return self.violation("exception-leaked-to-firer-of-awaited-deferred", "firing / unpausing an awaited Deferred raised", k=k, error=repr(e)[:200])
            if len(self.fired) > 1:
                break
        if self.bad:
            return
        if cancels and cancels[0] >= step and self.fired:      # cancellation after completion
            self.do_cancel(d, False)
        if self.bad:
            return
        if self.model_problem:
            return self.violation("harness-inconsistency", "harness model of an X disagrees with the Deferred", problem=self.model_problem)
        if h.reentrant_problem:
            key, what, extra = h.reentrant_problem
            return self.violation(key, what, **extra)
        if self.resumed_while_paused is not None:
            return self.violation("function-resumed-while-awaited-deferred-paused", "the function observed an outcome of a paused Deferred before unpause()",
                                  await_index=self.resumed_while_paused)
        if not self.fired:
            c = h.cur
            if c is not None and self.paused_now[c] and h.outcome[c] is None:
                self.stuck = c             # legitimately still waiting for a never-unpaused X
                ctx.count("runs_ending_suspended_on_never_unpaused_deferred")
                ctx.count("suspensions", self.suspensions)
                return
            return self.violation("returned-deferred-never-fired", "every X has fired but the returned Deferred has not")
        if len(self.fired) != 1:
            return self.violation("returned-deferred-fired-more-than-once", "callbacks of the returned Deferred ran more than once")
        ctx.count("suspensions", self.suspensions)

    def drain(self):
        """Let a still suspended function run to its end (no judgement): avoids GeneratorExit noise at collection."""
        for _ in range(4):
            for k in range(M):
                try:
                    if self.h.outcome[k] is None and not self.fired:
                        if self.acts[k]:
                            self.act(k)
                        elif self.paused_now[k]:
                            self.paused_now[k] = False
                            self.h.xs[k].unpause()
                except BaseException:  # noqa
                    pass

    def final(self):
        if self.stuck is not None:
            return ("suspended-on", self.stuck)
        r = self.fired[0]
        if isinstance(r, _tw()["Failure"]):
            return ("raised", self.h.tok(r.value))
        return ("returned", r)


def sync_replay(ns, h, plan, outcomes):
    h.reset("sync", plan, outcomes)
    try:
        v = ns["F0_sync"]()
        r = ("returned", v)
    except ReplayDiverged as e:
        r = ("diverged", e.args[0])
    except BaseException as e:  # noqa
        r = ("raised", h.tok(e))
    return ("diverged", h.diverged) if h.diverged is not None else r


def check_run(ctx, ns, h, fl, plan, order, cancel_at, info):
    """One async run + its synchronous replay.  Returns the AsyncRun (for .suspensions)."""
    a = AsyncRun(ctx, ns, h, fl, plan, order, cancel_at, info)
    a.run()
    ctx.evaluated()
    notes = list(h.notes)
    outcomes = list(h.outcome)
    nawaits = h.next_k
    if not a.fired:
        a.drain()
        h.notes, h.outcome = list(notes), list(outcomes)
    for d in h.xs + h.ys:            # failures nobody awaited are not "unhandled errors"
        d.addErrback(lambda f: None)
    if a.bad:
        return a
    final = a.final()
    # (1) outcome consistency per await
    for n in notes:
        if n[0] != "obs":
            continue
        ctx.count("await_observations_checked")
        o = outcomes[n[1]]
        if plan[n[1]]["pre"]:
            ctx.count("prefired_awaits")
        if n[2] == "x":
            ctx.count("failures_thrown_into_function")
            if n[3][0] == "base":
                ctx.count("baseexception_observed_at_await")
            if n[1] in a.subf_fired:
                ctx.count("awaits_failing_with_failure_subclass")
        want = None if o is None else (("v", o[1]) if o[0] else ("x", o[1]))
        if want != (n[2], n[3]):
            key = "await-observed-wrong-outcome"
            if n[2] == "v" and n[3] is None and want and want[0] == "v":
                key = "await-observed-none-instead-of-result"
            elif want and want[0] == "x" and n[2] == "x":
                key = "await-observed-different-exception"
            if n[2] == "v" and isinstance(n[3], _tw()["Failure"]):
                key = "failure-object-delivered-as-value-instead-of-raised"
            if n[1] in h.awaited_in_relay and (n[2], n[3]) == ("v", ("raw", n[1])):
                # X_k was awaited while running its own callback and the function got that callback's INPUT
                key = AWAIT_RUNNING if h.aflav.get(n[1]) == "c" else "yield-of-running-deferred-sees-intermediate-result"
            a.violation(key, "the function observed something else than the awaited Deferred's outcome", await_index=n[1], expected=want, observed=(n[2], n[3]))
            return a
    # (2) synchronous replay
    sfinal = sync_replay(ns, h, plan, outcomes)
    if sfinal[0] == "diverged":       # the replay stops where an outcome is unknown; legitimate only where the async run still waits
        sfinal = ("suspended-on", sfinal[1])
    snotes = h.notes
    ctx.count("runs_compared_with_sync_replay")
    if snotes != notes:
        i = 0
        while i < len(notes) and i < len(snotes) and notes[i] == snotes[i]:
            i += 1
        a.h.notes = notes
        a.violation("trace-differs-from-synchronous-execution", "the note trace differs from the synchronous execution of the same program",
                    first_difference={"index": i, "async": notes[i] if i < len(notes) else None, "sync": snotes[i] if i < len(snotes) else None},
                    sync_notes=list(snotes), sync_final=sfinal, async_final=final)
        return a
    if sfinal != final:
        a.h.notes = notes
        a.violation("final-outcome-differs-from-synchronous-execution", "the returned Deferred's result differs from the synchronous execution",
                    sync_final=sfinal, async_final=final)
        return a
    if nawaits >= 2:
        if ctx.n_distinct < 40000:      # per shard: keeps the merged hash set small
            ctx.distinct((info["source_hash"], info["plan_hash"], fl, tuple(cancel_at)))
        else:
            ctx.count("distinct_cases_beyond_hash_cap")
    ctx.count("nested_calls", sum(1 for n in notes if n[0] == "call"))
    if final[0] == "raised" and final[1][0] == "base":
        ctx.count("baseexception_final_outcomes")
        if a.suspensions == 0:
            ctx.count("baseexception_raised_before_first_suspension")
    return a


def run_program(ctx, i, rng):
    g = Gen(rng)
    prog = g.program()
    src = compile_program(prog)
    h = H()
    ns = {"H": h}
    exec(compile(src, "<c05-program-%d>" % i, "exec"), ns)
    plan, order = make_plan(rng)
    info = {"program_index": i, "source": src, "plan": plan, "order": order,
            "source_hash": hashlib.blake2b(src.encode(), digest_size=8).hexdigest(),
            "plan_hash": hashlib.blake2b(repr((plan, order)).encode(), digest_size=8).hexdigest()}
    if has_return_in_finally([s for f in prog for s in f]):
        ctx.count("returns_inside_finally")
    ctx.count("programs")
    for fl in ("gen", "coro"):
        base = check_run(ctx, ns, h, fl, plan, order, [], info)
        if base.bad and base.bad != AWAIT_RUNNING:   # (classified defect of Deferred.__await__: the other runs still count)
            return
        if fl == "gen" and len(src) < 5000 and h.next_k >= 2:
            ctx.sample({"source": src, "plan": plan, "order": order, "notes": list(h.notes), "final": base.final()}, limit=2)
        S = base.suspensions
        ctx.maxi("suspension_points", S)
        for p in range(S):
            one = check_run(ctx, ns, h, fl, plan, order, [p], info)
            if one.bad == AWAIT_RUNNING:
                continue
            if one.bad:
                return
            if one.suspensions > p + 1:
                q = rng.randint(p + 1, one.suspensions - 1) if rng.random() < 0.8 else p
                two = check_run(ctx, ns, h, fl, plan, order, [p, q], info)
                if two.bad and two.bad != AWAIT_RUNNING:
                    return
        late = check_run(ctx, ns, h, fl, plan, order, [M + 1], info)
        if late.bad and late.bad != AWAIT_RUNNING:
            return


def run(ctx):
    import warnings
    with warnings.catch_warnings():
        warnings.simplefilter("ignore", DeprecationWarning)     # returnValue() is deprecated; it is still part of the API
        for i in ctx.cases(3000, 100000):
            run_program(ctx, i, ctx.case_rng("prog", i))


def replay(ctx, w):
    x = w["witness"]
    h = H()
    ns = {"H": h}
    exec(compile(x["source"], "<c05-replay>", "exec"), ns)
    info = {k: x.get(k) for k in ("program_index", "source", "plan", "order", "source_hash", "plan_hash")}
    check_run(ctx, ns, h, x["flavour"], x["plan"], x["order"], x["cancel_at"], info)
