"""C09 task.Clock runs scheduled calls exactly once in time order.

Monitored object: twisted.internet.task.Clock.  Same history generator and reference timer set as
C08 (vf/engines/timermodel.py), adapted to Clock's run-within-advance semantics:
  * advance(t) runs, in one go, everything whose scheduled time <= the new now, including calls
    created or rescheduled during the advance (end-of-advance check: nothing due stays pending);
  * a call runs exactly once iff not cancelled first, only inside advance(), never before its
    currently scheduled time (getTime() semantics, exact 1/16 s ticks);
  * when X runs no other pending call is scheduled strictly earlier (min-property; ties unordered);
  * two calls created by callLater for the same time, neither ever rescheduled, run in creation order
    (decided when the second one has run, so "never rescheduled" covers its whole life);
  * getDelayedCalls() == model's pending set (order ignored), getTime() == model time, after every
    operation; cancel/reset/delay raise AlreadyCalled/AlreadyCancelled exactly as the model says.
False-alarm guards: literal "nondecreasing scheduled time" is only asserted for calls that no
negative delay() moved before the last run time (a negative delay legitimately schedules into the
past).  Calls may raise: Clock.advance() propagates the exception (documented test-double behaviour)
and thereby ends that advance early; what it leaves behind is not required to have run in it (the
statement is silent; unjudged), but every other clause keeps applying: exactly once, never early,
min-property and creation order when it does run, getDelayedCalls(), and nothing due survives the next
advance that is not aborted.
"""
from vf.engines import explore, timermodel as tm

LEVEL = "exploration"
ENGINE = "E1-explore"
TECHNIQUE = "runtime monitoring: reference timer-set model (exact rational times), min-property / creation-order / once checks"
RULE = ("random histories (families generic / in-call bodies / large bursts, with schedule-and-cancel pairs) of up to ~260 operations over <= 60 (burst: 90) "
        "calls with dyadic times on task.Clock; plus exhaustive histories (quick depth 4, thorough depth 5) over 3 calls, "
        "delays {0,1,2}, advances {0,1,2} with in-call bodies.  Distinct = history; non-trivial = at least one call ran and "
        "at least one cancel/reset/delay took effect or a call was scheduled from inside a call.  Calls raise in a share "
        "of the histories (Clock.advance then ends early); the raising body joins the exhaustive enumeration in thorough only.")
ASSUMPTIONS = ["trusted base: the reference timer set in vf/engines/timermodel.py",
               "all times are multiples of 1/16 s so the implementation's float arithmetic is exact"]
SHARDS = {"quick": 4, "thorough": 16}
FLOORS = {"run_checks": 2000, "pending_checks": 10000, "end_of_step_checks": 2000, "eff_cancel": 500, "eff_reset": 200,
          "eff_delay": 200, "eff_negative_delay": 50, "op_call_in": 200, "refused_AlreadyCalled": 50,
          "refused_AlreadyCancelled": 50, "ties_at_run": 100, "creation_order_ties": 100, "monotonic_checks": 2000,
          "exempt_past_runs": 10, "runs_created_in_same_advance": 50, "explore_states": 500,
          "raised_calls": 500, "advances_aborted_by_raising_call": 500}
READY = True


class Run(tm.TimerRun):
    def on_run(self, rec):
        tm.TimerRun.on_run(self, rec)
        if rec.born_run == self.run_id:
            self.stat("runs_created_in_same_advance")


def run_history(ctx, history, max_calls):
    from twisted.internet.task import Clock

    run = Run(ctx, tm.ClockTarget(Clock()), max_calls)
    run.run(history)
    run.flush()
    ctx.evaluated()
    if run.nontrivial():
        ctx.distinct(repr(history))
    return run


BODIES = [[], [["cancel", ["a", 1]]], [["reset", ["a", 0], 0]], [["delay", ["a", 2], -2 * tm.U]], [["call", 0, []]],
          [["call", tm.U, []]], [["reset", "self", tm.U]], [["raise"]]]


class World:
    def __init__(self, ctx):
        from twisted.internet.task import Clock

        self.t = tm.ClockTarget(Clock())
        self.run = Run(ctx, self.t, 3, history=[])
        self.nbodies = len(BODIES) - (1 if ctx.quick else 0)  # the raising body is enumerated in the thorough tier only

    def actions(self):
        n = len(self.run.recs)
        acts = [("adv", a) for a in (0, 1, 2)]
        if n < 3:
            acts += [("call", d, b) for d in (0, 1, 2) for b in range(self.nbodies)]
        for i in range(n):
            acts.append(("cancel", i))
            acts += [("reset", i, d) for d in (0, 2)]
            acts += [("delay", i, d) for d in (1, -1)]
        return acts

    def apply(self, a):
        if a[0] == "call":
            op = ["call", a[1] * tm.U, BODIES[a[2]]]
        elif a[0] == "adv":
            op = ["adv", a[1] * tm.U, False]
        elif a[0] == "cancel":
            op = ["cancel", ["a", a[1]]]
        else:
            op = [a[0], ["a", a[1]], a[2] * tm.U]
        self.run.history.append(op)
        self.run.exec_op(op)

    def state(self):
        ids = {id(r.dc): r.cid for r in self.run.recs}
        s = self.t.struct()
        if s is not None:
            s = tuple((ids.get(e[0]),) + e[1:] for e in s)
        return (self.run.model_state(), s, self.run.last_run_sched, tuple(sorted(self.run.unresched_run_max.items())),
                tuple(r.exempt for r in self.run.recs), self.run.bad)


def explore_short(ctx):
    def on_node(w, hist):
        ctx.evaluated()
        w.run.flush()
        if w.run.nontrivial():
            if ctx.n_distinct < 30000:  # bound shard-report size; the rest is only counted
                ctx.distinct(("exh", repr(w.run.history)))
            else:
                ctx.count("exhaustive_nontrivial_not_hashed")

    explore.dfs(ctx, lambda: World(ctx), 4 if ctx.quick else 5, shard_depth=2, on_node=on_node, prune=ctx.quick)


def run(ctx):
    explore_short(ctx)
    for i in ctx.cases(5000, 500000):
        rng = ctx.case_rng("hist", i)
        history, max_calls = tm.gen_history(rng, allow_timeout=False)
        r = run_history(ctx, history, max_calls)
        if i < 2 * ctx.nshards:
            ctx.sample({"history_len": len(history), "history_head": history[:12], "events_head": r.events[:25], "stats": r.stats})


def replay(ctx, w):
    x = w["witness"]
    run_history(ctx, x["history"], x.get("max_calls", 60))
