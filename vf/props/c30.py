"""C30 AMP wire format and argument types round-trip.

(a) Boxes.  Random sequences of boxes (keys 1..255 bytes, values 0..65535 bytes, all byte values) are
serialized with AmpBox.serialize / BinaryBoxProtocol.sendBox and fed to a fresh BinaryBoxProtocol
with every split (short streams) or random splits; the boxes handed to IBoxReceiver.ampBoxReceived
must equal the sent ones.  Unrepresentable boxes (empty key, key > 255, value > 65535, str key or
value, non-bytes key or value) must raise from serialize()/sendBox() with nothing written; stream
integrity is checked by receiving the surrounding valid boxes.
(b) Argument types.  Integer, String, Unicode, Float, Boolean, Decimal, DateTime, ListOf (nested),
AmpList, Path: fromString(toString(v)) and a full callRemote echo between two AMP peers over the
in-memory network must give a value equal to v.

Guards: Float NaN compared with isnan (the wire format is repr), other floats bit for bit (-0.0, inf,
subnormals); Decimal by as_tuple() (NaN/sNaN/signs/exponents); DateTime by its naive fields plus
utcoffset, exact for whole-minute offsets and within one minute otherwise (the wire format has a
5-character offset field); Integer limited to 4000 digits (CPython refuses int<->str above 4300);
Unicode excludes lone surrogates (not encodable as UTF-8); Path compared mode-normalised (a
bytes-mode FilePath decodes as a text-mode one).
"""
import datetime
import decimal
import math
import struct

from vf.engines.netsim import Link, random_split

LEVEL = "exploration"
ENGINE = "E2-netsim"
TECHNIQUE = "runtime monitoring: encode/decode round trip through the real parser under every/random segmentation; refusal + stream-integrity check"
RULE = ("(a) random box sequences (1..4 boxes, 0..6 pairs, key lengths 1/2/254/255/random, value lengths "
        "0/1/255/256/65534/65535/random, all byte values) x every 1-cut split <= 600 bytes, every 2-cut split "
        "<= 30 bytes, for longer wires cuts inside/around every length prefix plus random splits; unrepresentable boxes of 12 kinds between two valid boxes.  "
        "(b) random values per argument type incl. NaN/inf/-0.0, 4000-digit integers, Decimal specials, all "
        "Unicode planes, nested/empty lists, sub-minute UTC offsets; toString/fromString and callRemote echo.  "
        "Distinct by (wire bytes) for boxes and (type, encoded value) for arguments; empty boxes/None are trivial.")
ASSUMPTIONS = ["an empty box (no pairs) is representable on the wire (two NUL bytes) and is included in the round trip at the BinaryBoxProtocol level",
               "bytes-like non-bytes values (bytearray/memoryview) are not treated as unrepresentable"]
SHARDS = {"quick": 4, "thorough": 16}
FLOORS = {"box_streams": 500, "box_split_runs": 20000, "boxes_compared": 20000, "refusal_cases": 300, "refusals_raised": 250,
          "integrity_boxes_after_refusal": 300, "arg_roundtrips": 5000, "callremote_roundtrips": 200,
          "float_specials": 50, "datetime_subminute": 20, "listof_nested": 50, "max_len_keys": 20, "max_len_values": 5, "overlong_key_rx_cases": 100, "long_wire_prefix_cut_runs": 3000}
READY = True


# ------------------------------------------------------------------------------------------------
# (a) boxes
class Recorder:
    def __init__(self):
        self.boxes = []
        self.stopped = []

    def startReceivingBoxes(self, sender):
        pass

    def ampBoxReceived(self, box):
        self.boxes.append((type(box).__name__, dict(box)))

    def stopReceivingBoxes(self, reason):
        self.stopped.append(reason)


class WT:
    """Write-recording transport for the sending side."""
    disconnecting = False

    def __init__(self):
        self.chunks = []
        self.closed = False

    def write(self, data):
        self.chunks.append(bytes(data))

    def loseConnection(self):
        self.closed = True
        self.disconnecting = True

    def getPeer(self):
        return "peer"

    def getHost(self):
        return "host"


def rand_bytes(rng, n):
    r = rng.random()
    if r < 0.5:
        return bytes(rng.getrandbits(8) for _ in range(n)) if n < 2000 else rng.getrandbits(8 * n).to_bytes(n, "big")
    if r < 0.75:
        return bytes(rng.choice(b"\x00\x01\xff_ask") for _ in range(n)) if n < 2000 else b"\x00" * n
    return bytes(rng.choice(b"abc") for _ in range(n)) if n < 2000 else b"a" * n


def gen_box(rng, big_ok=True):
    n = rng.choice([0, 1, 1, 2, 2, 3, 4, 6]) if rng.random() < 0.97 else 0
    box = {}
    for _ in range(n):
        kl = rng.choice([1, 1, 1, 2, 2, 3, 5, 254, 255]) if rng.random() < 0.6 else rng.randint(1, 12)
        r = rng.random()
        if r < 0.04 and big_ok:
            vl = rng.choice([65535, 65534, 65535, 40000])
        elif r < 0.5:
            vl = rng.choice([0, 0, 0, 1, 1, 2, 3, 255, 256])
        else:
            vl = rng.randint(0, 16)
        box[rand_bytes(rng, kl)] = rand_bytes(rng, vl)
    return box


def receive(amp, pieces):
    """Feed pieces to a fresh BinaryBoxProtocol.  -> (boxes, closed, error)"""
    rec = Recorder()
    p = amp.BinaryBoxProtocol(rec)
    t = WT()
    p.makeConnection(t)
    err = None
    for piece in pieces:
        if t.closed:
            break
        try:
            p.dataReceived(piece)
        except Exception as e:
            err = "%s: %s" % (type(e).__name__, e)
            break
    return rec.boxes, t.closed, err


def cuts_for(rng, wire, quick):
    n = len(wire)
    seen = set()
    if n <= 600:
        for p in range(1, n):
            seen.add((p,))
            yield (p,)
    if n <= (26 if quick else 30):
        for a in range(1, n):
            for b in range(a + 1, n):
                yield (a, b)
    if n > 600:
        # long wires (keys of 255 / values of 65535 bytes): cut inside and right around every length prefix
        offs, i = [], 0
        while i + 2 <= n and len(offs) < 90:
            L = (wire[i] << 8) | wire[i + 1]
            offs += [i, i + 1, i + 2, i + 3]
            i += 2 + L
            offs.append(i - 1)
        offs = sorted(set(o for o in offs if 0 < o < n))
        for o in offs:
            if (o,) not in seen:
                seen.add((o,))
                yield (o,)
        pairs = [(a, b) for k, a in enumerate(offs) for b in offs[k + 1:k + 4]]
        for c in (pairs if len(pairs) <= 60 else rng.sample(pairs, 60)):
            if c not in seen:
                seen.add(c)
                yield c
    for _ in range(4 if n < 3000 else 2):
        if n >= 3000:
            c = tuple(sorted(set(rng.randrange(1, n) for _ in range(rng.randint(1, 8)))))
        else:
            pos, acc = [], 0
            for pc in random_split(rng, wire, 24)[:-1]:
                acc += len(pc)
                pos.append(acc)
            c = tuple(pos)
        if c and c not in seen:
            seen.add(c)
            yield c


def pieces_of(wire, cuts):
    prev, out = 0, []
    for c in cuts:
        out.append(wire[prev:c])
        prev = c
    out.append(wire[prev:])
    return out


def ser(ctx, amp, box, case):
    """Serialize a box that is representable by construction; a refusal is a violation, not a harness error."""
    try:
        return amp.AmpBox(box).serialize()
    except Exception as e:
        ctx.violation("valid-box-refused", "serialize()/sendBox() raised %s for a box with keys of 1..255 and values of 0..65535 bytes" % type(e).__name__,
                      {"case": case, "box_key_lengths": sorted(len(x) for x in box), "box_value_lengths": sorted(len(x) for x in box.values()), "error": "%s: %s" % (type(e).__name__, e)})
        return None


def check_box_stream(ctx, amp, rng, boxes, only_cuts=None, case=None):
    sender = amp.BinaryBoxProtocol(Recorder())
    st = WT()
    sender.makeConnection(st)
    for k, b in enumerate(boxes):
        ab = amp.AmpBox(b)
        try:
            if k % 2:
                sender.sendBox(ab)
            else:
                st.write(ab.serialize())
        except Exception as e:
            ctx.violation("valid-box-refused", "serialize()/sendBox() raised %s for a box with keys of 1..255 and values of 0..65535 bytes" % type(e).__name__,
                          {"case": case, "box_key_lengths": sorted(len(x) for x in b), "box_value_lengths": sorted(len(x) for x in b.values()), "error": "%s: %s" % (type(e).__name__, e)})
            return b"", 0
    wire = b"".join(st.chunks)
    expected = [("AmpBox", dict(b)) for b in boxes]
    ctx.count("box_streams")
    ctx.evaluated()
    if any(boxes):
        ctx.distinct(wire)
    for b in boxes:
        for k, v in b.items():
            if len(k) == 255:
                ctx.count("max_len_keys")
            if len(v) == 65535:
                ctx.count("max_len_values")
    cut_list = [()] + (list(cuts_for(rng, wire, ctx.quick)) if only_cuts is None else [tuple(only_cuts)])
    for cuts in cut_list:
        got, closed, err = receive(amp, pieces_of(wire, cuts))
        ctx.count("box_split_runs")
        if len(wire) > 600 and cuts:
            ctx.count("long_wire_prefix_cut_runs")
        ctx.count("boxes_compared", len(expected))
        if err or closed or got != expected:
            key = "box-receiver-raises" if err else "box-receiver-closes-on-valid-stream" if closed else "box-roundtrip-mismatch"
            ctx.violation(key, "boxes received differ from the boxes serialized" + (" (%s)" % err if err else ""),
                          {"case": case, "boxes": boxes, "wire_hex": wire.hex() if len(wire) < 5000 else None, "wire_len": len(wire), "cuts": list(cuts),
                           "received": got if len(wire) < 5000 else "%d boxes" % len(got), "closed": closed, "error": err})
    ctx.evaluated(len(cut_list) - 1)
    return wire, len(cut_list)


def check_overlong_key_rx(ctx, amp, rng, case=None):
    """Receiver side of 'cannot be represented': a wire key of 256..65535 bytes must never come out
    of the parser inside a box (documented format: key length 1-255); the connection is dropped."""
    import struct as _s
    first = gen_box(rng, big_ok=False) or {b"a": b"b"}
    pairs = list((gen_box(rng, big_ok=False) or {b"c": b"d"}).items())
    pos = rng.randrange(len(pairs) + 1)
    klen = rng.choice([256, 257, 300, 1000, 65535])
    pairs.insert(pos, (rand_bytes(rng, klen), b"v"))
    wire = ser(ctx, amp, first, case)
    if wire is None:
        return
    for k, v in pairs:
        wire += _s.pack("!H", len(k)) + k + _s.pack("!H", len(v)) + v
    wire += b"\x00\x00" + amp.AmpBox({b"after": b"1"}).serialize()
    got, closed, err = receive(amp, random_split(rng, wire, 64) if rng.random() < 0.6 else [wire])
    ctx.count("overlong_key_rx_cases")
    ctx.evaluated()
    ctx.distinct(("rx-long-key", pos, klen, len(wire)))
    bad = [b for _t, b in got if any(len(k) > 255 for k in b)]
    if bad or not closed or err or got[:1] != [("AmpBox", first)] or len(got) > 1:
        ctx.violation("receiver-delivers-unrepresentable-key" if bad else "receiver-overlong-key-not-refused",
                      "a wire key longer than 255 bytes was parsed into a box / did not drop the connection",
                      {"case": case, "key_length": klen, "pair_index": pos, "boxes_received": len(got), "closed": closed, "error": err,
                       "received_key_lengths": [sorted(len(k) for k in b) for _t, b in got]})


class Weird:
    def __repr__(self):
        return "<Weird>"


def gen_unrepresentable(rng):
    """-> (defect name, list of (key, value) items; constructed with setitem so that str keys stay str)"""
    base = gen_box(rng, big_ok=False)
    kind = rng.choice(["empty-key", "empty-key", "key-256", "key-long", "value-65536", "value-long", "str-key", "str-value",
                       "int-value", "none-value", "list-value", "float-value", "int-key", "tuple-key", "object-value"])
    k, v = b"k" + rand_bytes(rng, 2), b"v"
    if kind == "empty-key":
        k = b""
        v = rand_bytes(rng, rng.choice([0, 1, 5]))
    elif kind == "key-256":
        k = rand_bytes(rng, 256)
    elif kind == "key-long":
        k = rand_bytes(rng, rng.choice([257, 300, 65535, 65536]))
    elif kind == "value-65536":
        v = b"v" * 65536
    elif kind == "value-long":
        v = b"v" * rng.choice([65537, 70000, 131072])
    elif kind == "str-key":
        k = "key"
    elif kind == "str-value":
        v = "value"
    elif kind == "int-value":
        v = 7
    elif kind == "none-value":
        v = None
    elif kind == "list-value":
        v = [b"a"]
    elif kind == "float-value":
        v = 1.5
    elif kind == "int-key":
        k = 5
    elif kind == "tuple-key":
        k = (b"a", b"b")
    elif kind == "object-value":
        v = Weird()
    items = [(bk, bv) for bk, bv in base.items() if bk != k]
    items.insert(rng.randint(0, len(items)), (k, v))
    return kind, items


def check_refusal(ctx, amp, rng, case=None):
    kind, items = gen_unrepresentable(rng)
    before, after = gen_box(rng, big_ok=False) or {b"a": b"1"}, gen_box(rng, big_ok=False) or {b"z": b"2"}
    sender = amp.BinaryBoxProtocol(Recorder())
    st = WT()
    sender.makeConnection(st)
    if ser(ctx, amp, before, case) is None or ser(ctx, amp, after, case) is None:
        return
    sender.sendBox(amp.AmpBox(before))
    mark = len(st.chunks)
    bad = amp.AmpBox()
    for k, v in items:
        dict.__setitem__(bad, k, v)
    via_send = rng.random() < 0.5
    raised = None
    try:
        if via_send:
            sender.sendBox(bad)
        else:
            bad.serialize()
    except Exception as e:
        raised = type(e).__name__
    wrote = b"".join(st.chunks[mark:])
    sender.sendBox(amp.AmpBox(after))
    wire = b"".join(st.chunks)
    got, closed, err = receive(amp, random_split(rng, wire, 40) if rng.random() < 0.7 else [wire])
    ctx.count("refusal_cases")
    ctx.seen("refusal_kinds", "%s -> %s" % (kind, raised))
    ctx.evaluated()
    ctx.distinct(("refusal", kind, repr(items)[:200]))
    w = {"case": case, "defect": kind, "box_items": [(k, v if not isinstance(v, (bytes, str)) or len(v) < 100 else "%d bytes" % len(v)) for k, v in items],
         "via": "sendBox" if via_send else "serialize", "raised": raised, "written_by_refused_send": wrote[:64], "wire": wire if len(wire) < 600 else None,
         "sent_before": before, "sent_after": after, "received": got if len(wire) < 600 else "%d boxes" % len(got), "receiver_closed": closed, "receiver_error": err}
    only_empty = kind == "empty-key"
    if raised is None:
        if only_empty:
            ctx.violation("amp-empty-key", "a box with an empty key is serialized (the empty key is written as the 0x0000 box terminator) instead of being refused", w)
        else:
            ctx.violation("unrepresentable-box-accepted-" + kind, "serialize()/sendBox() did not raise for an unrepresentable box", w)
    else:
        ctx.count("refusals_raised")
        if wrote:
            ctx.violation("refused-box-partially-written", "sendBox raised but wrote bytes", w)
        expected = [("AmpBox", before), ("AmpBox", after)]
        if got != expected or closed or err:
            ctx.violation("stream-corrupted-after-refusal", "valid boxes around a refused box are not received intact", w)
        else:
            ctx.count("integrity_boxes_after_refusal", 2)


# ------------------------------------------------------------------------------------------------
# (b) argument types
def fbits(x):
    return struct.pack("!d", x)


def eq_float(a, b):
    if isinstance(a, float) and isinstance(b, float):
        if math.isnan(a) or math.isnan(b):
            return math.isnan(a) and math.isnan(b)
        return fbits(a) == fbits(b)
    return False


def eq_decimal(a, b):
    return isinstance(b, decimal.Decimal) and a.as_tuple() == b.as_tuple()


def eq_datetime(a, b):
    if not isinstance(b, datetime.datetime) or b.tzinfo is None:
        return False
    if a.replace(tzinfo=None) != b.replace(tzinfo=None):
        return False
    try:
        oa, ob = a.utcoffset(), b.utcoffset()
    except ValueError:  # the decoded tzinfo holds an offset outside (-24h, 24h)
        return False
    if oa.microseconds == 0 and oa.seconds % 60 == 0:
        return oa == ob
    return abs((oa - ob).total_seconds()) < 60 and ob.seconds % 60 == 0 and ob.microseconds == 0


DT_KEY = "datetime-subminute-offset-floors-to-minus-24h"
DT_WHAT = ("amp.DateTime encodes a UTC offset in (-24:00, -23:59) (sub-minute offsets) by flooring to '-24:00'; the decoded "
           "datetime has a tzinfo whose utcoffset() is -24h, which datetime rejects (ValueError)")


def _dt_corner(d):
    return isinstance(d, datetime.datetime) and d.tzinfo is not None and d.utcoffset() < datetime.timedelta(minutes=-1439)


def datetime_minus_24h(v, back, eq):
    """True when every mismatching element is a datetime whose offset lies in (-24:00, -23:59)."""
    if isinstance(v, datetime.datetime):
        return _dt_corner(v)
    if isinstance(v, list) and isinstance(back, list) and len(v) == len(back) and v and all(isinstance(x, datetime.datetime) for x in v):
        bad = [x for x, y in zip(v, back) if not eq_datetime(x, y)]
        return bool(bad) and all(_dt_corner(x) for x in bad)
    return False


def eq_path(a, b):
    from twisted.python.filepath import FilePath
    return isinstance(b, FilePath) and a.asTextMode().path == b.asTextMode().path and isinstance(b.path, str)


def eq_plain(a, b):
    return type(a) is type(b) and a == b


def gen_int(rng):
    r = rng.random()
    if r < 0.3:
        return rng.choice([0, 1, -1, 2 ** 31, -2 ** 31, 2 ** 31 - 1, 2 ** 63, -2 ** 63, 2 ** 64, 10 ** 18, -10 ** 18, 255, 256, 65535, 65536])
    if r < 0.35:
        return rng.choice([1, -1]) * (10 ** rng.choice([3999, 2000, 1000]) - rng.randint(0, 9))
    if r < 0.45:
        return rng.choice([1, -1]) * rng.getrandbits(rng.choice([128, 1024, 4096]))
    return rng.randint(-10 ** 6, 10 ** 6)


def gen_str(rng, big=True):
    r = rng.random()
    if r < 0.03 and big:
        return rand_bytes(rng, rng.choice([65535, 65534, 30000]))
    return rand_bytes(rng, rng.choice([0, 1, 2, 255, 256, 300]) if r < 0.4 else rng.randint(0, 50))


PLANES = [(0x0, 0x1F), (0x20, 0x7E), (0x7F, 0x7FF), (0x800, 0xD7FF), (0xE000, 0xFFFF), (0x10000, 0x1FFFF), (0x20000, 0x10FFFF)]


def gen_unicode(rng, maxlen=40):
    n = rng.choice([0, 1, 2]) if rng.random() < 0.3 else rng.randint(0, maxlen)
    out = []
    for _ in range(n):
        lo, hi = rng.choice(PLANES)
        out.append(chr(rng.randint(lo, hi)))
    return "".join(out)


FLOAT_SPECIALS = [float("nan"), float("inf"), float("-inf"), -0.0, 0.0, 5e-324, -5e-324, 2.2250738585072014e-308, 1.7976931348623157e308,
                  -1.7976931348623157e308, 0.1, 1e22, 1e23, 1 / 3, 2 ** 53 + 0.0, 1e-7, 123456789.12345679]


def gen_float(rng, ctx=None):
    r = rng.random()
    if r < 0.35:
        if ctx is not None:
            ctx.count("float_specials")
        return rng.choice(FLOAT_SPECIALS)
    if r < 0.8:
        return struct.unpack("!d", rng.getrandbits(64).to_bytes(8, "big"))[0]
    return rng.uniform(-1e6, 1e6)


DEC_SPECIALS = ["NaN", "-NaN", "sNaN", "-sNaN", "NaN123", "sNaN9", "Infinity", "-Infinity", "0", "-0", "0E+10", "-0E-7", "1.50", "1E+400",
                "-1.234E-999", "0.000001", "1E-7", "100", "1E+2", "1.0E+2", "9" * 60, "-" + "1" * 30 + "." + "2" * 30, "1E+999999", "1E-999999"]


def gen_decimal(rng):
    if rng.random() < 0.4:
        return decimal.Decimal(rng.choice(DEC_SPECIALS))
    digits = tuple(rng.randint(0, 9) for _ in range(rng.randint(1, 40)))
    return decimal.Decimal((rng.randint(0, 1), digits, rng.choice([0, 0, -1, 1, -5, 5, -30, 30, rng.randint(-400, 400)])))


def gen_datetime(rng, ctx=None):
    r = rng.random()
    if r < 0.2:
        secs = rng.choice([0, 60, -60, 3600, -3600, 86340, -86340, 19800, -12600, 45 * 60, -86399, -86370, 86399, -59, 59, -61])
    elif r < 0.7:
        secs = 60 * rng.randint(-1439, 1439)
    else:
        secs = rng.randint(-86399, 86399)
        if ctx is not None and secs % 60:
            ctx.count("datetime_subminute")
    tz = datetime.timezone(datetime.timedelta(seconds=secs))
    year = rng.choice([1, 2, 999, 1000, 1969, 1970, 2000, 2038, 9998, 9999]) if rng.random() < 0.4 else rng.randint(1, 9999)
    month = rng.randint(1, 12)
    day = rng.randint(1, 28) if rng.random() < 0.8 else [31, 28, 31, 30, 31, 30, 31, 31, 30, 31, 30, 31][month - 1]
    us = rng.choice([0, 1, 999999, 500000]) if rng.random() < 0.5 else rng.randint(0, 999999)
    return datetime.datetime(year, month, day, rng.randint(0, 23), rng.randint(0, 59), rng.randint(0, 59), us, tzinfo=tz)


def gen_path(rng):
    from twisted.python.filepath import FilePath
    segs = [gen_unicode(rng, 6).replace("/", "_").replace("\x00", "0") or "x" for _ in range(rng.randint(1, 4))]
    segs = [s if s not in (".", "..") else "d" for s in segs]
    p = ("/" if rng.random() < 0.7 else "") + "/".join(segs)
    if rng.random() < 0.15:
        return FilePath(p.encode("utf-8"))
    return FilePath(p)


def build_types(amp):
    def listof(gen, n=6):
        return lambda rng, ctx=None: [gen(rng) for _ in range(rng.choice([0, 1, 2, n]))]

    def nested(rng, ctx=None):
        if ctx is not None:
            ctx.count("listof_nested")
        return [[gen_int(rng) % 10 ** 9 for _ in range(rng.randint(0, 4))] for _ in range(rng.randint(0, 4))]

    def amplist(rng, ctx=None):
        return [dict(a=gen_int(rng) % 10 ** 12, b=gen_unicode(rng, 8), **({"c": [gen_float(rng) for _ in range(rng.randint(0, 3))]} if rng.random() < 0.5 else {"c": None}))
                for _ in range(rng.randint(0, 4))]

    def eq_list(eq):
        return lambda a, b: isinstance(b, list) and len(a) == len(b) and all(eq(x, y) for x, y in zip(a, b))

    def eq_amplist(a, b):
        if not isinstance(b, list) or len(a) != len(b):
            return False
        for x, y in zip(a, b):
            if set(x) != set(y) or not eq_plain(x["a"], y["a"]) or not eq_plain(x["b"], y["b"]):
                return False
            if (x["c"] is None) != (y["c"] is None) or (x["c"] is not None and not eq_list(eq_float)(x["c"], y["c"])):
                return False
        return True

    sub = [(b"a", amp.Integer()), (b"b", amp.Unicode()), (b"c", amp.ListOf(amp.Float(), optional=True))]
    return [
        ("Integer", amp.Integer(), lambda rng, ctx=None: gen_int(rng), eq_plain),
        ("String", amp.String(), lambda rng, ctx=None: gen_str(rng), eq_plain),
        ("Unicode", amp.Unicode(), lambda rng, ctx=None: gen_unicode(rng), eq_plain),
        ("Float", amp.Float(), gen_float, eq_float),
        ("Boolean", amp.Boolean(), lambda rng, ctx=None: rng.random() < 0.5, eq_plain),
        ("Decimal", amp.Decimal(), lambda rng, ctx=None: gen_decimal(rng), eq_decimal),
        ("DateTime", amp.DateTime(), gen_datetime, eq_datetime),
        ("Path", amp.Path(), lambda rng, ctx=None: gen_path(rng), eq_path),
        ("ListOf(Integer)", amp.ListOf(amp.Integer()), listof(gen_int), eq_list(eq_plain)),
        ("ListOf(String)", amp.ListOf(amp.String()), listof(lambda rng: gen_str(rng, big=False)), eq_list(eq_plain)),
        ("ListOf(Unicode)", amp.ListOf(amp.Unicode()), listof(gen_unicode), eq_list(eq_plain)),
        ("ListOf(Float)", amp.ListOf(amp.Float()), listof(gen_float), eq_list(eq_float)),
        ("ListOf(Boolean)", amp.ListOf(amp.Boolean()), listof(lambda rng: rng.random() < 0.5), eq_list(eq_plain)),
        ("ListOf(Decimal)", amp.ListOf(amp.Decimal()), listof(gen_decimal), eq_list(eq_decimal)),
        ("ListOf(DateTime)", amp.ListOf(amp.DateTime()), listof(gen_datetime), eq_list(eq_datetime)),
        ("ListOf(Path)", amp.ListOf(amp.Path()), listof(gen_path, 3), eq_list(eq_path)),
        ("ListOf(ListOf(Integer))", amp.ListOf(amp.ListOf(amp.Integer())), nested, eq_list(eq_list(eq_plain))),
        ("AmpList", amp.AmpList(sub), amplist, eq_amplist),
    ]


def check_argument(ctx, types, rng, idx, case=None):
    name, arg, gen, eq = types[idx % len(types)]
    v = gen(rng, ctx)
    ctx.count("arg_roundtrips")
    ctx.evaluated()
    try:
        wire = arg.toStringProto(v, None)
        back = arg.fromStringProto(wire, None)
    except Exception as e:
        ctx.violation("argument-%s-raises" % name, "toString/fromString raised %s" % type(e).__name__, {"case": case, "type": name, "value": repr(v)[:500], "error": "%s: %s" % (type(e).__name__, e)})
        return None
    if not isinstance(wire, bytes):
        ctx.violation("argument-%s-wire-not-bytes" % name, "toString did not return bytes", {"type": name, "value": repr(v)[:500]})
    if not (v is None or (isinstance(v, (list, str, bytes)) and len(v) == 0)):
        ctx.distinct((name, wire))
    ctx.seen("argument_types", name)
    if not eq(v, back):
        key, what = "argument-%s-roundtrip-mismatch" % name, "decoded value differs from the encoded one"
        if datetime_minus_24h(v, back, eq):
            key, what = DT_KEY, DT_WHAT
        ctx.violation(key, what, {"case": case, "type": name, "value": repr(v)[:800], "wire": wire[:300], "decoded": repr(back)[:800]})
    return name, v, wire, back


def build_echo(amp, types):
    """One command whose arguments/response are all the types; the responder echoes."""
    names = [("a%02d" % i).encode() for i in range(len(types))]
    schema = [(n, t[1].__class__(*_ctor_args(amp, t[1]), optional=True)) for n, t in zip(names, types)]

    class Echo(amp.Command):
        arguments = schema
        response = schema

    class Peer(amp.AMP):
        def echo(self, **kw):
            self.seen_kw = kw
            return kw
        Echo.responder(echo)

    return Echo, Peer, names


def _ctor_args(amp, arg):
    if isinstance(arg, amp.ListOf):
        return (arg.elementType,)
    if isinstance(arg, amp.AmpList):
        return (arg.subargs,)
    return ()


def check_callremote(ctx, amp, types, echo, rng, case=None):
    Echo, Peer, names = echo
    a, b = Peer(), Peer()
    link = Link(a, b)
    link.connect()
    picked = rng.sample(range(len(types)), rng.randint(1, 5))
    kw, total = {}, 0
    for i in picked:
        name, arg, gen, eq = types[i]
        v = gen(rng)
        try:
            size = len(arg.toStringProto(v, None))
        except Exception:
            continue
        if size > 65535:
            continue
        kw[names[i].decode()] = v
    res = []
    d = a.callRemote(Echo, **kw)
    d.addCallbacks(lambda r: res.append(("ok", r)), lambda f: res.append(("err", f)))
    link.pump(rng, chunk=lambda r, pending: r.randint(1, max(1, min(pending, 200))))
    ctx.count("callremote_roundtrips")
    ctx.evaluated()
    w = {"case": case, "arguments": {k: repr(v)[:300] for k, v in kw.items()}}
    if len(res) != 1 or res[0][0] != "ok":
        corner = [v for v in kw.values() if _dt_corner(v) or (isinstance(v, list) and any(_dt_corner(x) for x in v))]
        if corner and len(res) == 1:  # the responder cannot re-encode/inspect the decoded datetime: same mechanism
            ctx.violation(DT_KEY, DT_WHAT + " (via callRemote: the echo fails)", dict(w, result=repr(res)[:300]))
            return
        ctx.violation("callremote-echo-failed", "callRemote echo did not answer with a result", dict(w, result=repr(res)[:500]))
        return
    out = res[0][1]
    for i in picked:
        n = names[i].decode()
        if n not in kw:
            continue
        if not types[i][3](kw[n], out.get(n)) or not types[i][3](kw[n], b.seen_kw.get(n)):
            if datetime_minus_24h(kw[n], out.get(n), None) and datetime_minus_24h(kw[n], b.seen_kw.get(n), None):
                ctx.violation(DT_KEY, DT_WHAT + " (via callRemote)", dict(w, type=types[i][0], sent=repr(kw[n])[:500]))
                continue
            ctx.violation("callremote-%s-roundtrip-mismatch" % types[i][0], "argument value changed across callRemote",
                          dict(w, type=types[i][0], sent=repr(kw[n])[:500], responder_saw=repr(b.seen_kw.get(n))[:500], answer=repr(out.get(n))[:500]))


def do_case(ctx, amp, types, echo, kind, i):
    if kind == "box":
        rng = ctx.case_rng("box", i)
        boxes = [gen_box(rng) for _ in range(rng.randint(1, 4))]
        wire, nruns = check_box_stream(ctx, amp, rng, boxes, case=["box", i])
        return boxes, wire, nruns
    if kind == "refusal":
        return check_refusal(ctx, amp, ctx.case_rng("refusal", i), case=["refusal", i])
    if kind == "rxkey":
        return check_overlong_key_rx(ctx, amp, ctx.case_rng("rxkey", i), case=["rxkey", i])
    if kind == "arg":
        return check_argument(ctx, types, ctx.case_rng("arg", i), i, case=["arg", i])
    return check_callremote(ctx, amp, types, echo, ctx.case_rng("call", i), case=["call", i])


def run(ctx):
    from twisted.protocols import amp

    types = build_types(amp)
    echo = build_echo(amp, types)
    samples = 0
    for i in ctx.cases(2400, 250000):
        boxes, wire, nruns = do_case(ctx, amp, types, echo, "box", i)
        if samples < 2 and len(wire) < 60 and any(boxes):
            samples += 1
            ctx.sample({"boxes": boxes, "wire": wire, "deliveries_run": nruns, "result": "all deliveries yielded the sent boxes"})
        do_case(ctx, amp, types, echo, "refusal", i)
        if i % 4 == 0:
            do_case(ctx, amp, types, echo, "rxkey", i)
    for i in ctx.cases(40000, 2500000):
        r = do_case(ctx, amp, types, echo, "arg", i)
        if r and samples < 4 and i % 18 in (6, 7) and len(r[2]) < 80:
            samples += 1
            ctx.sample({"type": r[0], "value": repr(r[1]), "wire": r[2], "decoded": repr(r[3])})
        if i % 40 == 0:
            do_case(ctx, amp, types, echo, "call", i)


def replay(ctx, w):
    """Cases are pure functions of (seed, kind, index): regenerate and re-run the recorded one."""
    from twisted.protocols import amp

    case = w["witness"].get("case")
    if not case:
        print("replay: witness has no case id; re-run with VERIF_SEED=%s" % w.get("seed"))
        return
    types = build_types(amp)
    do_case(ctx, amp, types, build_echo(amp, types), case[0], case[1])
    for k, v in ctx.violations.items():
        print("replayed %s: %s: %s" % (case, k, v["what"]))
