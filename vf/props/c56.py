"""C56 Flattened / JSON-serialised log events format like the original.

Monitor: for every generated event e (fresh objects built three times from one recipe)
  t0 = formatEvent(e)
  t1 = formatEvent(e1), e1 flattened with flattenEvent and then every original field object replaced
       by a Poison object (any str/repr/format/attribute/index/call on it raises), so t1 can only
       come from the flattened data
  t2 = formatEvent(eventFromJSON(eventAsJSON(e2)))
and the oracle is t0 == t1 == t2.  The decoration (timestamp, system from log_level /
log_namespace / log_system) is compared separately between the original and the JSON-loaded event.

Guards (premise of the statement): format strings are generated type-aware, so that the ORIGINAL
event always formats (only when NONE of the three texts formats is the case counted as
premise_failed and not judged; an original that falls back to "Unable to format event" while the
flattened / JSON form formats is a mismatch: original-unformattable-flattened-formats); values have deterministic str/repr/format (no default object reprs,
callables are always called, never printed); no Failures (their traceback text is not part of the
statement).

Classification of a mismatch (narrow keys): every field of the format is re-checked alone; for a
culprit field the minimal set of *features* whose removal makes it agree names the mechanism
(format spec -> flatten-drops-format-spec, !a -> flatten-conv-a, a () call followed by more path ->
flatten-mid-path-call, custom __format__ with empty spec -> flatten-ignores-custom-format).  If the
whole format still disagrees after all culprit fields are neutralised, or a culprit has no such
explanation, the generic key flatten-text-mismatch / json-text-mismatch is reported as well.

Empty field texts: values that are NOT JSON-native (exceptions raised without arguments, objects whose
__str__ / __repr__ return "") and whose text is the empty string are generated as fields, container
elements and call results.  The text captured when the event was flattened is "" and must stay "" after
poisoning and after the JSON round trip (where the structured value has become the JSON image of an
unpersistable object).  A culprit field whose original text is "" and which no known feature explains is
reported under flatten-empty-field-text-lost / json-empty-field-text-lost.  Counter
fields_nonnative_value_with_empty_text proves such fields are compared.
"""
LEVEL = "exploration"
ENGINE = "core"
TECHNIQUE = "runtime monitoring: differential oracle original vs flattened(+poisoned originals) vs JSON round trip"
RULE = ("random type-aware format strings over the event's own keys: attribute/index paths through nested "
        "objects, dicts (str and int keys), lists, tuples - arbitrary interleavings up to 4 steps over purpose-built "
        "nested structures; () calls at the end of any such path (after attribute-after-index, index-after-attribute "
        "...) and in the middle of a path; conversions !r !s !a; format "
        "specs valid for the value's type (width, precision, type codes, fill/align, nested {w}); repeated "
        "fields; literal braces; values: ints, floats, strs (non-ASCII, braces, surrogates), bytes, None, "
        "bools, nested containers, objects with deterministic __str__/__repr__/__format__, non-JSON-native values whose "
        "str (and sometimes repr) is the EMPTY string (argument-less exceptions, objects with __str__ -> ''), pure callables, values and "
        "callables whose str / repr / call flattens and formats ANOTHER event re-entrantly (placed between repeated fields "
        "of the outer format, the nested event using the same field names).  "
        "Distinct = (format string, value recipe); non-trivial = at least one field.")
ASSUMPTIONS = ["trusted base: the recipe->object builder and the Poison class of this module",
               "the original event's text (t0) is the reference; no independent formatter model is used"]
SHARDS = {"quick": 4, "thorough": 16}
FLOORS = {"compared_flat": 5000, "compared_json": 5000, "compared_decoration": 5000, "fields_total": 10000,
          "fields_repeated": 500, "fields_with_path": 3000, "fields_end_call": 300, "poisoned_values": 5000,
          "agree": 3000, "repeated_counter_calls": 50, "fields_terminal_call_after_index_path": 800, "fields_path_3plus": 1500,
          "reentrant_flatten_between_repeats": 1500, "fields_with_wrapper_colliding_attribute_names": 1500,
          "fields_nonnative_value_with_empty_text": 300}
READY = True


class PoisonTouched(Exception):
    pass


class Poison:
    def _boom(self, *a, **k):
        raise PoisonTouched("original field object used after flattening")

    __str__ = __repr__ = __format__ = __call__ = __getitem__ = __iter__ = __len__ = _boom

    def __getattr__(self, name):
        raise PoisonTouched("original field object used after flattening (.%s)" % name)


class Obj:
    """Deterministic object.  fmt: 'plain' (object-like: format == format(str(self), spec)) or
    'custom' (__format__ returns its own text that shows the spec)."""

    def __init__(self, name, fmt, attrs):
        self._name = name
        self._fmt = fmt
        self.__dict__.update(attrs)

    def __str__(self):
        return "S<%s>" % self._name

    def __repr__(self):
        return "R<%s\xe9>" % self._name

    def __format__(self, spec):
        if self._fmt == "custom":
            return "F<%s|%s>" % (self._name, spec)
        return format(str(self), spec)


class Quiet:
    """Not JSON-native, deterministic, str() is the empty string; repr() is empty too when asked."""

    def __init__(self, emptyrepr):
        self._emptyrepr = emptyrepr

    def __str__(self):
        return ""

    def __repr__(self):
        return "" if self._emptyrepr else "Quiet<>"

    def __format__(self, spec):
        return format(str(self), spec)


EXCS = {"ValueError": ValueError, "ConnectionError": ConnectionError, "KeyError": KeyError, "Exception": Exception,
        "RuntimeError": RuntimeError}


def _nested_text(names, mode):
    """Flatten and format ANOTHER event (what a value does whose __str__ logs to a JSON / flattening observer)."""
    from twisted.logger import eventAsJSON, eventFromJSON, formatEvent
    from twisted.logger._flatten import flattenEvent

    e = {"log_format": " ".join("{%s}" % n for n in names)}
    for n in set(names):
        e[n] = "n-" + n
    if mode == "json":
        return formatEvent(eventFromJSON(eventAsJSON(e)))
    flattenEvent(e)
    return formatEvent(e)


class Reflat:
    """Deterministic value whose str/repr flatten and format another event re-entrantly."""

    def __init__(self, names, mode):
        self._names, self._mode = names, mode

    def __str__(self):
        return "N<%s>" % _nested_text(self._names, self._mode)

    def __repr__(self):
        return "NR<%s>" % _nested_text(self._names, self._mode)

    def __format__(self, spec):
        return format(str(self), spec)


def build(r):
    k = r[0]
    if k == "reflat":
        return Reflat(r[1], r[2])
    if k == "callflat":
        return lambda names=r[1], mode=r[2]: "C<%s>" % _nested_text(names, mode)
    if k in ("int", "str"):
        return r[1]
    if k == "quiet":
        return Quiet(r[1])
    if k == "exc":
        return EXCS[r[1]]()   # raised-without-arguments exception: str() == "", repr() == "Name()"
    if k == "float":
        return float(r[1])
    if k == "bytes":
        return r[1].encode("latin-1")
    if k == "none":
        return None
    if k == "bool":
        return bool(r[1])
    if k == "list":
        return [build(x) for x in r[1]]
    if k == "tuple":
        return tuple(build(x) for x in r[1])
    if k == "dict":
        return {a: build(b) for a, b in r[1]}
    if k == "obj":
        return Obj(r[1], r[2], {a: build(b) for a, b in r[3]})
    if k == "call":
        v = build(r[1])
        return lambda: v
    if k == "counter":
        state = [r[1][1]]

        def nxt():
            state[0] += 1
            return state[0]

        return nxt
    if k == "level":
        from twisted.logger import LogLevel

        return LogLevel.lookupByName(r[1])
    raise ValueError(r)


# ------------------------------------------------------------------------------------------------
# generation

INTS = [0, 1, -1, 7, 42, -42, 255, 65536, 10 ** 12, 10 ** 30]
FLOATS = ["3.14159", "-0.5", "2.0", "1e10", "1e-07", "123456.789", "nan", "inf", "0.1"]
STRS = ["", "text", "caf\xe9", "中文", "{", "}", "{x}", "a b", "li\nne", "\ud800", "tab\t", "q'\"", "0", "x" * 20]
ATTRS = ["attr", "x", "name", "sub", "val", "m", "get"]
# names that could collide with attributes of the formatter's own wrapper object.  Not in the pool, because the
# unchanged tree already renders them differently on the two sides (PotentialCallWrapper's own attributes shadow
# them: _wrapped, __getattr__, __init__, __format__, __repr__) or because they are not plain instance attributes /
# not deterministic (__class__, __dict__).
COLLIDE = ["value", "wrapped", "_value", "__call__", "__slots__"]
DKEYS = ["k", "key", "a1", "x", "main-table", "a b", "value", "__slots__"]


def g_value(rng, depth=0, inside=False):
    """inside=True: element of a list/tuple/dict, whose str() shows the element's repr: no callables
    there (a function's repr contains its address: not deterministic)."""
    if rng.random() < 0.07:
        # not JSON-native and the text is empty ("request failed: {error}" with error=ValueError())
        return ["quiet", rng.randrange(2)] if rng.random() < 0.5 else ["exc", rng.choice(sorted(EXCS))]
    c = rng.randrange(14 if depth < 3 else 8)
    if inside and c == 11:
        c = 0
    if c == 0 or c == 1:
        return ["int", rng.choice(INTS)]
    if c == 2:
        return ["float", rng.choice(FLOATS)]
    if c == 3 or c == 4:
        return ["str", rng.choice(STRS)]
    if c == 5:
        return ["bytes", rng.choice(["", "abc", "\xff\xfe", "caf\xc3\xa9"])]
    if c == 6:
        return rng.choice([["none"], ["bool", 0], ["bool", 1]])
    if c == 7:
        return ["level", rng.choice(["debug", "info", "warn", "error", "critical"])]
    if c == 8:
        return ["list", [g_value(rng, depth + 1, True) for _ in range(rng.randrange(1, 4))]]
    if c == 9:
        return ["tuple", [g_value(rng, depth + 1, True) for _ in range(rng.randrange(1, 3))]]
    if c == 10:
        keys = rng.sample(DKEYS, rng.randrange(1, 3)) + ([rng.choice([0, 5])] if rng.random() < 0.3 else [])
        return ["dict", [[k, g_value(rng, depth + 1, True)] for k in keys]]
    if c == 11 and not inside and rng.random() < 0.15:
        return [rng.choice(["reflat", "callflat"]), rng.sample(["a", "b", "c", "obj", "f", "item", "w"], rng.randrange(1, 3)) * rng.randrange(1, 3),
                rng.choice(["flatten", "json"])]
    if c == 11:
        if rng.random() < 0.25:
            # deterministic but stateful: every call returns the next integer (each formatting gets
            # fresh objects), so repeated "{f()}" fields must be evaluated once per occurrence, in order
            return ["counter", ["int", rng.choice([0, 10, 41])]]
        v = g_value(rng, depth + 1)
        return v if v[0] in ("call", "counter", "callflat") else ["call", v]  # "x()()" is not part of the format syntax
    attrs = [[a, g_value(rng, depth + 1)] for a in rng.sample(ATTRS + COLLIDE, rng.randrange(1, 4))]
    return ["obj", rng.choice(["o", "p", "q\xfc"]), rng.choice(["plain", "plain", "custom"]), attrs]


def g_struct(rng, depth):
    """Nested structure for long mixed paths: lists / tuples / dicts (str and int keys) of objects whose
    attributes are again structures; every object has a called attribute, so that a terminal () can follow
    an index step, attribute-after-index, index-after-attribute ...  Containers hold objects only
    (deterministic repr), never bare callables."""
    def leafval():
        return rng.choice([["int", rng.choice(INTS)], ["str", rng.choice(STRS)], ["float", rng.choice(FLOATS)], ["none"]])

    def obj(d):
        attrs = [["describe", ["call", leafval()]], ["name", leafval()]]
        if rng.random() < 0.4:
            attrs.append([rng.choice(COLLIDE), ["call", leafval()] if rng.random() < 0.3 else leafval()])
        if d > 0:
            for a in rng.sample(["sub", "items", "get", "val"] + COLLIDE, rng.randrange(1, 3)):
                v = g_struct(rng, d - 1)
                attrs.append([a, ["call", v] if rng.random() < 0.2 else v])   # a called attribute mid-path
        if rng.random() < 0.15:
            attrs.append(["m", ["counter", ["int", 0]]])
        seen, uniq = set(), []
        for a in attrs:   # one recipe per attribute name (the walker and the built object must agree)
            if a[0] not in seen:
                seen.add(a[0])
                uniq.append(a)
        attrs = uniq
        rng.shuffle(attrs)
        return ["obj", rng.choice(["o", "p", "q\xfc"]), rng.choice(["plain", "plain", "custom"]), attrs]

    if depth <= 0:
        return obj(0)
    k = rng.randrange(4)
    if k == 0:
        return ["list", [g_struct(rng, depth - 1) for _ in range(rng.randrange(1, 4))]]
    if k == 1:
        return ["tuple", [g_struct(rng, depth - 1) for _ in range(rng.randrange(1, 3))]]
    if k == 2:
        keys = rng.sample(DKEYS, rng.randrange(1, 3)) + ([rng.choice([0, 5, 12])] if rng.random() < 0.5 else [])
        return ["dict", [[key, g_struct(rng, depth - 1)] for key in keys]]
    return obj(depth)


def walk(rng, r, maxsteps):
    """Random path from recipe r: returns (path text, final recipe, n_calls, midcall?)."""
    path = ""
    shape = ""   # A attribute step, I index step, C call
    ncalls = 0
    last_was_call_at = None
    steps = 0
    while True:
        k = r[0]
        if k in ("call", "counter", "callflat"):  # a callable must be called (its str is not deterministic)
            path += "()"
            shape += "C"
            ncalls += 1
            last_was_call_at = len(path)
            r = r[1] if k != "callflat" else ["str", "dynamic"]
            continue
        if steps >= maxsteps:
            break
        steps += 1
        if k == "obj" and r[3]:
            a, v = rng.choice(r[3])
            path += "." + a
            shape += "A"
            r = v
        elif k == "dict" and r[1]:
            a, v = rng.choice(r[1])
            path += "[%s]" % a
            shape += "I"
            r = v
        elif k in ("list", "tuple") and r[1]:
            i = rng.randrange(len(r[1]))
            path += "[%d]" % i
            shape += "I"
            r = r[1][i]
        else:
            break
    mid = ncalls > 0 and (ncalls > 1 or last_was_call_at != len(path))
    return path, r, ncalls, mid, shape


STR_SPECS = ["", "", ">10", "<8", "^9", "*^12", ".3", "10.2", "s", ">{w}", "^{w}.{p}", ".{p}", "{w}"]
INT_SPECS = ["", "", "d", "05d", "x", "X", "o", "b", "+d", ",", "_", ">8", "08.3f", "e", "{w}d", "0{w}", "#x", "n"]
FLOAT_SPECS = ["", "", ".2f", ".0f", "e", "10.3g", "%", "+.1f", "012.4f", ".{p}f", "{w}.{p}f", ","]
ANY_SPECS = ["", "anything", "%Y-%m", ">10", "{w}", "a b", "!", "05d"]


def g_field(rng, keys, recipes):
    """-> dict(text=..., feats={...}, variants) ; text is what goes between the braces."""
    key = rng.choice(keys)
    deep = key in ("peers", "table")
    path, final, ncalls, mid, shape = walk(rng, recipes[key], rng.choice([1, 2, 2, 3, 3, 4, 4]) if deep else rng.choice([0, 0, 1, 1, 2, 3, 4]))
    conv = rng.choice(["", "", "", "", "", "", "r", "r", "s", "a"])
    plain = rng.random() < 0.5  # half of the fields carry no spec (the known spec defect floods otherwise)
    k = final[0]
    if conv:
        spec = rng.choice(STR_SPECS)
    elif k == "int":
        spec = rng.choice(INT_SPECS)
        if final[1] > 10 ** 6 and spec in ("08.3f", "e", "n"):
            spec = ","
    elif k == "bool":
        spec = rng.choice(["", "", "d", ">6"])
    elif k == "float":
        spec = rng.choice(FLOAT_SPECS)
    elif k == "str" or k == "level" or k == "reflat" or k == "quiet" or (k == "obj" and final[2] == "plain"):
        spec = rng.choice(STR_SPECS) if k != "level" else ""
    elif k == "obj":
        spec = rng.choice(ANY_SPECS)
    else:
        spec = ""
    if plain:
        spec = ""
    is_counter = '"counter"' in __import__("json").dumps(recipes[key]) and ncalls > 0
    if is_counter:
        # value depends on how many calls came before: the per-field isolation used for classification
        # would not be valid, so counter fields never carry a known-defect feature
        spec = ""
        conv = "" if conv == "a" else conv
    custom = (k == "obj" and final[2] == "custom" and not conv)
    return {"name": key + path, "shape": shape, "counter": is_counter, "conv": conv, "spec": spec, "mid": mid, "ncalls": ncalls, "custom": custom, "haspath": bool(path),
            "emptytext": k in ("quiet", "exc")}


def ftext(f, conv=None, spec=None):
    conv = f["conv"] if conv is None else conv
    spec = f["spec"] if spec is None else spec
    return "{" + f["name"] + ("!" + conv if conv else "") + (":" + spec if spec else "") + "}"


LITS = ["", "", " ", "text ", "{{", "}}", "\xe9", "\n", ": ", "%s", "{{}}", "a=", " / "]


def g_reentrant_case(rng):
    """{peer} ... {session} ... {peer}: a repeated field before and after a value whose str / repr / call flattens
    another event that mentions the same field names."""
    def fld(name, conv="", ncalls=0):
        return {"name": name, "shape": "C" * ncalls, "counter": False, "conv": conv, "spec": "", "mid": False, "ncalls": ncalls,
                "custom": False, "haspath": bool(ncalls)}

    kind = rng.choice(["reflat", "reflat", "callflat"])
    names = rng.choice([["peer", "peer"], ["peer"], ["peer", "w", "peer"], ["session", "peer", "peer", "peer"], ["w", "w"]])
    recipes = {"peer": rng.choice([["str", "10.0.0.1"], ["int", 7], ["obj", "o", "plain", [["x", ["int", 1]]]]]),
               "session": [kind, names, rng.choice(["flatten", "json"])], "w": ["int", 6], "p": ["int", 1]}
    sess = fld("session()", rng.choice(["", "r", "s"]), 1) if kind == "callflat" else fld("session", rng.choice(["", "", "r", "s"]))
    fields = [fld("peer", rng.choice(["", "", "r"])), sess, fld("w")]
    order = rng.choice([[0, 1, 0], [0, 1, 0, 0], [0, 0, 1, 0], [1, 0, 0], [0, 1, 2, 0, 2], [2, 1, 2], [0, 1, 1, 0]])
    parts = []
    for i in order:
        parts += [["lit", rng.choice(LITS)], ["field", i]]
    parts.append(["lit", rng.choice(LITS)])
    used = sorted(set(order))
    remap = {old: new for new, old in enumerate(used)}
    fields = [fields[i] for i in used]
    parts = [[k, remap[x]] if k == "field" else [k, x] for k, x in parts]
    return {"values": [[k, recipes[k]] for k in recipes], "fields": fields, "parts": parts, "deco": [], "reentrant": True}


def g_case(rng):
    if rng.random() < 0.1:
        return g_reentrant_case(rng)
    keys = rng.sample(["a", "b", "c", "obj", "f", "item", "d\xe9"], rng.randrange(1, 5))
    recipes = {k: g_value(rng) for k in keys}
    for k in ("peers", "table"):
        if rng.random() < 0.35:
            keys.append(k)
            recipes[k] = g_struct(rng, rng.randrange(1, 4))
    recipes["w"] = ["int", rng.choice([1, 6, 14])]
    recipes["p"] = ["int", rng.choice([0, 1, 3])]
    nfields = rng.choice([1, 1, 2, 2, 3, 4, 6])
    fields = []
    parts = []  # ("lit", text) | ("field", index)
    for _ in range(nfields):
        parts.append(["lit", rng.choice(LITS)])
        if fields and rng.random() < 0.3:
            parts.append(["field", rng.randrange(len(fields))])  # repeated field
        else:
            fields.append(g_field(rng, keys, recipes))
            parts.append(["field", len(fields) - 1])
    parts.append(["lit", rng.choice(LITS)])
    deco = {}
    if rng.random() < 0.8:
        deco["log_level"] = ["level", rng.choice(["debug", "info", "warn", "error", "critical"])]
    if rng.random() < 0.8:
        deco["log_namespace"] = ["str", rng.choice(["ns", "a.b.c", "twisted.logger", "caf\xe9"])]
    if rng.random() < 0.8:
        deco["log_time"] = ["float", rng.choice(["1700000000.5", "0.0", "1234567890.123456", "1e9", "86399.999"])]
    if rng.random() < 0.25:
        deco["log_system"] = ["str", rng.choice(["sys", "-", "a#b"])]
    return {"values": [[k, recipes[k]] for k in recipes], "fields": fields, "parts": parts, "deco": [[k, deco[k]] for k in deco]}


_SEGMENTS = __import__("re").compile(r"[.\[]([A-Za-z_]+)")


def render(case, override=None):
    """Format string of the case; override: {field index: replacement text}."""
    out = []
    for kind, x in case["parts"]:
        if kind == "lit":
            out.append(x)
        elif override and x in override:
            out.append(override[x])
        else:
            out.append(ftext(case["fields"][x]))
    return "".join(out)


# ------------------------------------------------------------------------------------------------
# the three formattings

def make_event(case, fmt, deco=True):
    e = {k: build(r) for k, r in case["values"]}
    if deco:
        for k, r in case["deco"]:
            e[k] = build(r)
    e["log_format"] = fmt
    return e


def guarded(fn, *a):
    try:
        return fn(*a)
    except Exception as x:
        return "RAISED %s: %s" % (type(x).__name__, str(x)[:200])


def three(case, fmt, ctx=None):
    """-> (t0, t1, t2) for the format string fmt over the case's values."""
    from twisted.logger import eventAsJSON, eventFromJSON, formatEvent
    from twisted.logger._flatten import flattenEvent

    t0 = guarded(formatEvent, make_event(case, fmt))

    def flat():
        e1 = make_event(case, fmt)
        flattenEvent(e1)
        n = 0
        for k in list(e1):
            if not k.startswith("log_"):
                e1[k] = Poison()
                n += 1
        if ctx is not None:
            ctx.count("poisoned_values", n)
        return formatEvent(e1)

    def js():
        e2 = make_event(case, fmt)
        return formatEvent(eventFromJSON(eventAsJSON(e2)))

    return t0, guarded(flat), guarded(js)


def decoration(case):
    """Decoration text of the original vs of the JSON-loaded event (format text neutralised)."""
    from twisted.logger import eventAsJSON, eventAsText, eventFromJSON

    def deco_text(e):
        e = dict(e)
        e.pop("log_flattened", None)
        e["log_format"] = "X"
        return eventAsText(e)

    d0 = guarded(deco_text, make_event(case, "X"))
    d2 = guarded(lambda: deco_text(eventFromJSON(eventAsJSON(make_event(case, render(case))))))
    if d2.startswith("RAISED"):  # eventAsJSON itself may fail for a known flatten defect: retry without fields
        d2 = guarded(lambda: deco_text(eventFromJSON(eventAsJSON(make_event(case, "X")))))
    return d0, d2


FEATURE_KEY = {"spec": "flatten-drops-format-spec", "conva": "flatten-conv-a", "custom": "flatten-ignores-custom-format",
               "mid": "flatten-mid-path-call"}


def explain_field(case, f):
    """For a culprit field: minimal feature set whose removal makes the field agree, or None."""
    feats = []
    if f["spec"]:
        feats.append("spec")
    if f["conv"] == "a":
        feats.append("conva")
    if f["custom"]:
        feats.append("custom")
    best = None
    for mask in range(1, 2 ** len(feats)):
        sub = [feats[i] for i in range(len(feats)) if mask >> i & 1]
        conv, spec = f["conv"], f["spec"]
        if "spec" in sub:
            spec = ""
        if "conva" in sub:
            conv = "r"
        if "custom" in sub and not conv:
            conv = "s"
        txt = "{" + f["name"] + ("!" + conv if conv else "") + (":" + spec if spec else "") + "}"
        a, b, c = three(case, txt)
        if a == b == c and not a.startswith(("Unable to format", "RAISED")):
            if best is None or len(sub) < len(best[0]):
                best = (sub, txt)
    return best


def check_case(ctx, case, idx=None):
    fmt = render(case)
    t0, t1, t2 = three(case, fmt, ctx)
    bad = ("Unable to format event", "MESSAGE LOST", "RAISED")
    if t0.startswith(bad):
        if t1.startswith(bad) and t2.startswith(bad):
            # none of the three formats: the generated event is outside the premise (generator bug)
            ctx.count("premise_failed")
            if ctx.counters["premise_failed"] <= 3:
                ctx.seen("premise_failed_examples", fmt[:80] + " => " + t0[-80:])
            return
        # the flattened / JSON form formats but the original does not: the texts differ
        culprits = []
        for f in case["fields"]:
            a, b, c = three(case, ftext(f))
            if a.startswith(bad) and not (b.startswith(bad) and c.startswith(bad)):
                culprits.append({"field": ftext(f), "path_shape": f.get("shape"), "original": a[-160:], "flattened": b[:80], "json": c[:80]})
        ctx.count("compared_flat")
        ctx.count("compared_json")
        ctx.count("disagree")
        ctx.violation("original-unformattable-flattened-formats",
                      "the original event does not format (generic 'Unable to format event' text) although its flattened / JSON form does",
                      {"case": idx, "format": fmt, "values": case["values"], "expected(original)": t0[-300:], "observed(flattened)": t1[:300],
                       "observed(json)": t2[:300], "culprit_fields": culprits[:4], "recipe": case})
        return
    ctx.count("compared_flat")
    ctx.count("compared_json")
    nf = sum(1 for k, _ in case["parts"] if k == "field")
    ctx.count("fields_total", nf)
    ctx.count("fields_repeated", nf - len(case["fields"]))
    uses = {}
    for kind, x in case["parts"]:
        if kind == "field":
            uses[x] = uses.get(x, 0) + 1
    if case.get("reentrant"):
        ctx.count("reentrant_flatten_between_repeats")
    if any(r[0] in ("reflat", "callflat") for k, r in case["values"]):
        ctx.count("cases_with_reflattening_values")
    for i, f in enumerate(case["fields"]):
        sh = f.get("shape", "")
        if sh:
            ctx.seen("path_shapes", sh)
        if any(seg in COLLIDE for seg in _SEGMENTS.findall(f["name"])):
            ctx.count("fields_with_wrapper_colliding_attribute_names")
        if sh.endswith("C") and sh.count("C") == 1 and "I" in sh:
            ctx.count("fields_terminal_call_after_index_path")   # {a[0].m()}, {a.x[k].m()}, {a[k][0].m()} ...
        if len(sh.replace("C", "")) >= 3:
            ctx.count("fields_path_3plus")
        if f.get("counter") and uses.get(i, 0) > 1:
            ctx.count("repeated_counter_calls")
        if f["haspath"]:
            ctx.count("fields_with_path")
        if f.get("emptytext"):
            ctx.count("fields_nonnative_value_with_empty_text", uses.get(i, 0))
            if f["ncalls"]:
                ctx.count("fields_nonnative_empty_text_from_call")
        if f["ncalls"] and not f["mid"]:
            ctx.count("fields_end_call")
        if f["mid"]:
            ctx.count("fields_mid_call")
        if f["spec"]:
            ctx.count("fields_with_spec")
        if f["conv"]:
            ctx.count("fields_conv_" + f["conv"])
    d0, d2 = decoration(case)
    ctx.count("compared_decoration")
    if d0 != d2:
        ctx.violation("json-decoration-mismatch", "timestamp/system text differs after the JSON round trip",
                      {"case": case, "expected": d0, "observed_after_json": d2})
    if t0 == t1 == t2:
        ctx.count("agree")
        return
    ctx.count("disagree")
    base = {"case": idx, "format": fmt, "values": case["values"], "expected(original)": t0,
            "observed(flattened)": t1, "observed(json)": t2, "recipe": case}
    override = {}
    for i, f in enumerate(case["fields"]):
        a, b, c = three(case, ftext(f))
        if a == b == c:
            continue
        w = dict(base, culprit_field=ftext(f), field_original=a, field_flattened=b, field_json=c)
        if f["mid"]:
            if b.startswith("RAISED") and c.startswith("RAISED") and "()" in b:
                ctx.violation(FEATURE_KEY["mid"], "flattenEvent/eventAsJSON raise for a field with a () call followed by more path "
                              "(the original formats it)", w)
                override[i] = "M"
                continue
            override[i] = "M"
            ctx.violation("flatten-text-mismatch" if a != b else "json-text-mismatch",
                          "a mid-path-call field formats differently after flattening/JSON, but not by flattenEvent raising on the '()' name", w)
            continue
        ex = explain_field(case, f)
        if ex is None and a == "" and not (b if b != "" else c).startswith(("Unable to format", "MESSAGE LOST", "RAISED")):
            # the field's own text is the empty string in the original, but not after flattening / JSON
            override[i] = "U"
            ctx.violation("flatten-empty-field-text-lost" if b != "" else "json-empty-field-text-lost",
                          "a field whose text is the empty string (captured as '' when the event was flattened) renders as "
                          "something else after flattening / the JSON round trip", w)
            continue
        if ex is None:
            override[i] = "U"
            ctx.violation("flatten-text-mismatch" if a != b else "json-text-mismatch",
                          "a single field formats differently after flattening/JSON and none of the known features explains it", w)
            continue
        sub, txt = ex
        override[i] = txt
        for feat in sub:
            ctx.violation(FEATURE_KEY[feat], {"spec": "the format spec of a field is ignored after flattening (str(value) is stored)",
                                              "conva": "a field with !a cannot be formatted after flattening (KeyError on the flattened key)",
                                              "custom": "a value with its own __format__ is rendered with str() after flattening"}[feat],
                          dict(w, agrees_when_written_as=txt, features_removed=sub))
    # residue: with every culprit neutralised the whole format must agree (repeated keys, literals, ...)
    r0, r1, r2 = three(case, render(case, override))
    ctx.count("residue_checks")
    if not (r0 == r1 == r2):
        ctx.violation("flatten-text-mismatch" if r0 != r1 else "json-text-mismatch",
                      "event formats differently after flattening / JSON round trip (not explained by per-field defects)",
                      dict(base, neutralised_format=render(case, override), neutralised_original=r0, neutralised_flattened=r1, neutralised_json=r2))


def run(ctx):
    for i in ctx.cases(30000, 1500000):
        rng = ctx.case_rng(i)
        case = g_case(rng)
        check_case(ctx, case, i)
        ctx.evaluated()
        ctx.distinct((render(case), case["values"]))
        if i < 4:
            t = three(case, render(case))
            ctx.sample({"case": i, "format": render(case), "values": case["values"], "original": t[0], "flattened": t[1], "json": t[2]})
    if ctx.counters.get("premise_failed", 0) * 50 > max(1, ctx.counters.get("compared_flat", 0)):
        ctx.inconclusive("more than 2% of the generated events do not format in the original (generator premise broken)")


def replay(ctx, w):
    check_case(ctx, w["witness"]["recipe"] if "recipe" in w["witness"] else w["witness"]["case"])
