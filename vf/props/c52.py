"""C52 Atomic file replacement keeps old or new content at every crash point — E3 enumeration.

Two operations are put under crash-point enumeration on a real scratch directory:

* `FilePath(target).setContent(new, ext)` — target existing / missing, str and bytes paths, default
  and custom `ext`, contents 0..64 KiB;
* `sob.Persistent(obj, name).save(tag=…, filename=…)` — styles pickle and source, plain data
  objects and a real `service.Application` with child services ("a persisted application").

For each case a count pass numbers the mutating filesystem calls of the operation, then the
directory is restored and the operation is re-run once per (call index, torn-write length); at that
point the process "dies" (every later filesystem call raises `Crash` without executing).

Oracle, decided on the left-over directory: the target path holds byte-for-byte the complete old
content (or does not exist if it did not) or the complete new content (for source-style
Applications, whose aot output is not reproducible from save to save, "complete new content" is what
the observed run wrote to one file and closed before the crash); an unrelated sibling
file is untouched; every other directory entry is a temporary: for setContent a name of the form
<16 chars><basename><ext> (the documented shape of `temporarySibling`), for sob a path that the
crash-free run created and removed itself.  Finally the same operation is repeated without a crash
on the left-over directory and must produce exactly the new content ("usable after reboot").

Containment: every path handed to twisted lives under one mkdtemp() top and ALL target code (also the
crash-free phases and the reboots) runs inside a FaultFS, which refuses — without executing — any
mutating filesystem call outside that top and reports it as `filesystem-call-outside-scratch`.

Earlier generations: half of the cases do not start from a clean directory — before the enumerated
save either stale/foreign files of arbitrary content (mostly LONGER than the new content) are planted
at the paths the operation uses as temporaries, or a save of a LARGER content is run first and dies
after all its bytes reached the temporary; nothing is cleaned, then the (smaller) save is enumerated
as usual: count pass, completed check, every crash point, redo.  open() flags are modelled by the
real filesystem (`open(..., "wb")` truncates, `os.open` without O_TRUNC + fdopen does not).

Guards: which of old/new survives is never constrained; expected new bytes for `sob` are taken from
a crash-free save of the same object in a separate directory when two such saves agree, otherwise
from the writes of the observed run itself.  The oracle is on BYTES only: whether `sob.load` gives
back an equal object is serialisation fidelity (aot has an id()-reuse defect that occasionally emits
a dangling `Deref`), counted as `serialisation_unfaithful_not_c52`, never a C52 violation.
"""
import os
import shutil
import tempfile

from vf.engines.fsfault import Crash, FaultFS, crash_points, report_escapes, restore_tree, selftest_or_inconclusive, snapshot_tree

LEVEL = "fault_enumeration"
ENGINE = "E3-fsfault"
TECHNIQUE = "runtime monitoring: old-or-new content oracle on the target path after a simulated crash at every filesystem call / torn write"
RULE = ("case = (operation kind [setContent | sob pickle | sob source | sob Application], target "
        "existing/missing, old and new content with unique ids, ext/tag/filename variant, crash point "
        "(call index k, torn length L in {0,1,n/2,n-1,n}, all when n <= 16)).  Distinct by "
        "(case parameters, k, L); non-trivial = the crash fired inside the operation.")
ASSUMPTIONS = [
    "trusted base: vf/engines/fsfault.py (interception and buffered-write model)",
    "POSIX rename() atomically replaces the destination (the real rename of the scratch filesystem is used); the win32 branches are not exercised",
    "process crash at filesystem-call granularity plus torn writes; power loss is not modelled",
]
SHARDS = {"quick": 4, "thorough": 16}
FLOORS = {"crash_runs": 300, "target_checks": 300, "torn_write_points": 40, "old_kept": 30, "completed_new_verified": 30,
          "setcontent_cases": 20, "sob_cases": 20, "leftover_temp_cases": 40, "saves_over_longer_leftover": 30, "crashed_larger_save_generations": 20, "sob_loads_compared": 50, "temp_left_behind": 30, "target_missing_before": 5}
READY = True

SIZES = [0, 1, 2, 15, 16, 17, 100, 1000, 8191, 8192, 8193, 65536]


def content(rng, tag):
    n = rng.choice(SIZES)
    head = b"<%s>" % tag
    body = bytes(rng.randrange(256) for _ in range(37)) * (n // 37 + 1)
    return (head + body)[:n] if n >= len(head) or rng.random() < 0.5 else head


def gen_obj(rng, uid, depth=0):
    r = rng.random()
    if depth > 2 or r < 0.35:
        return rng.choice([uid, -uid * 7, "s%d€" % uid, b"b%d\x00\xff" % uid, 2.5 * uid, None, True, "x" * rng.choice([0, 10, 3000])])
    if r < 0.6:
        return [gen_obj(rng, uid * 3 + i, depth + 1) for i in range(rng.randrange(0, 5))]
    if r < 0.85:
        return {("k%d" % i if rng.random() < 0.7 else i): gen_obj(rng, uid * 5 + i, depth + 1) for i in range(rng.randrange(0, 5))}
    return tuple(gen_obj(rng, uid * 7 + i, depth + 1) for i in range(rng.randrange(0, 4)))


class Base:
    """One case: prepare(), op(), the target path, old bytes (None = missing), new bytes."""

    kind = "?"

    def __init__(self, ctx, rng, case_id):
        self.ctx, self.rng, self.case_id = ctx, rng, case_id
        self.root = os.path.realpath(tempfile.mkdtemp(prefix="vf_c52_"))
        self.dir = os.path.join(self.root, "d")
        os.mkdir(self.dir)
        self.sentinel = os.path.join(self.dir, "unrelated.dat")
        with open(self.sentinel, "wb") as f:
            f.write(b"sentinel-%d" % case_id)
        self.temp_paths = set()

    def witness(self, point, extra=None):
        w = {"case": self.case_id, "kind": self.kind, "params": self.params, "crash_point": point,
             "left_over": sorted(os.listdir(self.dir)), "old_len": None if self.old is None else len(self.old), "new_len": len(self.new)}
        w.update(extra or {})
        return w

    def is_temp(self, name):
        return os.path.join(self.dir, name) in self.temp_paths

    def load_equal(self, point, crashed, got):
        return None

    def read_target(self):
        try:
            with open(self.target, "rb") as f:
                return f.read()
        except FileNotFoundError:
            return None

    # ---- what did the run under observation finish writing? -----------------------------------------
    def guarded(self):
        """A FaultFS whose call hook records, per path, the bytes handed to write() since its last
        open-for-write and whether close() was issued afterwards."""
        self.written, self.closed = {}, set()

        def on_call(k, kind, detail, data):
            if kind in ("open", "os.open"):
                self.written[detail[0]] = bytearray()
                self.closed.discard(detail[0])
            elif kind == "write" and detail[0] in self.written:
                self.written[detail[0]] += data if isinstance(data, (bytes, bytearray)) else data.encode("utf-8")
            elif kind == "close":
                self.closed.add(detail[0])

        return FaultFS(self.root, on_call=on_call)

    def complete_new(self):
        """The complete new content.  Deterministic serialisations: the reference bytes.  Otherwise
        (source-style Applications: twisted's aot output differs from save to save) it is defined at
        the filesystem boundary: everything the observed run wrote to one file and then closed."""
        if self.compare_bytes:
            return [self.new]
        return [bytes(self.written[p]) for p in self.written if p in self.closed]

    def check(self, point, crashed):
        ctx = self.ctx
        ctx.count("target_checks")
        got = self.read_target()
        news = self.complete_new()
        allowed = news if not crashed else [self.old] + news
        ref_new = news[0] if news else None
        if got not in allowed:
            if got is None:
                key = "target-lost"
            elif ref_new is None:
                key = "target-changed-before-new-content-was-complete"
            elif got != ref_new and ref_new.startswith(got):
                key = "partial-new-content-at-target"
            elif got.startswith(ref_new):
                key = "new-content-followed-by-stale-tail-of-leftover-temporary"
            elif self.old is not None and got != self.old and self.old.startswith(got):
                key = "truncated-old-content-at-target"
            else:
                key = "target-neither-old-nor-new"
            ctx.violation(key if (crashed or "stale-tail" in key) else "completed-op-wrong-content", "target path holds neither the complete old nor the complete new content",
                          self.witness(point, {"got_len": None if got is None else len(got), "got_head": None if got is None else got[:60]}))
        elif crashed:
            ctx.count("old_kept" if got == self.old else "new_kept")
        else:
            ctx.count("completed_new_verified")
        if got in allowed:
            with FaultFS(self.root):
                self.load_equal(point, crashed, got)
        with open(self.sentinel, "rb") as f:
            if f.read() != b"sentinel-%d" % self.case_id:
                ctx.violation("unrelated-file-damaged", "a sibling file was modified", self.witness(point))
        tname = os.path.basename(self.target)
        for name in os.listdir(self.dir):
            if name in (tname, "unrelated.dat"):
                continue
            if self.is_temp(name):
                ctx.count("temp_left_behind")
            else:
                ctx.violation("non-temporary-file-left-behind", "a file that is not a temporary of the operation was left behind", self.witness(point, {"name": name}))

    def discover_temps(self):
        """One crash-free run on the pristine directory: which paths does the operation use as
        temporaries (opened for writing, gone afterwards)?  Restores the directory."""
        fs = FaultFS(self.root)
        with fs:
            self.op()
        temps = [d[0] for _, kind, d, _ in fs.log if kind in ("open", "os.open") and d[0] != self.target and not os.path.exists(d[0])]
        restore_tree(self.dir, self.pristine)
        return temps

    def plant_leftovers(self):
        """Earlier generations: the directory the enumerated save starts from may already hold
        temporaries — (a) stale/foreign files of arbitrary content at the temporary's path, or
        (b) what a crashed save of a LARGER content left there (target still old).  The pristine
        snapshot for the enumeration is taken afterwards; nothing is cleaned in between."""
        ctx, rng = self.ctx, self.rng
        self.leftover = rng.choice(["none", "garbage", "crashed-larger-save", "crashed-larger-save"])
        self.params["leftover"] = self.leftover
        if self.leftover == "garbage":
            temps = self.discover_temps()
            for t in temps:
                n = len(self.new) + rng.choice([-len(self.new) // 2, 1, 7, 100, 5000])
                with open(t, "wb") as f:
                    f.write(bytes(rng.randrange(256) for _ in range(64)) * (max(n, 1) // 64 + 1))
                self.temp_paths.add(t)
                ctx.count("leftover_temp_cases")
                if os.path.getsize(t) > len(self.new):
                    ctx.count("saves_over_longer_leftover")
        elif self.leftover == "crashed-larger-save":
            with FaultFS(self.root):
                big = self.make_big()
            count = FaultFS(self.root)
            with count:
                big()
            restore_tree(self.dir, self.pristine)
            # die late in the larger save: everything written has reached the temporary
            late = [k for k, kind, _, _ in count.log if kind in ("rename", "replace")] or [len(count.log) - 1]
            k = late[0] if rng.random() < 0.7 else max(0, late[0] - 1)
            plen = count.log[k][3]
            fs = FaultFS(self.root).arm(k, plen)
            with fs:
                try:
                    big()
                except Crash:
                    pass
            if not fs.crashed:
                ctx.inconclusive("C52: crash point of the earlier larger save not reached")
                return
            if self.read_target() != self.old:
                return  # the earlier generation itself is judged by its own cases; start from what it left
            left = [n for n in os.listdir(self.dir) if n not in (os.path.basename(self.target), "unrelated.dat")]
            for n in left:
                self.temp_paths.add(os.path.join(self.dir, n))
                ctx.count("leftover_temp_cases")
                if os.path.getsize(os.path.join(self.dir, n)) > len(self.new):
                    ctx.count("saves_over_longer_leftover")
            ctx.count("crashed_larger_save_generations")
        self.pristine = snapshot_tree(self.dir)

    def run(self):
        ctx = self.ctx
        try:
            with FaultFS(self.root):  # unarmed: containment guard for the crash-free preparation
                self.prepare()
            if self.old is None:
                ctx.count("target_missing_before")
            self.pristine = snapshot_tree(self.dir)
            self.plant_leftovers()
            before = set(os.listdir(self.dir))
            count = self.guarded()
            with count:
                self.op()
            # temporaries = paths the crash-free run opened/created for writing and removed itself
            for _, kind, detail, _ in count.log:
                if kind in ("open", "os.open") and detail[0] != self.target and not os.path.exists(detail[0]):
                    self.temp_paths.add(detail[0])
            for _, kind, _, _ in count.log:
                ctx.seen("op_calls_" + self.kind, kind)
            ctx.count(self.kind.split("-")[0] + "_cases")
            self.check(("completed",), False)
            if set(os.listdir(self.dir)) - before - {os.path.basename(self.target)}:
                ctx.violation("completed-op-left-files", "the crash-free operation left extra files", self.witness(("completed",)))
            pts = crash_points(count.log)
            for k, plen in pts:
                restore_tree(self.dir, self.pristine)
                fs = self.guarded().arm(k, plen)
                with fs:
                    try:
                        self.op()
                    except Crash:
                        pass
                if not fs.crashed:
                    ctx.inconclusive("C52: crash point not reached on re-execution")
                    continue
                kind = count.log[k][1]
                ctx.count("crash_runs")
                ctx.count("crash_at_" + kind)
                if count.log[k][3] and 0 < plen < count.log[k][3]:
                    ctx.count("torn_write_points")
                ctx.evaluated()
                ctx.distinct((self.case_id, self.kind, k, plen))
                point = (k, kind, plen)
                self.check(point, True)
                # reboot: the same operation, crash-free, on the left-over directory
                try:
                    with self.guarded():
                        self.op()
                    ctx.count("redo_after_crash")
                    if self.read_target() not in self.complete_new():
                        ctx.violation("redo-after-crash-wrong-content", "repeating the operation after the crash did not produce the new content", self.witness(point))
                except Exception as e:
                    ctx.violation("redo-after-crash-raised", "repeating the operation on the left-over directory raised", self.witness(point, {"exception": repr(e)}))
            ctx.sample({"kind": self.kind, "params": self.params, "calls": [(k, kind, pend) for k, kind, _, pend in count.log], "crash_points": len(pts)})
        finally:
            shutil.rmtree(self.root, ignore_errors=True)
            report_escapes(ctx, self.case_id)


class SetContent(Base):
    kind = "setcontent"
    compare_bytes = True

    def prepare(self):
        from twisted.python.filepath import FilePath

        rng = self.rng
        exists = rng.random() < 0.7
        self.ext = rng.choice([None, ".new", ".tmp", b".b", ""])
        bytes_path = rng.random() < 0.3
        base = rng.choice(["target", "t.txt", "a b", "café.cfg"])
        self.target = os.path.join(self.dir, base)
        self.old = content(rng, b"old%d" % self.case_id) if exists else None
        self.new = content(rng, b"new%d" % self.case_id)
        if self.old == self.new:
            self.new += b"!"
        if exists:
            with open(self.target, "wb") as f:
                f.write(self.old)
        self.fp = FilePath(os.fsencode(self.target) if bytes_path else self.target)
        self.params = {"exists": exists, "ext": self.ext, "bytes_path": bytes_path, "basename": base}

    def make_big(self):
        big = self.new + b"<bigger earlier generation>" * 40 + bytes(self.rng.randrange(256) for _ in range(300))
        return (lambda: self.fp.setContent(big)) if self.ext is None else (lambda: self.fp.setContent(big, self.ext))

    def op(self):
        if self.ext is None:
            self.fp.setContent(self.new)
        else:
            self.fp.setContent(self.new, self.ext)

    def is_temp(self, name):
        ext = ".new" if self.ext is None else os.fsdecode(self.ext)
        tail = os.path.basename(self.target) + ext
        return name.endswith(tail) and len(name) == 16 + len(tail)



class Sob(Base):
    kind = "sob"
    compare_bytes = True

    def make_objects(self):
        rng = self.rng
        old = gen_obj(rng, self.case_id * 2 + 1)
        new = gen_obj(rng, self.case_id * 2 + 2)
        if old == new:
            new = [new, "changed"]
        return old, new

    def same(self, a, b):
        return a == b and type(a) is type(b)

    def persistent(self, obj, name):
        from twisted.persisted import sob

        p = sob.Persistent(obj, name)
        p.setStyle(self.style)
        return p

    def prepare(self):
        from twisted.persisted import sob

        self.sob = sob
        rng = self.rng
        self.style = "pickle" if self.case_id % 2 == 0 else "source"
        self.kind = "sob-" + self.style + self.suffix
        exists = rng.random() < 0.75
        self.tag = rng.choice([None, None, "tag"])
        self.filename = os.path.join(self.dir, rng.choice(["custom.tap", "snap"])) if rng.random() < 0.3 else None
        ext = "tap" if self.style == "pickle" else "tas"
        name = os.path.join(self.dir, "app")
        self.target = self.filename or (name + ("-" + self.tag if self.tag else "") + "." + ext)
        self.old_obj, self.new_obj = self.make_objects()
        self.params = {"style": self.style, "exists": exists, "tag": self.tag, "filename": self.filename and os.path.basename(self.filename),
                       "old": repr(self.old_obj)[:120], "new": repr(self.new_obj)[:120]}
        # guards: both objects must round-trip without any crash; the expected new bytes are what
        # the SAME Persistent object writes crash-free elsewhere (twice, to confirm determinism)
        ref = os.path.join(self.root, "ref")
        os.mkdir(ref)
        for label, obj in (("old", self.old_obj), ("new", self.new_obj)):
            fn = os.path.join(ref, label)
            self.persistent(obj, os.path.join(ref, "x")).save(filename=fn)
            if not self.same(sob.load(fn, self.style), obj):
                raise SkipCase("clean save/load does not round-trip this object: %r" % (obj,))
        self.p = self.persistent(self.new_obj, name)
        blobs = []
        for rep in range(2):
            fn = os.path.join(ref, "new%d" % rep)
            self.p.save(filename=fn)
            with open(fn, "rb") as f:
                blobs.append(f.read())
        self.new = blobs[0]
        self.compare_bytes = blobs[0] == blobs[1]
        if not self.compare_bytes:
            self.ctx.count("sob_bytes_not_deterministic_reference_from_observed_writes")
        self.old = None
        if exists:
            self.persistent(self.old_obj, name).save(tag=self.tag, filename=self.filename)
            self.old = self.read_target()
        shutil.rmtree(ref)

    def bigger(self, obj):
        return [obj, "earlier, larger generation " * 60, list(range(200))]

    def make_big(self):
        p = self.persistent(self.bigger(self.new_obj), os.path.join(self.dir, "app"))
        return lambda: p.save(tag=self.tag, filename=self.filename)

    def op(self):
        self.p.save(tag=self.tag, filename=self.filename)

    def load_equal(self, point, crashed, got):
        """Informational only (the target already holds complete old or complete new BYTES): does
        sob.load give back the object that was saved?  A mismatch is a serialisation defect of
        twisted.persisted.aot / pickle, not a failure of atomic replacement, so it is counted and
        described in the evidence but never a C52 violation."""
        if got is None:
            return
        try:
            back = self.sob.load(self.target, self.style)
        except Exception as e:
            self.ctx.count("serialisation_unfaithful_not_c52")
            self.ctx.seen("serialisation_unfaithful", "load raised %s (%s)" % (type(e).__name__, self.kind))
            return
        self.ctx.count("sob_loads_compared")
        if not (self.same(back, self.new_obj) or (self.old is not None and self.same(back, self.old_obj))):
            self.ctx.count("serialisation_unfaithful_not_c52")
            self.ctx.seen("serialisation_unfaithful", "loaded object differs from the saved one (%s)" % self.kind)


class SobApp(Sob):
    """A real twisted Application with child services, saved through its IPersistable adapter."""

    suffix = "-application"

    def make_objects(self):
        return ("old%d" % self.case_id, ["svc-a", "svc-b"]), ("new%d" % self.case_id, ["svc-c"] + ["svc%d" % i for i in range(self.rng.randrange(0, 4))])

    def bigger(self, desc):
        return (desc[0] + "-earlier", list(desc[1]) + ["extra-service-%d" % i for i in range(40)])

    def build(self, desc):
        from twisted.application import service

        app = service.Application(desc[0])
        for n in desc[1]:
            s = service.Service()
            s.setName(n)
            s.setServiceParent(app)
        return app

    def describe(self, app):
        from twisted.application import service

        return (service.IService(app).name, [s.name for s in service.IServiceCollection(app)])

    def same(self, a, b):
        da = a if isinstance(a, tuple) else self.describe(a)
        db = b if isinstance(b, tuple) else self.describe(b)
        return da == db

    def persistent(self, desc, name):
        from twisted.persisted import sob

        p = sob.IPersistable(self.build(desc))
        p.name = name
        p.setStyle(self.style)
        return p


Sob.suffix = ""


class SkipCase(Exception):
    pass


def run_case(ctx, i):
    rng = ctx.case_rng("case", i)
    cls = (SetContent, Sob, SetContent, SobApp, SetContent, Sob)[i % 6]
    case = cls(ctx, rng, i)
    try:
        case.run()
    except SkipCase as e:
        ctx.count("cases_skipped_by_guard")
        ctx.seen("skip_reasons", str(e)[:100])


def run(ctx):
    if not selftest_or_inconclusive(ctx):
        return
    for i in ctx.cases(500, 20000):
        run_case(ctx, i)


def replay(ctx, w):
    run_case(ctx, w["witness"]["case"])
