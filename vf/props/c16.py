"""C16 Framed-message receivers: segmentation invariance and exact length limits.

Monitored (twisted.protocols.basic): LineOnlyReceiver, LineReceiver (line/raw switches, pause),
NetstringReceiver, Int8/16/32StringReceiver.  A small deterministic application sits on top: line
`C` requests close, `P` pauses (the harness resumes after the delivery returns), `R<n>` switches to
raw mode for n bytes and back with setLineMode(rest).  Events recorded at the API boundary
(lineReceived / rawDataReceived / stringReceived / lineLengthExceeded / lengthLimitExceeded /
transport.loseConnection), cut at the first close request.

Oracles: (1) a reference framer per protocol run on the whole stream; (2) the real receiver fed the
stream whole vs. fed every split yields the same events; (3) sendLine/sendString -> receiver gives
exactly the sent messages, sendString refuses unrepresentable lengths.

Guards (latitude the statement leaves): raw data is compared as a concatenation, never by chunking;
the argument of lineLengthExceeded is not compared; an *unterminated* tail may be reported as
oversize only when it is certain to exceed (tail minus its longest suffix that is a proper prefix
of the delimiter is longer than MAX_LENGTH) and then either behaviour is accepted; a netstring
stream ending in `<digits>\\n` may or may not be closed yet (the `$` of the partial-length regex
matches before a final newline; the next byte decides); raw events are recorded when the
application callback *returns* (after setLineMode(rest)) so that re-entrant delivery is visible.
Re-entrant application calls: `T` = pauseProducing()+resumeProducing() inside lineReceived /
stringReceived, `X<n>`/`Q<n>` = raw mode for n bytes, then loseConnection() / pauseProducing() from
inside rawDataReceived; a delivery made while another delivery callback is still on the stack is
recorded as a `nested` event (the reference never has one).  Re-use of an instance for a second
connection is judged for NetstringReceiver only (its makeConnection re-initialises by contract).
"""
import itertools

from vf.engines.netsim import SimTransport, random_split

LEVEL = "exploration"
ENGINE = "E2-netsim"
TECHNIQUE = "runtime monitoring: reference framer + whole-vs-split differential on the real receivers"
RULE = ("grammar-generated streams per receiver and (MAX_LENGTH, delimiter) configuration: items with "
        "lengths MAX-1/MAX/MAX+1 around the limit, partial delimiters inside lines, command lines "
        "(close/pause/raw n), unterminated tails around MAX and MAX+len(delimiter), invalid netstrings "
        "(leading zeros, missing comma, MAX+1, 7+ digit lengths), IntN prefixes at MAX+-1; every split "
        "into <=3 pieces for streams <=40 bytes, every 2-piece split <=400 bytes, cuts at framing-"
        "relevant offsets and random splits otherwise.  A case is distinct by (receiver, config, "
        "stream) and non-trivial when the reference produces at least one event; (stream, split) "
        "pairs are counted separately in split_runs.")
ASSUMPTIONS = ["trusted base: the reference framers in this module (lines split at the first delimiter; "
               "netstring [1-9][0-9]*|0 ':' payload ','; big-endian length prefixes)",
               "a paused receiver gets no further dataReceived until resumeProducing (as a TCP transport behaves)",
               "Int32 sendString refusal is exercised with a bytes subclass reporting len()==2**32 (a 4 GiB string is not built)"]
SHARDS = {"quick": 4, "thorough": 16}
FLOORS = {"split_runs": 20000, "ref_compares": 20000, "lines_at_max": 200, "oversize_expected": 200,
          "delimiter_split_runs": 500, "sendrecv_messages": 500, "send_refusals": 3,
          "raw_switches": 100, "pauses": 100, "netstring_invalid": 100, "reentrant_toggles": 300, "raw_then_close_or_pause": 50,
          "reuse_runs_judged": 300}
READY = True

KINDS = ("lineonly", "line", "netstring", "int8", "int16", "int32")
DELIMS = (b"\r\n", b"\n", b"ab")
LINE_MAX = (1, 2, 10, 64, 16384)
NET_MAX = (1, 2, 10, 64, 100, 99999)
INT_MAX = {"int8": (1, 2, 10, 64, 254, 99999), "int16": (1, 2, 10, 64, 1000, 99999), "int32": (1, 2, 10, 64, 99999)}
NBYTES = {"int8": 1, "int16": 2, "int32": 4}


# ------------------------------------------------------------------------------------------------
# application layer shared by the reference and the real receivers
def interpret(line):
    if line == b"C":
        return "close"
    if line == b"P":
        return "pause"
    if line == b"T":
        return "toggle"  # pauseProducing() immediately followed by resumeProducing(), inside the callback
    if len(line) >= 2 and line[:1] in b"RXQ" and line[1:].isdigit() and len(line) <= 4:
        n = int(line[1:])
        if n > 0:  # raw mode for n bytes; X: then close, Q: then pause (both at the moment the raw data is complete)
            return (n, {b"R": "", b"X": "close", b"Q": "pause"}[line[:1]])
    return None


class _T:
    """Minimal transport: records the first close request; pause/resume are no-ops."""
    disconnecting = False

    def __init__(self, ev):
        self.ev = ev
        self.wrote = []

    def loseConnection(self):
        if not self.disconnecting:
            self.disconnecting = True
            self.ev.append(("close",))

    def write(self, data):
        self.wrote.append(bytes(data))

    def writeSequence(self, seq):
        for d in seq:
            self.write(d)

    def pauseProducing(self):
        pass

    def resumeProducing(self):
        pass

    def stopProducing(self):
        self.loseConnection()


_classes = {}


def _build_classes():
    from twisted.protocols import basic

    class LineOnly(basic.LineOnlyReceiver):
        def lineReceived(self, line):
            self.ev.append(("line", line))
            if interpret(line) == "close":
                self.transport.loseConnection()

        def lineLengthExceeded(self, line):
            self.ev.append(("exceeded", bytes(line)))
            return basic.LineOnlyReceiver.lineLengthExceeded(self, line)

    class Line(basic.LineReceiver):
        remaining = 0
        after = ""
        depth = 0

        def lineReceived(self, line):
            if self.depth:
                self.ev.append(("nested",))  # delivered while another delivery callback is still running
            self.ev.append(("line", line))
            if self.depth:
                return
            self.depth += 1
            try:
                c = interpret(line)
                if c == "close":
                    self.transport.loseConnection()
                elif c == "pause":
                    self.pauseProducing()
                elif c == "toggle":
                    self.pauseProducing()
                    self.resumeProducing()
                elif c is not None:
                    self.remaining, self.after = c
                    self.setRawMode()
            finally:
                self.depth -= 1

        def rawDataReceived(self, data):
            if self.depth:
                self.ev.append(("nested",))
            self.depth += 1
            try:
                take, rest = data[: self.remaining], data[self.remaining:]
                self.remaining -= len(take)
                if self.remaining == 0:
                    if self.after == "close":
                        self.ev.append(("raw", take))
                        self.setLineMode(rest)
                        self.transport.loseConnection()
                        return
                    self.setLineMode(rest)
                    if self.after == "pause":
                        self.pauseProducing()
                self.ev.append(("raw", take))  # at exit on purpose (see module docstring)
            finally:
                self.depth -= 1

        def lineLengthExceeded(self, line):
            self.ev.append(("exceeded", bytes(line)))
            return basic.LineReceiver.lineLengthExceeded(self, line)

    class Net(basic.NetstringReceiver):
        def stringReceived(self, s):
            self.ev.append(("string", s))
            if s == b"C":
                self.transport.loseConnection()

    def intn(base):
        class IntN(base):
            depth = 0

            def stringReceived(self, s):
                if self.depth:
                    self.ev.append(("nested",))
                self.ev.append(("string", s))
                if self.depth:
                    return  # a nested delivery is already a violation; do not recurse further
                self.depth += 1
                try:
                    if s == b"C":
                        self.transport.loseConnection()
                    elif s == b"P":
                        self.pauseProducing()
                    elif s == b"T":
                        self.pauseProducing()
                        self.resumeProducing()
                finally:
                    self.depth -= 1

            def lengthLimitExceeded(self, length):
                self.ev.append(("exceeded", length))
                return base.lengthLimitExceeded(self, length)
        return IntN

    _classes.update({"lineonly": LineOnly, "line": Line, "netstring": Net,
                     "int8": intn(basic.Int8StringReceiver), "int16": intn(basic.Int16StringReceiver),
                     "int32": intn(basic.Int32StringReceiver), "basic": basic})


def make(kind, cfg):
    if not _classes:
        _build_classes()
    p = _classes[kind]()
    p.ev = []
    p.MAX_LENGTH = cfg[0]
    if kind in ("lineonly", "line"):
        p.delimiter = cfg[1]
    t = _T(p.ev)
    p.makeConnection(t)
    return p, t


def normalize(kind, ev):
    """Cut at the first close, merge raw chunks, drop the oversize argument for line receivers."""
    out = []
    for e in ev:
        if e[0] == "raw":
            if not e[1]:
                continue
            if out and out[-1][0] == "raw":
                out[-1] = ("raw", out[-1][1] + e[1])
            else:
                out.append(e)
        elif e[0] == "exceeded" and kind in ("lineonly", "line"):
            out.append(("exceeded",))
        else:
            out.append(e)
        if e[0] in ("close", "exception"):
            break
    return out


def run_real(kind, cfg, pieces):
    """Feed the pieces to a fresh receiver.  Returns (normalized events, raw event list, pauses)."""
    p, t = make(kind, cfg)
    pauses = 0
    for piece in pieces:
        if t.disconnecting:
            break
        try:
            p.dataReceived(piece)
            guard = 0
            while getattr(p, "paused", False) and not t.disconnecting and guard < 10000:
                pauses += 1
                guard += 1
                p.resumeProducing()
        except Exception as e:  # a receiver must not raise on any input
            p.ev.append(("exception", "%s: %s" % (type(e).__name__, e)))
            break
    return normalize(kind, p.ev), p.ev, pauses


# ------------------------------------------------------------------------------------------------
# reference framers: (events, optional_tail_events)
def proper_prefix_suffix(tail, delim):
    for k in range(len(delim) - 1, 0, -1):
        if tail.endswith(delim[:k]):
            return k
    return 0


def ref_lines(stream, maxlen, delim, full):
    """full=False: LineOnlyReceiver application (close only).  Returns (events, may_exceed_tail)."""
    ev = []
    i, n = 0, len(stream)
    while i < n:
        j = stream.find(delim, i)
        if j < 0:
            tail = stream[i:]
            certain = len(tail) - proper_prefix_suffix(tail, delim) > maxlen
            return ev, certain
        line = stream[i:j]
        i = j + len(delim)
        if len(line) > maxlen:
            return ev + [("exceeded",), ("close",)], False
        ev.append(("line", line))
        c = interpret(line)
        if c == "close":
            return ev + [("close",)], False
        if full and isinstance(c, tuple):
            take = stream[i:i + c[0]]
            if take:
                ev.append(("raw", take))
            i += len(take)
            if len(take) == c[0] and c[1] == "close":
                return ev + [("close",)], False
    return ev, False


def ref_netstring(stream, maxlen):
    """Returns (events, close_is_optional)."""
    ev = []
    i, n = 0, len(stream)
    bad = [("close",)]
    while i < n:
        j = i
        while j < n and 48 <= stream[j] <= 57:
            j += 1
        digits = stream[i:j]
        if not digits:
            return ev + bad, False
        if len(digits) > 1 and digits[:1] == b"0":
            return ev + bad, False
        if len(digits) > 12 or int(digits) > maxlen:
            return ev + bad, False
        if j == n:
            return ev, False  # incomplete length
        if stream[j:j + 1] != b":":
            if stream[j:] == b"\n":
                return ev + bad, True
            return ev + bad, False
        length = int(digits)
        start = j + 1
        if n - start < length + 1:
            return ev, False  # incomplete payload
        if stream[start + length:start + length + 1] != b",":
            return ev + bad, False
        payload = stream[start:start + length]
        ev.append(("string", payload))
        if payload == b"C":
            return ev + [("close",)], False
        i = start + length + 1
    return ev, False


def ref_intn(stream, nbytes, maxlen):
    ev = []
    i, n = 0, len(stream)
    while n - i >= nbytes:
        length = int.from_bytes(stream[i:i + nbytes], "big")
        if length > maxlen:
            return ev + [("exceeded", length), ("close",)]
        if n - i - nbytes < length:
            break
        payload = stream[i + nbytes:i + nbytes + length]
        ev.append(("string", payload))
        if payload == b"C":
            return ev + [("close",)]
        i += nbytes + length
    return ev


def reference(kind, cfg, stream):
    """-> list of acceptable event sequences (first is the canonical one)."""
    if kind in ("lineonly", "line"):
        ev, may = ref_lines(stream, cfg[0], cfg[1], kind == "line")
        return [ev, ev + [("exceeded",), ("close",)]] if may else [ev]
    if kind == "netstring":
        ev, optional = ref_netstring(stream, cfg[0])
        return [ev, ev[:-1]] if optional else [ev]
    return [ref_intn(stream, NBYTES[kind], cfg[0])]


# ------------------------------------------------------------------------------------------------
# stream generators
def _content(rng, n, delim, alphabet):
    """n bytes that do not contain the delimiter; may contain single delimiter bytes."""
    for _ in range(20):
        b = bytes(rng.choice(alphabet) for _ in range(n))
        if delim not in b:
            return b
    return b"x" * n


def gen_line_stream(rng, kind, cfg):
    maxlen, delim = cfg
    alphabet = b"xyz" + delim + (b"CPTRQX1" if rng.random() < 0.3 else b"")
    items = []
    big = maxlen > 100
    nitems = rng.randint(1, 3 if big else 7)
    lens = [0, 1, maxlen - 1, maxlen, maxlen, maxlen + 1, maxlen + 2, maxlen + len(delim), maxlen + len(delim) - 1]
    for k in range(nitems):
        r = rng.random()
        if r < 0.12:
            items.append(b"C" + delim if rng.random() < 0.3 else (rng.choice([b"P", b"P", b"T", b"T"]) + delim if kind == "line" else b"x" + delim))
        elif r < 0.27 and kind == "line" and maxlen >= 2:
            n = rng.choice([1, 2, 3, 5, 9])
            raw = bytes(rng.choice(b"qw" + delim + b"\x00") for _ in range(rng.choice([n, n, n, max(0, n - 1)])))
            items.append(rng.choice([b"R", b"R", b"R", b"Q", b"Q", b"X"]) + b"%d" % n + delim + raw)
        else:
            L = rng.choice(lens) if rng.random() < 0.75 else rng.randint(0, min(maxlen + 3, 80))
            L = max(0, L)
            c = _content(rng, L, delim, alphabet)
            if L and rng.random() < 0.4 and len(delim) > 1:
                # end the content with a partial delimiter (e.g. "...\r" + "\r\n")
                c2 = c[:-1] + delim[:1]
                if delim not in c2 + delim[:-1]:
                    c = c2
            items.append(c + delim)
    if rng.random() < 0.45:
        # unterminated tail around the limits, possibly ending in a partial delimiter
        L = max(0, rng.choice([maxlen - 1, maxlen, maxlen + 1, maxlen + len(delim) - 1, maxlen + len(delim), maxlen + len(delim) + 1, 1, 3]))
        c = _content(rng, L, delim, b"xyz")
        if rng.random() < 0.5 and len(delim) > 1:
            c += delim[:rng.randint(1, len(delim) - 1)]
        items.append(c)
    return b"".join(items)


def _netstring(payload):
    return b"%d:" % len(payload) + payload + b","


def gen_net_stream(rng, cfg):
    maxlen = cfg[0]
    items = []
    for _ in range(rng.randint(0, 3 if maxlen > 100 else 6)):
        L = rng.choice([0, 1, maxlen - 1, maxlen, maxlen, min(maxlen, 3)]) if rng.random() < 0.8 else rng.randint(0, min(maxlen, 40))
        payload = bytes(rng.choice(b"ab,:019\n") for _ in range(max(0, L)))
        if rng.random() < 0.05:
            payload = b"C"[:maxlen]
        items.append(_netstring(payload))
    r = rng.random()
    if r < 0.55:
        bad = rng.choice(["over", "over-nopayload", "zeros", "zero0", "comma", "nodigit", "long", "huge", "colon",
                          "space", "newline", "minus", "trunc", "trunc-len", "trunc-comma"])
        if bad == "over":
            items.append(b"%d:" % (maxlen + 1) + b"x" * (maxlen + 1 if maxlen < 200 else 5) + b",")
        elif bad == "over-nopayload":
            items.append(b"%d" % (maxlen + rng.choice([1, 2, 10])))
        elif bad == "zeros":
            items.append(b"0" + _netstring(b"x" * min(maxlen, 3)))
        elif bad == "zero0":
            items.append(b"00:,")
        elif bad == "comma":
            p = b"y" * min(maxlen, rng.choice([0, 1, 5]))
            items.append(b"%d:" % len(p) + p + rng.choice([b";", b"x", b":", b"0"]) + b"tail")
        elif bad == "nodigit":
            items.append(rng.choice([b"x", b":", b",", b" 1:a,", b"\x00"]) + b"1:a,")
        elif bad == "long":
            items.append(b"1234567" + rng.choice([b"", b":", b":abc"]))
        elif bad == "huge":
            items.append(b"9" * rng.choice([8, 20, 50]) + rng.choice([b"", b":"]))
        elif bad == "colon":
            items.append(b":a,")
        elif bad == "space":
            items.append(b"1 :a,")
        elif bad == "newline":
            items.append(b"%d\n" % min(maxlen, 1) + rng.choice([b"", b":a,", b"\n"]))
        elif bad == "minus":
            items.append(b"-1:a,")
        elif bad == "trunc":
            p = b"z" * min(maxlen, 4)
            items.append((b"%d:" % len(p) + p)[: rng.randint(1, len(p) + 2)])
        elif bad == "trunc-len":
            items.append(b"%d" % maxlen)
        else:
            p = b"z" * min(maxlen, 2)
            items.append(b"%d:" % len(p) + p)
        if rng.random() < 0.3:
            items.append(_netstring(b"k"))
    return b"".join(items)


def gen_int_stream(rng, kind, cfg):
    maxlen = cfg[0]
    nb = NBYTES[kind]
    top = 256 ** nb - 1
    lim = min(maxlen, top)
    items = []
    for _ in range(rng.randint(0, 2 if lim > 1000 else 6)):
        L = rng.choice([0, 1, lim - 1, lim, lim, min(lim, 3)]) if rng.random() < 0.8 else rng.randint(0, min(lim, 40))
        L = max(0, L)
        payload = bytes(rng.choice(b"ab\x00\xffPT") for _ in range(L))
        r = rng.random()
        if r < 0.06:
            payload = b"C"[:lim]
        elif r < 0.16:
            payload = b"P"[:lim]
        elif r < 0.26:
            payload = b"T"[:lim]
        items.append(len(payload).to_bytes(nb, "big") + payload)
    r = rng.random()
    if r < 0.35 and maxlen < top:
        over = min(top, rng.choice([maxlen + 1, maxlen + 2, top, maxlen * 2 + 1]))
        items.append(over.to_bytes(nb, "big") + b"x" * rng.choice([0, 1, min(over, 8)]))
        if rng.random() < 0.3:
            items.append((1).to_bytes(nb, "big") + b"k")
    elif r < 0.65:
        L = max(0, rng.choice([lim, 1, 2, min(lim, 5)]))
        full = L.to_bytes(nb, "big") + b"t" * L
        items.append(full[: rng.randint(1, max(1, len(full) - 1))])
    return b"".join(items)


def gen_case(rng, kind):
    if kind in ("lineonly", "line"):
        w = rng.random()
        maxlen = LINE_MAX[0] if w < 0.15 else LINE_MAX[1] if w < 0.35 else LINE_MAX[2] if w < 0.8 else LINE_MAX[3] if w < 0.97 else LINE_MAX[4]
        cfg = (maxlen, rng.choice(DELIMS))
        return cfg, gen_line_stream(rng, kind, cfg)
    if kind == "netstring":
        w = rng.random()
        cfg = (NET_MAX[0] if w < 0.15 else NET_MAX[1] if w < 0.3 else NET_MAX[2] if w < 0.7 else NET_MAX[3] if w < 0.85 else NET_MAX[4] if w < 0.97 else NET_MAX[5],)
        return cfg, gen_net_stream(rng, cfg)
    ms = INT_MAX[kind]
    w = rng.random()
    idx = 0 if w < 0.15 else 1 if w < 0.3 else 2 if w < 0.7 else 3 if w < 0.88 else 4 if w < 0.97 else len(ms) - 1
    cfg = (ms[min(idx, len(ms) - 1)],)
    return cfg, gen_int_stream(rng, kind, cfg)


def interesting_offsets(kind, cfg, stream):
    """Cut positions that matter for framing (inside/around delimiters, prefixes, commas)."""
    n = len(stream)
    offs = set()
    if kind in ("lineonly", "line"):
        delim = cfg[1]
        j = stream.find(delim)
        while j >= 0 and len(offs) < 60:
            offs.update(range(j - 1, j + len(delim) + 2))
            j = stream.find(delim, j + 1)
        offs.update((cfg[0], cfg[0] + 1, cfg[0] + len(delim), n - 1, n - 2))
    elif kind == "netstring":
        for ch in (b":", b","):
            j = stream.find(ch)
            while j >= 0 and len(offs) < 60:
                offs.update((j, j + 1))
                j = stream.find(ch, j + 1)
        offs.update((1, 2, n - 1))
    else:
        nb = NBYTES[kind]
        i = 0
        while i + nb <= n and len(offs) < 60:
            offs.update(range(i, i + nb + 2))
            i += nb + int.from_bytes(stream[i:i + nb], "big")
            offs.update((i - 1,))
        offs.update((n - 1,))
    return sorted(o for o in offs if 0 < o < n)


def splits_for(rng, kind, cfg, stream, quick):
    n = len(stream)
    if n <= 1:
        return
    yielded = set()

    def cut(positions):
        positions = tuple(positions)
        if positions in yielded:
            return None
        yielded.add(positions)
        return positions

    if n <= 400:
        for p in range(1, n):
            yield cut((p,))
    if n <= (34 if quick else 40):
        for pos in itertools.combinations(range(1, n), 2):
            yield cut(pos)
    else:
        offs = interesting_offsets(kind, cfg, stream)
        for p in offs:
            c = cut((p,))
            if c:
                yield c
        pairs = list(itertools.combinations(offs, 2))
        if len(pairs) > 150:
            pairs = rng.sample(pairs, 150)
        for pos in pairs:
            c = cut(pos)
            if c:
                yield c
    for _ in range(3 if n > 2000 else 8):
        pieces = random_split(rng, stream, 64) if n <= 2000 else random_split(rng, stream, n // 3 + 1)
        pos, acc = [], 0
        for pc in pieces[:-1]:
            acc += len(pc)
            pos.append(acc)
        if len(pos) <= 400:
            c = cut(pos)
            if c:
                yield c


def cut_pieces(stream, cuts):
    prev = 0
    out = []
    for c in cuts:
        out.append(stream[prev:c])
        prev = c
    out.append(stream[prev:])
    return out


# ------------------------------------------------------------------------------------------------
def classify(kind, cfg, raw_events, got, acceptable):
    """Name the mechanism of a reference mismatch from its causal signature."""
    exp = acceptable[0]
    k = 0
    while k < len(got) and k < len(exp) and got[k] == exp[k]:
        k += 1
    g = got[k] if k < len(got) else None
    e = exp[k] if k < len(exp) else None
    if g is not None and g[0] == "exception":
        return "%s-raises" % kind, "the receiver raised: %s" % (g[1],)
    if g == ("nested",):
        if kind in NBYTES and k and got[k - 1] == ("string", b"T"):
            return ("intn-reentrant-resume-redelivers",
                    "IntNStringReceiver.dataReceived is not re-entrant: resumeProducing() called from inside stringReceived re-parses the "
                    "buffer from its start and delivers already delivered strings again (unbounded recursion if the application does it every time)")
        return "%s-nested-delivery" % kind, "a message was delivered while the previous delivery callback was still running"
    if kind in ("lineonly", "line") and g == ("exceeded",):
        arg = next((x[1] for x in raw_events if x[0] == "exceeded"), b"")
        delim, maxlen = cfg[1], cfg[0]
        s = proper_prefix_suffix(arg, delim)
        if kind == "lineonly" and s and delim not in arg and len(arg) - s <= maxlen < len(arg):
            return ("lineonly-split-delimiter-at-max",
                    "LineOnlyReceiver reported a line of <= MAX_LENGTH bytes as too long because the buffered tail "
                    "(line + first delimiter byte(s)) was longer than MAX_LENGTH when the delimiter was still incomplete")
        if e is not None and e[0] == "line":
            return "%s-valid-line-rejected" % kind, "a line of <= MAX_LENGTH bytes was reported as too long"
        return "%s-oversize-reported-without-cause" % kind, "oversize notification although no line can exceed MAX_LENGTH yet"
    if e is not None and e[0] == "exceeded" and g is not None and g[0] in ("line", "string"):
        return "%s-oversize-message-delivered" % kind, "a message longer than MAX_LENGTH was delivered"
    if e is not None and e[0] == "exceeded":
        return "%s-oversize-not-reported" % kind, "a complete oversize message was not reported"
    if g is not None and g[0] == "exceeded":
        return "%s-valid-message-rejected" % kind, "a message within MAX_LENGTH was rejected"
    if kind == "netstring" and g == ("close",) and e is not None and e[0] == "string":
        return "netstring-valid-message-rejected", "a valid netstring within MAX_LENGTH closed the connection"
    if kind == "netstring" and e == ("close",):
        return "netstring-invalid-accepted", "an invalid netstring did not close the connection"
    return "%s-trace-mismatch" % kind, "delivered messages differ from the reference framing"


def witness(kind, cfg, stream, cuts, got, acceptable, whole=None):
    w = {"receiver": kind, "MAX_LENGTH": cfg[0], "stream_hex": stream.hex() if len(stream) <= 70000 else None,
         "stream": stream, "stream_len": len(stream), "cuts": list(cuts), "observed": got, "expected": acceptable[0]}
    if kind in ("lineonly", "line"):
        w["delimiter"] = cfg[1]
        w["delimiter_hex"] = cfg[1].hex()
    if len(acceptable) > 1:
        w["also_acceptable"] = acceptable[1]
    if whole is not None:
        w["observed_whole_delivery"] = whole
    return w


def check_stream(ctx, rng, kind, cfg, stream, only_cuts=None):
    acceptable = reference(kind, cfg, stream)
    exp = acceptable[0]
    if exp:
        ctx.distinct((kind, cfg, stream))
    for e in exp:
        if e[0] == "exceeded":
            ctx.count("oversize_expected")
        elif e[0] == "raw":
            ctx.count("raw_switches")
        elif e[0] in ("line", "string") and e[1] == b"T":
            ctx.count("reentrant_toggles")
        elif e[0] == "line" and e[1][:1] in b"XQ" and isinstance(interpret(e[1]), tuple):
            ctx.count("raw_then_close_or_pause")
        elif e[0] in ("line", "string") and len(e[1]) == cfg[0]:
            ctx.count("lines_at_max")
        elif e == ("close",) and kind == "netstring" and ("exceeded",) not in exp:
            ctx.count("netstring_invalid")
    ctx.seen("configs", "%s %r" % (kind, cfg))
    whole, raw_whole, pauses = run_real(kind, cfg, [stream])
    ctx.count("pauses", pauses)
    ctx.count("ref_compares")
    ctx.evaluated()
    if whole not in acceptable:
        key, what = classify(kind, cfg, raw_whole, whole, acceptable)
        ctx.violation(key, what + " (whole delivery)", witness(kind, cfg, stream, (), whole, acceptable))
    delim_positions = set()
    if kind in ("lineonly", "line") and len(cfg[1]) > 1:
        j = stream.find(cfg[1])
        while j >= 0:
            delim_positions.update(range(j + 1, j + len(cfg[1])))
            j = stream.find(cfg[1], j + 1)
    cuts_iter = [tuple(only_cuts)] if only_cuts is not None else splits_for(rng, kind, cfg, stream, ctx.quick)
    nsplits = 0
    for cuts in cuts_iter:
        if cuts is None:
            continue
        nsplits += 1
        got, raw_ev, pauses = run_real(kind, cfg, cut_pieces(stream, cuts))
        ctx.count("split_runs")
        ctx.count("ref_compares")
        ctx.count("pauses", pauses)
        if delim_positions and not delim_positions.isdisjoint(cuts):
            ctx.count("delimiter_split_runs")
        if got not in acceptable:
            key, what = classify(kind, cfg, raw_ev, got, acceptable)
            ctx.violation(key, what, witness(kind, cfg, stream, cuts, got, acceptable, whole))
        elif got != whole and whole in acceptable:
            ctx.violation("%s-segmentation-variance" % kind,
                          "split delivery and whole delivery give different events (both inside the reference's latitude)",
                          witness(kind, cfg, stream, cuts, got, acceptable, whole))
    ctx.evaluated(nsplits)
    ctx.maxi("stream_len", len(stream))
    return whole, nsplits


# ------------------------------------------------------------------------------------------------
def check_reuse(ctx, rng, kind, cfg, first, second):
    """Pattern 'state left over': the same protocol instance serves a second connection after the
    first one ended in the middle of a message.  NetstringReceiver.makeConnection documents that it
    (re)initialises the protocol, so there the second connection is judged against the reference;
    the other receivers keep their buffer across makeConnection and the statement is silent about
    re-use: run, counted, not judged."""
    p, t = make(kind, cfg)
    for piece in random_split(rng, first, 16):
        if t.disconnecting:
            break
        try:
            p.dataReceived(piece)
        except Exception:
            break
    p.ev = []
    p.paused = False
    t2 = _T(p.ev)
    p.makeConnection(t2)
    for piece in (random_split(rng, second, 16) if rng.random() < 0.5 else [second]):
        if t2.disconnecting:
            break
        try:
            p.dataReceived(piece)
            guard = 0
            while getattr(p, "paused", False) and not t2.disconnecting and guard < 1000:
                guard += 1
                p.resumeProducing()
        except Exception as e:
            p.ev.append(("exception", "%s: %s" % (type(e).__name__, e)))
            break
    got = normalize(kind, p.ev)
    acceptable = reference(kind, cfg, second)
    ctx.evaluated()
    if kind == "netstring":
        ctx.count("reuse_runs_judged")
        if got not in acceptable:
            ctx.violation("netstring-state-leaks-into-next-connection", "a re-used NetstringReceiver does not frame the second connection's stream from a clean state",
                          dict(witness(kind, cfg, second, (), got, acceptable), first_connection_stream=first))
    else:
        ctx.count("reuse_runs_unjudged")
        ctx.seen("reuse_unjudged_outcomes", "%s: %s" % (kind, "clean" if got in acceptable else "residual of the first connection visible"))


def check_sendrecv(ctx, rng, kind):
    """sendLine/sendString of random messages -> wire -> receiver (random split) == messages."""
    cfg, _ = gen_case(rng, kind)
    if cfg[0] > 100:
        cfg = (64,) + tuple(cfg[1:])
    sender, _t = make(kind, cfg)
    st = SimTransport("s")
    sender.transport = st
    msgs = []
    top = cfg[0] if kind not in NBYTES else min(cfg[0], 256 ** NBYTES[kind] - 1)
    for _ in range(rng.randint(1, 6)):
        L = rng.choice([0, 1, top, top - 1]) if rng.random() < 0.5 else rng.randint(0, top)
        L = max(0, L)
        if kind in ("lineonly", "line"):
            m = _content(rng, L, cfg[1], b"xyz" + cfg[1])
            if (m + cfg[1]).find(cfg[1]) != len(m) or interpret(m) is not None:
                m = b"x" * L
            if interpret(m) is not None:
                continue
            sender.sendLine(m)
        else:
            m = bytes(rng.randrange(256) for _ in range(L))
            if m in (b"C", b"P", b"T"):
                m = b"x"[:top]
            sender.sendString(m)
        msgs.append(m)
    wire = bytes(st.written)
    pieces = random_split(rng, wire, 16) if wire else []
    got, raw_ev, _p = run_real(kind, cfg, pieces)
    exp = [("line" if kind in ("lineonly", "line") else "string", m) for m in msgs]
    ctx.count("sendrecv_messages", len(msgs))
    ctx.evaluated()
    if got != exp:
        key, what = classify(kind, cfg, raw_ev, got, [exp])
        if key != "lineonly-split-delimiter-at-max":  # same mechanism as in the stream runs; anything else is its own key
            key, what = "%s-send-receive-mismatch" % kind, "messages sent with the protocol's send method are not received as sent (%s)" % what
        cuts = list(itertools.accumulate(len(x) for x in pieces[:-1]))
        w = witness(kind, cfg, wire, cuts, got, [exp])
        w["sent_messages"] = msgs
        ctx.violation(key, what, w)


def check_send_refusal(ctx):
    if not _classes:
        _build_classes()
    basic = _classes["basic"]

    class FakeLen(bytes):
        def __len__(self):
            return 2 ** 32

    for kind, too_long, ok in (("int8", b"x" * 256, b"x" * 255), ("int16", b"x" * 65536, b"x" * 65535), ("int32", FakeLen(b"x"), None)):
        p, _t = make(kind, (99999,))
        st = SimTransport("s")
        p.transport = st
        try:
            p.sendString(too_long)
            ctx.violation("%s-sendstring-unrepresentable-accepted" % kind, "sendString of a length that does not fit the prefix did not raise",
                          {"receiver": kind, "length": len(too_long), "written": bytes(st.written[:16])})
        except basic.StringTooLongError:
            ctx.count("send_refusals")
            if st.written:
                ctx.violation("%s-sendstring-refusal-wrote" % kind, "sendString raised StringTooLongError but wrote bytes", {"receiver": kind})
        if ok is not None:
            p.sendString(ok)
            nb = NBYTES[kind]
            if bytes(st.written) != len(ok).to_bytes(nb, "big") + ok:
                ctx.violation("%s-sendstring-wrong-wire" % kind, "largest representable string not framed correctly", {"receiver": kind})
    ctx.evaluated()


def run(ctx):
    if not _classes:
        _build_classes()
    if ctx.shard == 0:
        check_send_refusal(ctx)
    samples = 0
    for i in ctx.cases(5000, 300000):
        kind = KINDS[i % len(KINDS)]
        rng = ctx.case_rng("stream", i)
        cfg, stream = gen_case(rng, kind)
        if not stream:
            continue
        whole, nsplits = check_stream(ctx, rng, kind, cfg, stream)
        if samples < 2 and whole and len(stream) < 60:
            samples += 1
            ctx.sample({"receiver": kind, "config": cfg, "stream": stream, "events_whole_delivery": whole, "splits_run": nsplits})
        if i % 3 == 0:
            check_sendrecv(ctx, ctx.case_rng("sendrecv", i), kind)
        if i % 4 < 2 and len(stream) > 2 and len(stream) < 5000:
            r2 = ctx.case_rng("reuse", i)
            k2 = "netstring" if i % 4 == 0 else kind
            cfg2, first = (cfg, stream) if k2 == kind else gen_case(r2, k2)
            second = gen_case(r2, k2)[1] if k2 != kind else stream
            for _ in range(20):  # same config for both connections
                c3, s3 = gen_case(r2, k2)
                if c3 == cfg2 and s3:
                    second = s3
                    break
            if first:
                check_reuse(ctx, r2, k2, cfg2, first[: r2.randint(1, len(first))], second)


def replay(ctx, w):
    if not _classes:
        _build_classes()
    x = w["witness"]
    if not x.get("stream_hex"):
        print("replay: stream too long to be stored; re-run with VERIF_SEED=%s" % w.get("seed"))
        return
    kind = x["receiver"]
    cfg = (x["MAX_LENGTH"],) + ((bytes.fromhex(x["delimiter_hex"]),) if "delimiter_hex" in x else ())
    stream = bytes.fromhex(x["stream_hex"])
    check_stream(ctx, ctx.case_rng("replay"), kind, cfg, stream, only_cuts=x.get("cuts") or ())
    for k, v in ctx.violations.items():
        print("replayed: %s: %s" % (k, v["what"]))
        print("  observed=%r\n  expected=%r" % (v["witness"].get("observed"), v["witness"].get("expected")))
