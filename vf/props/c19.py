"""C19 HTTP/1.1 server framing follows RFC 9112 (no request smuggling).

Monitored object: the real HTTPChannel (C18's `Server` harness: HTTPFactory, timeout=None, fixed
clock, SimTransport that stops delivering after loseConnection).  Observed: every request handed to
`process()` (method, uri, version, headers, body) and the responses written (parsed with the
lenient refhttp reader; each delivered request is answered 200 at once).

Oracle, three zones from the spec-derived `refhttp` parser (+ h11 as independent parser):
  * safety, always on: the i-th delivered request equals the i-th request of the reference parse in
    method, target, version and **body**, and the server never delivers more requests than the
    reference finds (a request made of body bytes, of an incomplete message or of a message that
    must be rejected).  Requests carry ids in their targets and bodies carry a bait request, so a
    wrong offset shows up as a wrong/extra request;
  * must-reject (only what the statement lists: both CL and TE, repeated / non-1*DIGIT
    Content-Length, unsupported transfer coding, malformed chunk size / CRLF / CTL in extension,
    request line that is not `token SP 1*(%x21-7E) SP HTTP/D.D`, header without colon or with a
    non-token name, NUL in a value), and only once the offending element is completely in the
    stream: nothing of that request or after it is delivered, the last response is a 400 and the
    connection is closed;
  * must-accept (canonical requests): delivered, with headers equal to the reference's
    (names case-insensitively, values OWS-trimmed); the reference itself is checked against h11
    on these (a disagreement between the two parsers is INCONCLUSIVE, not a finding).
  Everything else is don't-care: the server may reject or process.

False-alarm guards: `Transfer-Encoding: identity` is a documented no-op in twisted (don't-care);
obs-fold, leading blank lines, odd request-line whitespace, bare CR/LF, CTLs other than NUL,
BWS/irregular chunk extensions, invalid trailers, other HTTP versions, HTTP/1.0 + chunked, missing
Host, and anything near the documented size limits are don't-care; when a stream contains a bare
LF both RFC readings (LF terminates a line / LF stays inside the element) are tried and either one
may explain the server; after a `Connection: close` / HTTP/1.0 request the server may stop;
a POST whose Content-Type is multipart/form-data may be answered 400 by twisted's own form parser
(don't-care); any other canonical POST must be delivered.
"""
from vf.engines import netsim, refhttp
from vf.props import c18

LEVEL = "exploration"
ENGINE = "E2-netsim"
TECHNIQUE = "runtime monitoring: three-zone oracle from a spec-derived RFC 9112 reference framer, cross-checked with h11"
RULE = ("enumerated: every Content-Length x Transfer-Encoding spelling pair (both orders), CL x CL, TE x TE, each alone; every "
        "byte value at every position of a short method and target; chunk-size lines (hostile spellings, every byte value "
        "inside an extension) in first/second chunk; every line end of a request replaced by LF / CR / LFCR / CRCRLF; all "
        "HTTP/x.y; pairs/triples of requests where the first leaves state behind (Expect: 100-continue without body, HEAD, "
        "trailers, obs-fold, 300 headers, 9 KiB header, identity) and the second is valid or must be rejected; chunk sizes and "
        "Content-Lengths around 2**63 / 2**64; a quarter of the enumerated streams also byte-at-a-time; then random pipelines from the refhttp grammar (valid, hostile knobs, byte mutations, truncations), a "
        "third of them delivered in random segments.  Every request is followed by a pipelined marker request.  A case is "
        "distinct by its byte stream; non-trivial = the reference found a complete request or a decided rejection.")
ASSUMPTIONS = ["trusted base: vf/engines/refhttp.py (strict/lenient RFC 9112 reader with hand-written self-test vectors) and h11 0.16",
               "HTTP/1.1 requests without exactly one Host header are left don't-care (RFC 9112 3.2 asks for 400; the statement "
               "lists framing and syntax errors only)",
               "netsim.SimTransport stops delivering after the server's loseConnection(), as TCP does"]
SHARDS = {"quick": 4, "thorough": 16}
FLOORS = {"must_reject_checked": 1000, "must_accept_checked": 500, "safety_bodies_compared": 1000, "h11_agreements": 300,
          "dontcare_accepted": 50, "dontcare_rejected": 50, "incomplete_checked": 20, "leftover_state_streams": 100, "enumerated_bytewise": 2000}
READY = True

NEXT = b"GET /next HTTP/1.1\r\nHost: h\r\n\r\n"
SIZE_NOTES = ("size-limits", "chunk-size-line-long", "trailers-long", "chunk-size-many-digits", "content-length-many-digits")


def responder(server, request, rec):
    body = b"ok%d" % (len(server.records) - 1)
    request.setHeader(b"Content-Length", b"%d" % len(body))
    request.write(body)
    request.finish()


def observe(stream, pieces=None):
    s = c18.Server("channel", responder=responder, defer=False)
    try:
        for p in (pieces or [stream]):
            s.feed(p)
        s.quiesce()
        out = s.output()
        heads = [r["method"] == b"HEAD" for r in s.records]
        resps, left = refhttp.read_responses(out, heads)
        finals = [r.code for r in resps if r.complete and (r.code or b"")[:1] != b"1"]
        return {"records": s.records, "output": out, "closed": bool(s.transport.disconnecting), "exception": s.exception,
                "final_codes": finals, "leftover": out[left:]}
    finally:
        s.cleanup()


def h11_requests(stream):
    """Independent parse of the stream with h11's server side.  -> (list of dict, why it stopped)"""
    import h11

    conn = h11.Connection(h11.SERVER, max_incomplete_event_size=1 << 20)
    conn.receive_data(stream)
    out = []
    cur = None
    for _ in range(10000):
        try:
            ev = conn.next_event()
        except h11.RemoteProtocolError as e:
            return out, "error: %s" % (e,)
        if ev is h11.NEED_DATA:
            return out, "need-data"
        if ev is h11.PAUSED:
            return out, "paused"
        if isinstance(ev, h11.Request):
            cur = {"method": ev.method, "target": ev.target, "version": b"HTTP/" + ev.http_version,
                   "headers": [(bytes(n), bytes(v)) for n, v in ev.headers], "body": b""}
        elif isinstance(ev, h11.Data):
            cur["body"] += bytes(ev.data)
        elif isinstance(ev, h11.EndOfMessage):
            out.append(cur)
            try:
                conn.send(h11.Response(status_code=200, headers=[("content-length", "0")]))
                conn.send(h11.EndOfMessage())
                if conn.our_state is not h11.DONE or conn.their_state is not h11.DONE:
                    return out, "must-close"
                conn.start_next_cycle()
            except h11.LocalProtocolError as e:
                return out, "local: %s" % (e,)
        elif isinstance(ev, h11.ConnectionClosed):
            return out, "closed"
    return out, "limit"


def _norm_headers_ref(req):
    out = []
    for n, v in req.headers:
        n = n.lower()
        if n == b"transfer-encoding":
            v = v.lower()
        out.append((n, v))
    return out


def check_reference_against_h11(ctx, stream, reqs):
    """On the leading canonical requests the reference must agree with h11."""
    lead = []
    for r in reqs:
        if r.zone != "accept":
            break
        lead.append(r)
        if r.close:
            break
    if not lead:
        return
    hs, why = h11_requests(stream)
    for i, r in enumerate(lead):
        if i >= len(hs):
            ctx.count("h11_stopped_early")
            ctx.seen("h11_stop_reasons", why[:70])
            return
        h = hs[i]
        mine = {"method": r.method, "target": r.target, "version": r.version, "headers": _norm_headers_ref(r), "body": r.body}
        theirs = dict(h, headers=[(n, v.lower() if n == b"transfer-encoding" else v) for n, v in h["headers"]])
        if mine != theirs:
            ctx.inconclusive("reference parser and h11 disagree on a canonical request (harness fault): %r vs %r" % (mine, theirs))
            return
        ctx.count("h11_agreements")


def _is_form_post(req):
    return req.method == b"POST" and bool(req.body) and b"content-type" in req.header_map()


def _multipart_guard(req, obs):
    """twisted parses multipart/form-data bodies of POSTs itself and answers 400 when that fails: legitimate."""
    return _is_form_post(req) and any(b"multipart/form-data" in v.lower() for v in req.header_map()[b"content-type"]) \
        and obs["closed"] and obs["final_codes"][-1:] == [b"400"]


def walk(ctx, reqs, stop, obs, counting=True):
    """Compare the observation with one reference reading.  -> list of (key, what, detail)."""
    D = obs["records"]
    probs = []
    di = 0
    after_close = False
    codes = obs["final_codes"]

    def cnt(name):
        if counting:
            ctx.count(name)

    for idx, r in enumerate(reqs):
        if di < len(D):
            d = D[di]
            cnt("safety_bodies_compared")
            if (d["method"], d["uri"], d["version"]) != (r.method, r.target, r.version):
                probs.append(("delivered-request-line-differs", "delivered request %d differs from the reference in method/target/version" % di,
                              {"index": di, "delivered": d, "reference": r.as_dict()}))
                return probs
            if d["body"] != r.body:
                probs.append(("delivered-body-differs-from-rfc9112", "request %d was delivered with a body other than the one RFC 9112 assigns (%s framing)" % (di, r.framing),
                              {"index": di, "delivered_body": d["body"], "rfc_body": r.body, "reference": r.as_dict()}))
                return probs
            if r.zone == "accept":
                cnt("must_accept_checked")
                want = {}
                for n, v in r.headers:
                    want.setdefault(n.lower(), []).append(v)
                got = {k.lower(): list(v) for k, v in d["headers"]}
                if want != got:
                    probs.append(("delivered-headers-differ", "headers of a canonical request differ from the reference",
                                  {"index": di, "delivered": d["headers"], "reference": r.headers}))
                    return probs
            else:
                cnt("dontcare_accepted")
                for n in r.notes:
                    if counting:
                        ctx.seen("dontcare_notes_accepted", n)
            di += 1
            if r.close:
                after_close = True
            continue
        # the server did not deliver this request
        if r.zone == "accept" and not after_close and not _multipart_guard(r, obs):
            cnt("must_accept_checked")
            key, what = "well-formed-request-refused", "a canonical request was not handed to the application"
            if obs["exception"] and _is_form_post(r):
                key = "post-content-type-parse-raises"
                what = "a well-formed POST is not delivered: parsing its Content-Type value raised out of dataReceived (%s)" % obs["exception"][:80]
            probs.append((key, what, {"index": idx, "reference": r.as_dict(), "final_codes": codes, "closed": obs["closed"], "exception": obs["exception"]}))
        elif not after_close:
            cnt("dontcare_rejected")
            for n in r.notes:
                if counting:
                    ctx.seen("dontcare_notes_rejected", n)
        return probs
    # all reference requests were delivered; now the stop item
    if di < len(D):
        extra = D[di]
        if stop.kind == "reject":
            key = "accepted-" + stop.reason
            if stop.reason == "target-byte" and stop.detail and all(0x7F <= c <= 0xB0 for c in stop.detail):
                key = "request-target-0x7f-0xb0"
            what = "a request that must be rejected (%s) was handed to the application" % stop.reason
        elif stop.kind == "incomplete":
            key, what = "delivered-incomplete-request", "a request whose message is incomplete (%s) was handed to the application" % stop.reason
        elif stop.kind == "undefined":
            cnt("undefined_framing_accepted")
            if not counting:  # an alternative reading that ends in "undefined" explains nothing
                probs.append(("alternative-reading-undefined", "", {}))
            return probs
        else:
            key, what = "extra-request-delivered", "the server delivered a request the reference does not find in the stream (body bytes parsed as a request?)"
        probs.append((key, what, {"index": di, "delivered": extra, "reference_stop": stop.as_dict()}))
        return probs
    if stop.kind == "reject":
        cnt("must_reject_checked")
        if counting:
            ctx.seen("reject_reasons", stop.reason)
        sized = any(n in SIZE_NOTES for n in stop.notes)
        if not after_close and not sized:
            if not (obs["closed"] and len(codes) == len(D) + 1 and codes[-1] == b"400"):
                key = "reject-without-400-" + stop.reason
                if stop.reason == "target-byte" and stop.detail and all(0x7F <= c <= 0xB0 for c in stop.detail):
                    key = "request-target-0x7f-0xb0"  # same mechanism: the head was accepted, the server waits for the body
                probs.append((key, "a request that must be rejected (%s) was not answered with 400 + close" % stop.reason,
                              {"reference_stop": stop.as_dict(), "final_codes": codes, "closed": obs["closed"], "exception": obs["exception"],
                               "output_tail": obs["output"][-120:]}))
    elif stop.kind == "incomplete":
        cnt("incomplete_checked")
    return probs


def check_stream(ctx, stream, desc, pieces=None):
    obs = observe(stream, pieces)
    ctx.evaluated()
    reqs, stop = refhttp.parse_stream(stream)
    if reqs or stop.kind == "reject":
        ctx.distinct(stream)
    ctx.count("delivered_requests", len(obs["records"]))
    if obs["exception"]:
        ctx.count("server_exceptions")
        ctx.seen("server_exception_types", obs["exception"][:60])
    check_reference_against_h11(ctx, stream, reqs)
    probs = walk(ctx, reqs, stop, obs)
    if probs and b"\n" in stream.replace(b"\r\n", b""):
        reqs2, stop2 = refhttp.parse_stream(stream, lf_mode=True)
        if not walk(ctx, reqs2, stop2, obs, counting=False):
            ctx.count("explained_by_lf_terminator_reading")
            probs = []
    for key, what, detail in probs[:1]:
        ctx.violation(key, what, dict(detail, stream=stream, pieces=pieces, desc=desc, observed={
            "delivered": obs["records"], "final_codes": obs["final_codes"], "closed": obs["closed"], "exception": obs["exception"]}))
    if len(ctx.samples) < 4 and ctx.shard == 0 and reqs and len(stream) < 300:
        ctx.sample({"desc": desc, "stream": stream, "reference": [r.as_dict() for r in reqs[:2]], "stop": stop.as_dict(),
                    "delivered": obs["records"][:2], "final_codes": obs["final_codes"], "closed": obs["closed"]})
    return probs


def enumerated():
    """Yield (stream, description) for the systematic part."""
    cls, tes = refhttp.framing_variants()
    chunked5 = b"5\r\nhello\r\n0\r\n\r\n"
    payloads = [chunked5, b"hello" + refhttp.BAIT, b"0\r\n\r\n" + refhttp.BAIT]

    def req(lines, payload):
        return b"POST /r0 HTTP/1.1\r\nHost: h\r\n" + b"".join(l + b"\r\n" for l in lines) + b"\r\n" + payload + NEXT

    for a in cls:
        yield req([a], b"hello"), "cl"
        yield req([a], b"hello" + refhttp.BAIT), "cl+bait"
    for b in tes:
        for p in payloads[:2]:
            yield req([b], p), "te"
    for a in cls:
        for b in tes:
            for p in payloads:
                yield req([a, b], p), "cl+te"
                yield req([b, a], p), "te+cl"
    for a in cls:
        for a2 in cls:
            yield req([a, a2], b"hello" + refhttp.BAIT), "cl+cl"
    for b in tes:
        for b2 in tes:
            yield req([b, b2], chunked5), "te+te"
    # every byte value at every position of a short method and target (replace and insert)
    for c in range(256):
        ch = bytes([c])
        for i in range(3):
            m = b"GET"
            yield m[:i] + ch + m[i + 1:] + b" /r0 HTTP/1.1\r\nHost: h\r\n\r\n" + NEXT, "method-byte"
            t = b"/r0"
            yield b"GET " + t[:i] + ch + t[i + 1:] + b" HTTP/1.1\r\nHost: h\r\n\r\n" + NEXT, "target-byte"
            yield b"GET " + t[:i] + ch + t[i:] + b"x HTTP/1.1\r\nHost: h\r\n\r\n" + NEXT, "target-byte-ins"
        yield b"GET /r0" + ch + b" HTTP/1.1\r\nHost: h\r\n\r\n" + NEXT, "target-byte-end"
        yield b"GET /r0 HTTP/1.1\r\nHost: h\r\nX-V: a" + ch + b"b\r\n\r\n" + NEXT, "value-byte"
        yield b"GET /r0 HTTP/1.1\r\nHost: h\r\nX" + ch + b"N: v\r\n\r\n" + NEXT, "name-byte"
        yield b"GET /r0 HTTP/1.1\r\nHost: h\r\nX-N" + ch + b": v\r\n\r\n" + NEXT, "name-byte-end"
        # chunk extension with every byte value, in the name and inside a quoted value; size line bytes
        TE = b"POST /r0 HTTP/1.1\r\nHost: h\r\nTransfer-Encoding: chunked\r\n\r\n"
        yield TE + b"5;a" + ch + b"\r\nhello\r\n0\r\n\r\n" + NEXT, "ext-byte"
        yield TE + b'5;a="' + ch + b'"\r\nhello\r\n0\r\n\r\n' + NEXT, "ext-quoted-byte"
        yield TE + b"5" + ch + b"\r\nhello\r\n0\r\n\r\n" + NEXT, "size-byte-after"
        yield TE + ch + b"5\r\nhello\r\n0\r\n\r\n" + NEXT, "size-byte-before"
        yield TE + b"5\r\nhello\r\n0" + ch + b"\r\n\r\n" + NEXT, "last-chunk-byte"
        yield TE + b"5\r\nhello" + ch + b"\n0\r\n\r\n" + NEXT, "chunk-crlf-byte"
    # Content-Type values of a POST with a body (twisted parses them to decide about form decoding)
    import random

    def post(ct):
        return b"POST /r0 HTTP/1.1\r\nHost: h\r\nContent-Type: " + ct + b"\r\nContent-Length: 5\r\n\r\nhello" + NEXT

    for c in range(256):
        yield post(b"text/" + bytes([c]) + b"plain"), "content-type-byte"
        yield post(b"text/plain; a=" + bytes([c])), "content-type-param-byte"
    frng = random.Random("C19-content-type")
    for _ in range(400):
        yield post(bytes(frng.choice(b";*=/'\"%a0 .-") for _ in range(frng.randint(1, 7))).strip(b" ")), "content-type-fuzz"
    for ct in (b"multipart/form-data", b"multipart/form-data; boundary=x", b"application/x-www-form-urlencoded", b"Multipart/Form-Data; boundary=\"",
               b"application/x-www-form-urlencoded; charset=\xe9"):
        yield post(ct), "content-type-form"
    TE = b"POST /r0 HTTP/1.1\r\nHost: h\r\nTransfer-Encoding: chunked\r\n\r\n"
    for sl in refhttp.hostile_chunk_lines():
        yield TE + sl + b"\r\nhello\r\n0\r\n\r\n" + NEXT, "chunkline-first"
        yield TE + b"3\r\nabc\r\n" + sl + b"\r\nhello\r\n0\r\n\r\n" + NEXT, "chunkline-second"
        yield TE + b"3\r\nabc\r\n" + sl.replace(b"5", b"0") + b"\r\n\r\n" + NEXT, "chunkline-last"
    # every line end replaced
    base = [b"POST /r0 HTTP/1.1", b"Host: h", b"X-A: b", b"Content-Length: 5", b""]
    for i in range(len(base)):
        for nl in (b"\n", b"\r", b"\n\r", b"\r\r\n", b"\r\n\r\n", b""):
            ends = [b"\r\n"] * len(base)
            ends[i] = nl
            yield b"".join(l + e for l, e in zip(base, ends)) + b"hello" + NEXT, "line-end"
    # the tolerated blank line before / between pipelined requests: whatever the server does with the request
    # right after it (don't-care), the canonical requests that follow must still be delivered, in order
    for first in (b"POST /r0 HTTP/1.1\r\nHost: h\r\nContent-Length: 5\r\n\r\nhello", b"GET /r0 HTTP/1.1\r\nHost: h\r\n\r\n",
                  b"POST /r0 HTTP/1.1\r\nHost: h\r\nTransfer-Encoding: chunked\r\n\r\n" + chunked5, b""):
        for blank in (b"\r\n", b"\r\n\r\n", b""):
            second = b"GET /r1 HTTP/1.1\r\nHost: h\r\n\r\n"
            third = b"POST /r2 HTTP/1.1\r\nHost: h\r\nContent-Length: 3\r\n\r\nabc"
            yield first + blank + second + NEXT, "blank-line-between"
            yield first + blank + second + third + NEXT, "blank-line-between"
            yield first + blank + second + blank + third + NEXT, "blank-line-between"
    # state left over from an earlier request on the same connection must not leak into the next one's framing
    hdrs300 = b"".join(b"X-%d: v\r\n" % i for i in range(300))
    big = b"X-Big: " + b"b" * 9000 + b"\r\n"
    firsts = [
        (b"POST /r0 HTTP/1.1\r\nHost: h\r\nExpect: 100-continue\r\nContent-Length: 0\r\n\r\n", "expect-no-body"),
        (b"POST /r0 HTTP/1.1\r\nHost: h\r\nExpect: 100-continue\r\nTransfer-Encoding: chunked\r\n\r\n0\r\n\r\n", "expect-empty-chunked"),
        (b"PUT /r0 HTTP/1.1\r\nHost: h\r\nExpect: 100-continue\r\n\r\n", "expect-no-framing"),
        (b"HEAD /r0 HTTP/1.1\r\nHost: h\r\n\r\n", "head"),
        (b"POST /r0 HTTP/1.1\r\nHost: h\r\nTransfer-Encoding: chunked\r\n\r\n5;x=y\r\nhello\r\n0\r\nT: v\r\nU: w\r\n\r\n", "chunked-trailers"),
        (b"POST /r0 HTTP/1.1\r\nHost: h\r\nContent-Length: 5\r\n\r\nhello", "cl"),
        (b"GET /r0 HTTP/1.1\r\nHost: h\r\nX-F: a\r\n b\r\n\r\n", "obs-fold"),
        (b"GET /r0 HTTP/1.1\r\nHost: h\r\n" + hdrs300 + b"\r\n", "300-headers"),
        (b"GET /r0 HTTP/1.1\r\nHost: h\r\n" + big + b"\r\n", "9k-header"),
        (b"POST /r0 HTTP/1.1\r\nHost: h\r\nTransfer-Encoding: identity\r\nContent-Length: 5\r\n\r\nhello", "te-identity"),
    ]
    seconds = [
        b"GET /r1 HTTP/1.1\r\nHost: h\r\n\r\n",
        b"POST /r1 HTTP/1.1\r\nHost: h\r\nContent-Length: 5\r\n\r\nhello",
        b"POST /r1 HTTP/1.1\r\nHost: h\r\nTransfer-Encoding: chunked\r\n\r\n" + chunked5,
        b"GET /r1 HTTP/1.1\r\nHost: h\r\n" + hdrs300 + b"\r\n",
        b"GET /r1 HTTP/1.1\r\nHost: h\r\n" + big + b"\r\n",
        b"POST /r1 HTTP/1.1\r\nHost: h\r\nContent-Length: +5\r\n\r\nhello",
        b"POST /r1 HTTP/1.1\r\nHost: h\r\nContent-Length: 5\r\nTransfer-Encoding: chunked\r\n\r\n" + chunked5,
        b"POST /r1 HTTP/1.1\r\nHost: h\r\nExpect: 100-continue\r\nContent-Length: 5\r\n\r\nhello",
    ]
    for f, fname in firsts:
        for sec in seconds:
            yield f + sec + NEXT, "leftover-state"
            yield f + f.replace(b"/r0", b"/r1") + sec.replace(b"/r1", b"/r2") + NEXT, "leftover-state"
    for x in range(10):
        for y in range(10):
            yield b"GET /r0 HTTP/%d.%d\r\nHost: h\r\n\r\n" % (x, y) + NEXT, "version"
            yield b"POST /r0 HTTP/%d.%d\r\nHost: h\r\nTransfer-Encoding: chunked\r\n\r\n" % (x, y) + chunked5 + NEXT, "version+te"


def run(ctx):
    refhttp.selftest()
    k = 0
    for stream, desc in enumerated():
        k += 1
        if not ctx.owns(k):
            continue
        ctx.count("enumerated")
        ctx.seen("enumerated_kinds", desc)
        if desc == "leftover-state":
            ctx.count("leftover_state_streams")
        check_stream(ctx, stream, [desc])
        if k % 4 == 1 and len(stream) <= 400:  # the same safety/zones must hold when every byte arrives alone
            ctx.count("enumerated_bytewise")
            check_stream(ctx, stream, [desc, "bytewise"], [stream[j:j + 1] for j in range(len(stream))])
    ctx.exhaustive = False
    for i in ctx.cases(12000, 600000):
        rng = ctx.case_rng(i)
        profile = ("valid", "hostile", "hostile", "mutated", "mixed")[i % 5]
        stream, desc = refhttp.gen_stream(rng, profile, max_requests=4)
        if rng.random() < 0.5 and not stream.endswith(NEXT):
            stream += NEXT
        pieces = netsim.random_split(rng, stream) if i % 3 == 0 and len(stream) > 1 else None
        ctx.count("random_streams")
        if pieces:
            ctx.count("random_streams_split")
        check_stream(ctx, stream, desc, pieces)


def replay(ctx, w):
    x = w["witness"]
    stream = c18._unb(x["stream"])
    pieces = [c18._unb(p) for p in x["pieces"]] if x.get("pieces") else None
    if stream is None:
        print("replay: stream too long for the witness file; re-run with VERIF_SEED=%s" % w.get("seed"))
        return
    check_stream(ctx, stream, x.get("desc"), pieces)
