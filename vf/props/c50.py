"""C50 FilesystemLock mutual exclusion — exhaustive interleavings of the REAL lock()/unlock().

1–3 (thorough: 4) simulated processes run small programs around the real
`FilesystemLock.lock/unlock`.  The lock module's own filesystem primitives
(`lockfile.symlink/readlink/rmlink/kill`, `os.getpid` through a proxy bound to `lockfile.os`, and — if
the module serialises stale-lock breaking with `fcntl.flock` on a sidecar file `<lock>.*` — that flock
as a fifth, blocking primitive released at `os.close`) are replaced by a scheduler-gated in-memory
link table with POSIX error semantics (EEXIST, ENOENT, ESRCH) and per-process pids.  Every primitive
call is a scheduling point: the process parks *before* the call, the explorer picks which parked
process executes its pending call next; the call and the process-local code up to the next
primitive run atomically (exactly the granularity at which separate processes can interleave).

Processes are re-execution coroutines, not threads: a process is the deterministic function "results
of my first k primitive calls -> my next call", so advancing it re-runs its program from the start
with the recorded results and unwinds it at the next call with a BaseException (lock()/unlock() only
catch OSError).  The world is plain data; all schedules are enumerated by DFS, branching on clones,
pruning on the full state = link table + flock owner + live pids + holders + every process's local
state (its Python frames from the program down to the primitive: code name, line, simple locals,
FilesystemLock attributes — read for pruning only, never asserted on).

Programs: once (`if lock(): unlock()`), retry (2 attempts), twice (two cycles), die (acquire, then
the process dies holding the lock — a stale lock arises dynamically), rogue (calls `unlock()` without
holding, swallowing the documented exception, then `once`), daemon (the FilesystemLock object is
constructed under a parent pid that then exits; the forked child — another, live pid — runs `once`
on the inherited object), forkrogue (child forked from a live participant after that one built its
lock object: `rogue` on the inherited object), holdfork + forkchild/forkchild2 (a process takes
the lock and forks WHILE HOLDING it; the child — another live pid with a copy of the parent's object,
locked == True — calls `unlock()`, whose exception is not judged, only its effect on the link, and
optionally competes afterwards, while the parent keeps holding and later releases), reborn /
rebornretry (pid REUSE: a process born only after the initial stale link of dead pid 999 was broken
gets pid 999, now alive, and runs once / retry next to long-lived `twice`/`retry` participants).  Initial states: no lock / stale lock of
a dead pid / lock held by a live non-participant.

Oracle: (1) the number of live processes between a True return of `lock()` and the completion of
their `unlock()` is <= 1 at every point; (2) `unlock()` by a holder does not raise; (3) while a live
non-participant holds the lock nobody acquires; (4) one process alone: acquires a free lock with
clean == True, a stale one with clean == False in a single call, re-acquires after its own release,
never acquires a live foreign one; (5) with no live foreign holder somebody acquires in every
complete schedule, and no schedule ends with all remaining processes blocked; (6) `lock()` never
raises for the three errnos the table can produce; (7) a `lock()` call that no other process's step
interleaved with, started when the link was absent or named a pid that is not alive, returns True -
also on a long-lived object that found the owner alive on earlier polls (`retry` next to `die`).  Guard: a process's hold ends when its unlock's
`rmlink` executes (the return of `unlock()` is process-local), a dead process holds nothing.

Known finding (DESIGN 6-26) `stale-break-removes-live-lock`: classified ONLY when, earlier in the
same schedule, an `rmlink` issued from inside `lock()` (never from `unlock()`) succeeded on a link
whose value is the pid of a live participant currently holding the lock, by a process whose two
preceding primitive calls were `readlink -> D`, `kill(D) -> ESRCH` for a different, dead pid D.
From that moment a holder has no link (or somebody else's), and later two-holders / unlock-raised
events in that schedule are its consequences.  Every exclusion failure in a schedule without that
event keeps the generic keys `two-holders` / `holder-unlock-raised`.

Containment: the lock path lives under a mkdtemp() top and the whole run is inside an unarmed
FaultFS guard, so a lock module that bypassed its primitives could only touch that directory
(anything else is refused and reported as `filesystem-call-outside-scratch`).
"""
import errno
import os
import shutil
import sys
import tempfile

from vf.engines.fsfault import FaultFS, report_escapes, selftest_or_inconclusive

LEVEL = "exploration"
ENGINE = "E1-explore (local DFS over re-execution coroutines; E3 guard for containment)"
TECHNIQUE = "runtime monitoring: at-most-one-holder invariant over every interleaving of the lock module's filesystem primitives"
RULE = ("case = (configuration [1..3 processes, thorough also 4; program per process from once/retry/"
        "twice/die/rogue/daemon/forkrogue; initial link none/stale/live-foreign], schedule of primitive calls).  ALL "
        "schedules of every configuration are enumerated (DFS, pruning on the full state); every "
        "state is checked and counted in `states`; distinct = (configuration, state) pairs, recorded "
        "for the first 4000 states of each configuration; the 4-process configurations are thorough only.")
ASSUMPTIONS = [
    "trusted base: the in-memory link table implements symlink/readlink/remove/kill(pid,0) with POSIX atomicity and errnos",
    "processes interleave only at the lock module's filesystem primitives (symlink, readlink, rmlink, kill); pid reuse only in the dedicated configurations (the dead owner's pid is recycled once)",
    "bounded: <= 3 processes (4 in the thorough tier), <= 2 lock cycles per process; liveness is only checked as 'somebody acquires in every complete schedule' and 'a lone process acquires a stale lock in one call'",
]
SHARDS = {"quick": 4, "thorough": 16}
FLOORS = {"states": 2000, "schedules_completed": 200, "acquisitions": 1000, "holder_unlocks": 500, "stale_breaks": 100,
          "configs": 20, "exclusion_checks": 1000, "single_process_checks": 3,
          "uncontended_lock_calls_free": 200, "uncontended_lock_calls_dead_owner": 100, "forks_while_holding": 100, "inherited_unlock_calls": 100, "pid_reuse_configurations": 6, "pid_reuse_births": 20}
READY = True

PIDS = (101, 102, 103, 104)
DEAD, FOREIGN = 999, 500
PARENTS = (201, 202, 203, 204)  # pids of processes that built a lock object, forked and exited (never alive)
NAME = None  # <scratch>/lock, set by Seams(); the link table is in memory, nothing is ever created there
MAX_STEPS = 120
DISTINCT_CAP = 4000  # (configuration, state) pairs recorded as distinct cases per configuration


class _Suspend(BaseException):
    """Unwinds a simulated process at its next primitive call (it is resumed by re-execution)."""


class HarnessStuck(Exception):
    pass


# ---- seams installed into twisted.python.lockfile for the whole run ---------------------------------
# Simulated processes are *re-execution coroutines*: a process is the deterministic function
# "results of my first k primitive calls -> my (k+1)th primitive call".  To advance process i by one
# step its program is re-run from the start, the first k primitive calls are answered from the
# record (no effect), the (k+1)th is executed on the link table, the program continues to its next
# primitive call, whose request is recorded, and is unwound there with _Suspend(BaseException).
# No threads, nothing to join; the world is plain data and can be cloned for branching.
_CUR = [None, None]  # world, process index currently executing


def _symlink(value, name):
    return _CUR[0].seam("symlink", (value, name))


def _readlink(name):
    return _CUR[0].seam("readlink", (name,))


def _rmlink(name):
    return _CUR[0].seam("rmlink", (name,))


def _kill(pid, sig):
    return _CUR[0].seam("kill", (pid, sig))


_INTERN = {}  # local-state signature -> small int (exact; keeps the `seen` sets small)
FAKE_FD = 1000000  # descriptors of the breaker sidecar file handed to the simulated processes


class _OsProxy:
    """`os` for the lock module: per-process getpid(); open/close of a sidecar file next to the lock
    (used by a flock-serialised stale-lock breaker) are process-local and hand out fake descriptors."""

    def __getattr__(self, n):
        return getattr(os, n)

    def getpid(self):
        return _CUR[0].curpid[_CUR[1]]

    def open(self, path, flags, mode=0o777, **kw):
        if isinstance(path, str) and path.startswith(NAME + "."):
            return FAKE_FD + _CUR[1]
        return os.open(path, flags, mode, **kw)

    def close(self, fd):
        if isinstance(fd, int) and fd >= FAKE_FD:
            return _CUR[0].fd_closed(fd - FAKE_FD)
        return os.close(fd)


class _FcntlProxy:
    """`fcntl` for the lock module: flock() on a fake descriptor is a fifth scheduled primitive with
    blocking semantics (a process waiting for the flock is not runnable)."""

    def __init__(self, real):
        self._real = real

    def __getattr__(self, n):
        return getattr(self._real, n)

    def flock(self, fd, op):
        if isinstance(fd, int) and fd >= FAKE_FD:
            return _CUR[0].seam("flock", ("un" if op & self._real.LOCK_UN else "ex",))
        return self._real.flock(fd, op)


class Seams:
    """Installs the seams; the lock path lives under a mkdtemp() top guarded by an unarmed FaultFS, so
    that a broken lock module that bypassed the seams could still only touch the scratch directory."""

    def __enter__(self):
        global NAME
        from twisted.python import lockfile

        self.lockfile = lockfile
        self.root = os.path.realpath(tempfile.mkdtemp(prefix="vf_c50_"))
        NAME = os.path.join(self.root, "lock")
        self.guard = FaultFS(self.root)
        self.guard.__enter__()
        self.saved = {n: getattr(lockfile, n) for n in ("symlink", "readlink", "rmlink", "kill", "os")}
        lockfile.symlink, lockfile.readlink, lockfile.rmlink, lockfile.kill = _symlink, _readlink, _rmlink, _kill
        lockfile.os = _OsProxy()
        if hasattr(lockfile, "fcntl"):
            self.saved["fcntl"] = lockfile.fcntl
            lockfile.fcntl = _FcntlProxy(lockfile.fcntl)
        return self

    def __exit__(self, *exc):
        for n, v in self.saved.items():
            setattr(self.lockfile, n, v)
        _CUR[0] = _CUR[1] = None
        self.guard.__exit__(None, None, None)
        self.leftovers = os.listdir(self.root)
        shutil.rmtree(self.root, ignore_errors=True)
        return False


def _simple(v):
    if v is None or isinstance(v, (bool, int, str, bytes)):
        return v
    if isinstance(v, OSError):
        return ("exc", type(v).__name__, v.errno)
    if isinstance(v, BaseException):
        return ("exc", type(v).__name__)
    if type(v).__module__ == "twisted.python.lockfile":
        return tuple(sorted((k, _simple(x)) for k, x in vars(v).items()))
    return Ellipsis


# ---- the world: real FilesystemLock code of n processes over the link table --------------------------
class World:
    def __init__(self, cfg, _clone=False):
        from twisted.python.lockfile import FilesystemLock

        self.FilesystemLock = FilesystemLock
        self.cfg = cfg
        n = len(cfg["programs"])
        self.n = n
        if _clone:
            return
        self.table = {}
        self.alive = set(PIDS[:n])
        if cfg["initial"] == "stale":
            self.table[NAME] = str(DEAD)
        elif cfg["initial"] == "foreign":
            self.table[NAME] = str(FOREIGN)
            self.alive.add(FOREIGN)
        self.curpid = list(PIDS[:n])  # what os.getpid() answers for each process right now (fork changes it)
        self.holders = set()
        self.stale_broken = False  # the initial stale link of pid DEAD has been removed (pid DEAD may be reused)
        self.forked = {}           # parent process -> attributes of its lock object at the moment it forked
        self.flock = None          # process holding the breaker flock
        self.victims = {}          # proc -> trace index: live holders whose link a stale-breaker removed
        self.acquired_ever = [False] * n
        self.api = [None] * n      # "lock" / "unlock": which public call the process is inside
        self.results = [[] for _ in range(n)]  # per process: ("ok", value) | ("err", errno) of its primitive calls
        self.pending = [None] * n
        self.local = [None] * n
        self.status = ["new"] * n  # parked / done
        self.trace = []
        self.schedule = []
        self.violations = []       # (key, what, extra) produced by the last step
        for i in range(n):         # run each process up to its first primitive call
            self._run(i, 0)

    def clone(self):
        w = World(self.cfg, _clone=True)
        w.table = dict(self.table)
        w.alive = set(self.alive)
        w.curpid = list(self.curpid)
        w.holders = set(self.holders)
        w.forked = dict(self.forked)
        w.stale_broken = self.stale_broken
        w.flock = self.flock
        w.victims = dict(self.victims)
        w.acquired_ever = list(self.acquired_ever)
        w.api = list(self.api)
        w.results = [list(r) for r in self.results]
        w.pending = list(self.pending)
        w.local = list(self.local)
        w.status = list(self.status)
        w.trace = list(self.trace)
        w.schedule = list(self.schedule)
        w.violations = []
        return w

    # ---- process side ------------------------------------------------------------------------------
    def _run(self, i, budget):
        """(Re-)execute program i: replay the recorded calls, execute `budget` new ones, park at the next."""
        _CUR[0], _CUR[1] = self, i
        self.cursor = 0
        self.budget = budget
        self.suspending = False
        self.curpid[i] = PIDS[i]
        self.live = not self.results[i] and budget == 0  # the very first run: everything is new
        self.api[i] = None
        try:
            PROGRAMS[self.cfg["programs"][i]](self, i)
        except _Suspend:
            return
        if self.budget:
            raise HarnessStuck("process %d finished without issuing the primitive call it was scheduled for" % i)
        self.status[i] = "done"
        self.local[i] = ("done", self.acquired_ever[i])
        self.pending[i] = None

    def seam(self, op, args):
        i = _CUR[1]
        rec = self.results[i]
        if self.cursor < len(rec):      # replay
            kind, val = rec[self.cursor]
            self.cursor += 1
            if kind == "err":
                raise OSError(val, os.strerror(val))
            return val
        if self.budget:                 # the call the scheduler picked: execute it now
            if self.pending[i] != (op, args):
                raise HarnessStuck("process %d is not deterministic: expected %r, issued %r" % (i, self.pending[i], (op, args)))
            self.budget -= 1
            self.cursor += 1
            self.live = True
            try:
                val = self._exec(i, op, args)
            except OSError as e:
                rec.append(("err", e.errno))
                raise
            rec.append(("ok", val))
            return val
        self.pending[i] = (op, args)    # the next call: park here
        sig = self._frames()
        self.local[i] = _INTERN.setdefault(sig, len(_INTERN))  # exact, compact stand-in for the signature
        self.status[i] = "parked"
        self.suspending = True      # the `finally: os.close(fd)` of the unwinding is not a real close
        raise _Suspend()

    def fd_closed(self, i):
        if self.live and not self.suspending and self.flock == i:
            self.flock = None
            self.trace.append({"step": len(self.trace), "proc": i, "pid": PIDS[i], "event": "flock-released-by-close"})

    def _frames(self):
        sig = []
        f = sys._getframe(2)
        top = World._run.__code__
        while f is not None and f.f_code is not top:
            loc = tuple(sorted((k, s) for k, s in ((k, _simple(v)) for k, v in f.f_locals.items()) if s is not Ellipsis))
            sig.append((f.f_code.co_name, f.f_lineno, loc))
            f = f.f_back
        return tuple(sig)

    def _exec(self, i, op, args):
        before = self.table.get(NAME)
        rec = {"step": len(self.trace), "proc": i, "pid": PIDS[i], "api": self.api[i], "op": op, "args": ["<lock>" if a == NAME else a for a in args], "link_before": before}
        self.trace.append(rec)
        err = None
        res = None
        if op == "symlink":
            if args[1] in self.table:
                err = errno.EEXIST
            else:
                self.table[args[1]] = args[0]
        elif op == "readlink":
            if args[0] not in self.table:
                err = errno.ENOENT
            else:
                res = self.table[args[0]]
        elif op == "rmlink":
            if args[0] not in self.table:
                err = errno.ENOENT
            else:
                del self.table[args[0]]
                if before == str(DEAD) and DEAD not in self.alive:
                    self.stale_broken = True
                self._note_removal(i, rec, before)
        elif op == "kill":
            if args[0] not in self.alive:
                err = errno.ESRCH
        elif op == "die":
            self.alive.discard(PIDS[i])
            self.holders.discard(i)
            if self.flock == i:
                self.flock = None
        elif op == "await-pid-reuse":
            res = self.stale_broken
            if res:
                self.alive.add(DEAD)  # the OS hands the dead owner's pid to this new-born process
        elif op == "fork":
            self.forked[i] = args[0]
        elif op == "await-fork":
            res = self.forked.get(args[0])
        elif op == "flock":
            if args[0] == "un":
                if self.flock == i:
                    self.flock = None
            else:
                assert self.flock in (None, i), "scheduler ran a process blocked on the flock"
                self.flock = i
        rec["result"] = errno.errorcode[err] if err else res
        if err:
            raise OSError(err, os.strerror(err))
        return res

    def _note_removal(self, i, rec, before):
        """Recognise the DESIGN 6-26 signature at the moment it happens (see module docstring)."""
        q = int(before) if before.isdigit() else None
        if q not in self.alive or q == PIDS[i]:
            return
        rec["removed_link_of_live_pid"] = q
        if self.api[i] != "lock":
            return
        mine = [x for x in self.trace[:-1] if x.get("proc") == i and "op" in x]
        if len(mine) < 2 or mine[-1]["op"] != "kill" or mine[-1]["result"] != "ESRCH" or mine[-2]["op"] != "readlink":
            return
        read = mine[-2]["result"]
        if mine[-1]["args"][0] != int(read):
            return
        # The remover examined pid D = int(read) and kill(D) said ESRCH IN THIS CALL, yet the link it
        # removes now belongs to a live process: either another pid (classic), or the same number D
        # recycled for a new-born process in between (ABA).  A remover that never got ESRCH for the
        # pid in this call (e.g. trusting a remembered verdict) does NOT match.
        if read == before and int(read) != DEAD:
            return
        if q in PIDS:
            v = PIDS.index(q)
        else:
            born = [j for j in range(self.n) if self.cfg["programs"][j] in ("reborn", "rebornretry") and j in self.holders]
            if q != DEAD or not born:
                return
            v = born[0]
        if v in self.holders:
            rec["stale_break_removed_live_holders_lock"] = True
            self.victims[v] = rec["step"]

    # process-local events, executed by the process thread inside its step
    def acquired(self, i, lock):
        if not self.live:
            return
        self.trace.append({"step": len(self.trace), "proc": i, "pid": PIDS[i], "event": "acquired", "clean": lock.clean})
        self.acquired_ever[i] = True
        self.holders.add(i)
        if len(self.holders) > 1:
            self.violations.append(("two-holders", "two live processes hold the lock at the same time", {"holders": sorted(PIDS[h] for h in self.holders)}))
        if FOREIGN in self.alive:
            self.violations.append(("acquired-while-live-foreign-holds", "lock() returned True although a live non-participant holds the lock", {"proc": PIDS[i]}))

    def released(self, i, exc):
        if not self.live:
            return
        self.trace.append({"step": len(self.trace), "proc": i, "pid": PIDS[i], "event": "unlock-returned" if exc is None else "unlock-raised", "exception": repr(exc) if exc else None})
        if exc is not None:
            self.violations.append(("holder-unlock-raised", "unlock() by the process whose lock() returned True raised", {"proc": PIDS[i], "exception": repr(exc)}))
        self.holders.discard(i)

    def lock_raised(self, i, exc):
        if not self.live:
            return
        self.trace.append({"step": len(self.trace), "proc": i, "pid": PIDS[i], "event": "lock-raised", "exception": repr(exc)})
        self.violations.append(("lock-raised", "lock() raised although the primitives only failed with EEXIST/ENOENT/ESRCH", {"proc": PIDS[i], "exception": repr(exc)}))

    def uncontended(self, i, got):
        """Oracle (7): a lock() call none of whose primitives was interleaved with any other process's
        step, started when the link was absent or named a pid that is not alive, must return True
        (a free lock is acquired, a lock left by a dead process is broken and acquired in that call)."""
        k = len(self.trace) - 1
        while k >= 0 and not (self.trace[k].get("proc") == i and self.trace[k].get("event") == "lock-called"):
            k -= 1
        if k < 0:
            return
        mine = [e for e in self.trace[k + 1:] if e.get("proc") == i and "op" in e]
        if not mine or any(e.get("proc") != i for e in self.trace[mine[0]["step"]:]):
            return
        before = mine[0]["link_before"]
        if before is not None and not (before.isdigit() and int(before) not in self.alive):
            return
        self.trace.append({"step": len(self.trace), "proc": i, "pid": PIDS[i], "event": "uncontended-lock-call", "link_at_start": before, "returned": got})
        if not got:
            self.violations.append(("uncontended-lock-call-failed", "a lock() call that no other process interleaved with, started on a free lock "
                                    "or on the lock of a dead process, returned False", {"proc": PIDS[i], "link_at_start": before}))

    def event(self, i, name, **kw):
        if self.live:
            self.trace.append(dict({"step": len(self.trace), "proc": i, "pid": PIDS[i], "event": name}, **kw))

    # ---- scheduler side --------------------------------------------------------------------------------
    def runnable(self):
        return [i for i in range(self.n) if self.status[i] == "parked"
                and not (self.pending[i] == ("flock", ("ex",)) and self.flock not in (None, i))
                and not (self.pending[i][0] == "await-pid-reuse" and not self.stale_broken
                         and any(self.status[j] != "done" for j in range(self.n) if j != i and self.cfg["programs"][j] not in ("reborn", "rebornretry")))
                and not (self.pending[i][0] == "await-fork" and self.pending[i][1][0] not in self.forked
                         and self.status[self.pending[i][1][0]] != "done")]

    def step(self, i):
        assert self.status[i] == "parked", (i, self.status)
        self.violations = []
        self.schedule.append(i)
        self._run(i, 1)

    def state(self):
        return (self.table.get(NAME), self.flock, self.stale_broken, tuple(sorted(self.forked)), tuple(sorted(self.alive)), tuple(sorted(self.holders)), tuple(self.local),
                tuple(self.acquired_ever), tuple(sorted(self.victims)))

    # ---- known-finding classifier ----------------------------------------------------------------------
    def classify(self, key, extra):
        """two-holders / holder-unlock-raised are attributed to the known mechanism only if, earlier
        in this very schedule, a stale-breaker removed the link of a live holder after having examined
        a different, dead pid (everything after that moment is a consequence: the victim believes it
        holds a lock whose link is gone or belongs to somebody else)."""
        if key in ("two-holders", "holder-unlock-raised") and self.victims:
            return "stale-break-removes-live-lock"
        return key


# ---- programs (run inside the process threads) -------------------------------------------------------
def _lock(w, i, l):
    w.event(i, "lock-called")
    w.api[i] = "lock"
    try:
        got = l.lock()
    except Exception as e:
        got = False
        w.lock_raised(i, e)
    w.api[i] = None
    if w.live:
        w.uncontended(i, got)
    return got


def _cycle(w, i, l):
    got = _lock(w, i, l)
    if got:
        w.acquired(i, l)
        w.api[i] = "unlock"
        exc = None
        try:
            l.unlock()
        except Exception as e:
            exc = e
        w.api[i] = None
        w.released(i, exc)
    return got


def p_once(w, i):
    _cycle(w, i, w.FilesystemLock(NAME))


def p_retry(w, i):
    l = w.FilesystemLock(NAME)
    for attempt in range(2):
        if _cycle(w, i, l):
            break


def p_twice(w, i):
    l = w.FilesystemLock(NAME)
    for cycle in range(2):
        _cycle(w, i, l)


def p_die(w, i):
    l = w.FilesystemLock(NAME)
    if _lock(w, i, l):
        w.acquired(i, l)
        w.seam("die", ())


def p_rogue(w, i):
    l = w.FilesystemLock(NAME)
    w.api[i] = "unlock"
    try:
        l.unlock()
        w.event(i, "rogue-unlock-returned")
    except (ValueError, OSError) as e:
        w.event(i, "rogue-unlock-refused", exception=type(e).__name__)
    w.api[i] = None
    _cycle(w, i, l)


def p_daemon(w, i):
    """The lock object is built, then the process daemonizes (fork, the parent exits) and the child
    — a different, live pid — takes and releases the lock through the inherited object."""
    w.curpid[i] = PARENTS[i]
    l = w.FilesystemLock(NAME)
    w.curpid[i] = PIDS[i]
    _cycle(w, i, l)


def p_forkrogue(w, i):
    """A child forked from another live participant after that one built its lock object: it inherits
    the object, calls unlock() without holding (must be refused), then competes normally."""
    w.curpid[i] = PIDS[(i + 1) % w.n]
    l = w.FilesystemLock(NAME)
    w.curpid[i] = PIDS[i]
    w.api[i] = "unlock"
    try:
        l.unlock()
        w.event(i, "rogue-unlock-returned")
    except (ValueError, OSError) as e:
        w.event(i, "rogue-unlock-refused", exception=type(e).__name__)
    w.api[i] = None
    _cycle(w, i, l)


def p_holdfork(w, i):
    """Takes the lock, FORKS WHILE HOLDING it (the child is another simulated process running
    `forkchild`), keeps holding for a while and releases."""
    l = w.FilesystemLock(NAME)
    if _lock(w, i, l):
        w.acquired(i, l)
        w.seam("fork", (tuple(sorted((k, v) for k, v in vars(l).items() if _simple(v) is not Ellipsis)),))
        w.api[i] = "unlock"
        exc = None
        try:
            l.unlock()
        except Exception as e:
            exc = e
        w.api[i] = None
        w.released(i, exc)


def _forkchild(w, i, again):
    """The child of the first `holdfork` process, born at its fork: another live pid with a copy of
    the parent's lock object (locked == True).  It calls unlock() — what that raises is not judged,
    only its effect on the link — and optionally competes for the lock afterwards.  It is never
    born if the parent finishes without having acquired."""
    parent = w.cfg["programs"].index("holdfork")
    snap = w.seam("await-fork", (parent,))
    if snap is None:
        return
    w.curpid[i] = PIDS[parent]
    l = w.FilesystemLock(NAME)
    vars(l).update(dict(snap))
    w.curpid[i] = PIDS[i]
    w.api[i] = "unlock"
    try:
        l.unlock()
        w.event(i, "inherited-unlock-returned")
    except Exception as e:
        w.event(i, "inherited-unlock-refused", exception=type(e).__name__)
    w.api[i] = None
    if again:
        _cycle(w, i, l)


def p_forkchild(w, i):
    _forkchild(w, i, False)


def p_forkchild2(w, i):
    _forkchild(w, i, True)


def _reborn(w, i, attempts):
    """A process born late that is given the RECYCLED pid of the dead owner of the initial stale
    lock — only after that stale link was broken (else it is never born)."""
    if not w.seam("await-pid-reuse", ()):
        return
    w.curpid[i] = DEAD
    l = w.FilesystemLock(NAME)
    for attempt in range(attempts):
        w.curpid[i] = DEAD
        if _cycle(w, i, l):
            break


def p_reborn(w, i):
    _reborn(w, i, 1)


def p_rebornretry(w, i):
    _reborn(w, i, 2)


PROGRAMS = {"reborn": p_reborn, "rebornretry": p_rebornretry, "holdfork": p_holdfork, "forkchild": p_forkchild, "forkchild2": p_forkchild2, "daemon": p_daemon, "forkrogue": p_forkrogue, "once": p_once, "retry": p_retry, "twice": p_twice, "die": p_die, "rogue": p_rogue}


# ---- exploration -----------------------------------------------------------------------------------
def report(ctx, w, mark):
    """Tally the monitor events of the step just executed (trace[mark:]) and report its violations."""
    for e in w.trace[mark:]:
        ev = e.get("event")
        if ev == "acquired":
            ctx.count("acquisitions")
        elif ev == "unlock-returned":
            ctx.count("holder_unlocks")
        elif ev == "rogue-unlock-refused":
            ctx.count("rogue_unlocks_refused")
        elif ev == "uncontended-lock-call":
            ctx.count("uncontended_lock_calls_free" if e["link_at_start"] is None else "uncontended_lock_calls_dead_owner")
        elif e.get("op") == "rmlink" and e.get("api") == "lock" and e.get("result") is None:
            ctx.count("stale_breaks")
        elif e.get("op") == "die":
            ctx.count("deaths_while_holding")
        elif e.get("op") == "fork":
            ctx.count("forks_while_holding")
        elif e.get("op") == "await-pid-reuse" and e.get("result") is True:
            ctx.count("pid_reuse_births")
        elif ev in ("inherited-unlock-refused", "inherited-unlock-returned"):
            ctx.count("inherited_unlock_calls")
            ctx.count(ev.replace("-", "_"))
    for key, what, extra in w.violations:
        k = w.classify(key, extra)
        wit = {"config": w.cfg, "schedule": list(w.schedule), "trace": w.trace[-60:], "pids": list(PIDS[:w.n]), "dead_pid": DEAD, "foreign_pid": FOREIGN}
        wit.update(extra)
        if k != key:
            wit["generic_key"] = key
            wit["consequence"] = what
            what = ("a process breaking a stale lock examined a dead pid but its rmlink removed the fresh link of a live holder; "
                    "two lock() calls returned True and/or the victim's unlock() raised")
        ctx.violation(k, what, wit)


def final_checks(ctx, w):
    """A complete schedule (every process finished)."""
    cfg = w.cfg
    wit = {"config": cfg, "schedule": list(w.schedule), "trace": w.trace[-60:]}
    if any(st != "done" for st in w.status):
        ctx.violation("all-remaining-processes-blocked", "no process can make progress (blocked on the breaker flock)", wit)
        return
    ctx.count("schedules_completed")
    if cfg["initial"] != "foreign" and not any(w.acquired_ever):
        ctx.violation("nobody-acquired", "no process ever acquired a lock that was free or stale", wit)
    if w.n == 1:
        ctx.count("single_process_checks")
        acq = [e for e in w.trace if e.get("event") == "acquired"]
        locks = [e for e in w.trace if e.get("op") == "symlink"]
        if cfg["programs"] == ["twice"] and cfg["initial"] == "none" and len(acq) != 2:
            ctx.violation("release-not-effective", "a lone process could not re-acquire the lock it had just released", wit)
        if cfg["programs"] == ["once"]:
            if cfg["initial"] == "stale" and not (acq and acq[0]["clean"] is False):
                ctx.violation("lone-process-stale-lock-not-acquired-unclean", "a lone process did not acquire the stale lock in one call with clean == False", wit)
            if cfg["initial"] == "none" and not (acq and acq[0]["clean"] is True and len(locks) == 1):
                ctx.violation("lone-process-free-lock-not-acquired-clean", "a lone process did not acquire the free lock with clean == True", wit)


def explore(ctx, cfg, cfg_id, shard_depth=None):
    """All schedules of one configuration (DFS; branches continue from clones of the plain-data
    world, each step re-executes the stepped process's program from its start).  With shard_depth
    d the tree above depth d is walked without pruning by every shard and each depth-d prefix
    subtree belongs to one shard (its `seen` set only ever contains states whose subtree this
    shard explores completely)."""
    seen = set()
    stack = [(World(cfg), None)]
    nstates = 0
    while stack:
        w, a = stack.pop()
        while True:
            if a is not None:
                mark = len(w.trace)
                w.step(a)
                ctx.count("steps")
                report(ctx, w, mark)
            depth = len(w.schedule)
            if shard_depth is not None and depth == shard_depth and not ctx.owns(repr((cfg_id, w.schedule))):
                break
            s = w.state()
            if shard_depth is None or depth >= shard_depth:
                if s in seen:
                    ctx.count("pruned")
                    break
                seen.add(s)
            nstates += 1
            ctx.count("states")
            ctx.evaluated()
            ctx.count("exclusion_checks")
            if nstates <= DISTINCT_CAP:  # evidence bookkeeping only; every state is explored and counted
                ctx.distinct((cfg_id, s))
            acts = w.runnable()
            if not acts:
                final_checks(ctx, w)
                ctx.maxi("schedule_length", depth)
                for e in w.trace:
                    ctx.seen("events", e.get("op") or e.get("event"))
                    if isinstance(e.get("result"), str) and e["result"] in ("EEXIST", "ENOENT", "ESRCH"):
                        ctx.seen("errnos", e["result"])
                break
            if depth >= MAX_STEPS:
                ctx.exhaustive = False
                ctx.count("truncated_schedules")
                break
            for b in acts[1:]:
                stack.append((w.clone(), b))
            a = acts[0]
    return nstates


def _multisets(items, k, start=0):
    if k == 0:
        yield []
        return
    for a in range(start, len(items)):
        for rest in _multisets(items, k - 1, a):
            yield [items[a]] + rest


def configs(tier):
    progs = ["once", "retry", "twice", "die", "rogue"]
    forked = ["daemon", "forkrogue"]      # lock object built under another pid (fork in between)
    out = []
    for initial in ("none", "stale", "foreign"):
        for p in progs + forked:
            out.append({"programs": [p], "initial": initial})
        for p2 in _multisets(progs + forked, 2):
            out.append({"programs": p2, "initial": initial})
        for p3 in _multisets(progs, 3):
            out.append({"programs": p3, "initial": initial})
        pool = ["once", "die"] + forked if tier == "quick" else progs + forked
        for p3 in _multisets(pool, 3):
            if any(p in forked for p in p3):
                out.append({"programs": p3, "initial": initial})
        if initial == "stale":  # pid reuse: a late-born live process gets the dead owner's pid
            for rb in ("reborn", "rebornretry"):
                for rest in (["twice"], ["retry"], ["twice", "once"], ["twice", "twice"], ["twice", "die"], ["twice", rb]):
                    out.append({"programs": rest + [rb], "initial": initial, "pid_reuse": True})
        # fork AFTER a successful lock(): parent keeps holding, the child uses the inherited object
        for child in ("forkchild", "forkchild2"):
            out.append({"programs": ["holdfork", child], "initial": initial})
            for third in ["once", "retry", "die", "rogue", "daemon", "forkchild", "forkchild2"] + ([] if tier == "quick" else ["twice", "forkrogue"]):
                out.append({"programs": ["holdfork", child, third], "initial": initial})
            if tier != "quick":
                for p2 in _multisets(["once", "die", "retry"], 2):
                    out.append({"programs": ["holdfork", child] + p2, "initial": initial})
        if tier != "quick":
            for p4 in _multisets(["once", "die", "rogue", "retry"], 4):
                out.append({"programs": p4, "initial": initial})
            for p4 in _multisets(["once", "die"] + forked, 4):
                if any(p in forked for p in p4):
                    out.append({"programs": p4, "initial": initial})
    return out


def run(ctx):
    cfgs = configs(ctx.tier)
    if not selftest_or_inconclusive(ctx):
        return
    ctx.exhaustive = True
    # biggest configurations first so that shards finish together
    order = sorted(range(len(cfgs)), key=lambda c: (-len(cfgs[c]["programs"]), c))
    with Seams() as seams:
        for rank, cid in enumerate(order):
            cfg = cfgs[cid]
            if not ctx.owns(rank):
                continue
            ctx.count("configs")
            if cfg.get("pid_reuse"):
                ctx.count("pid_reuse_configurations")
            ctx.count("configs_%d_processes" % len(cfg["programs"]))
            ctx.seen("initial", cfg["initial"])
            ctx.seen("programs", "+".join(cfg["programs"]))
            n = explore(ctx, cfg, cid)
            ctx.maxi("states_per_config", n)
            if rank < 3 * ctx.nshards:
                ctx.sample({"config": cfg, "states": n})
    report_escapes(ctx)
    if seams.leftovers:
        ctx.violation("real-filesystem-touched", "the lock module bypassed its own primitives and created real files", {"files": seams.leftovers})


def replay(ctx, w):
    x = w["witness"]
    with Seams():
        world = World(x["config"])
        for a in x["schedule"]:
            mark = len(world.trace)
            world.step(a)
            report(ctx, world, mark)
        if not world.runnable():
            final_checks(ctx, world)
        ctx.evaluated()
