"""C49 thread pools run every task exactly once within their worker limit.

(a) E1 exhaustive exploration of the REAL `twisted._threads.Team` with `createMemoryWorker()`
    coordinator and workers.  Actions: do(task; the 2nd one raises), grow(1|2), shrink(1|None), set limit 0..2,
    quit, one post-quit probe (do/grow/shrink/quit must all raise AlreadyQuit), perform(coordinator),
    perform(worker k).  Workers are harness wrappers around real MemoryWorkers with a fixed hash so
    that `Team._idle.pop()` is a deterministic function of the history.  `createWorker` mirrors
    `_pool.limitedWorkerCreator` (decides from `team.statistics()`), the monitor keeps its own account.
    Invariants after every action:
      * a worker is created only while the monitor's count of live workers < limit;
      * a worker is never handed a task while it already has one queued/running, nor after quit;
      * no task body runs twice; no unexpected exception out of any Team method / perform();
      * statistics: idle + busy == live workers (monitor), busy >= workers holding a task, all >= 0.
    At quiescence (every explored node is extended by a canonical drain of all queues):
      * every task accepted by do() ran exactly once - unless no live worker is left at all AND the
        Team never retired a worker while tasks were backlogged (the statement's "unless no worker
        could ever be created": the Team serves its backlog whenever a worker is created or becomes
        idle; a correct Team only quits workers while its backlog is empty, so an unrun task next to
        a live worker, or after a worker was quit over a non-empty backlog, is a lost task);
      * a task that never ran with no live worker left is NOT excused when a worker could have been created
        for it: the monitor brackets every coordinator step with Team.statistics() and its count of
        createWorker calls; a step that starts with no idle worker and fewer live workers than the limit
        and ends with the backlog one longer (a submission was coordinated) without createWorker having
        been asked is a missed opportunity; tasks submitted up to then that never run are lost
        (`task-never-ran-though-worker-could-be-created`).  Judged only at quiescence and only for tasks
        that really never ran - a Team that obtains its worker some other way is not faulted.  The
        situation "submission coordinated behind an existing backlog while there is room under the
        limit" (backlog formed at limit 0 or behind busy workers, then the limit is raised) is counted;
      * logException ran once per raising task;
      * after quit(): every created worker was quit exactly once and the coordinator is quit.
(b) stress of the real `ThreadPool` with real threads and E5 yield injection inside Team /
    LockWorker / ThreadWorker / ThreadPool code: random min/max, tasks submitted before start(),
    1-8 submitter threads, ok/raising (ValueError, and SystemExit / KeyboardInterrupt /
    asyncio.CancelledError / GeneratorExit: BaseExceptions that are not Exceptions)/yielding/gated tasks, adjustPoolsize while submitting, stop().
    Monitors (log under one lock): each body ran once; onResult exactly once with the right
    (success, value); at every task entry the number of running bodies <= the largest max in force so
    far; gate phases block max+2 tasks to saturate the pool deterministically; after stop() returned
    no pool thread is alive and a later submission never runs.
(c) the REAL `_pool.pool()` team (real limitedWorkerCreator + LockWorker + ThreadWorkers) with a thread
    factory whose threads never run: deterministic, synchronous.  All sequences of grow(1|2) / do /
    shrink(1|None) / limit +-1 up to depth 4 (quick) / 5 (thorough) for limits 1..3; whenever the pool asks the factory for a
    thread, the Team's idle + busy count must be below the limit in force
    (`pool-worker-created-at-limit`).  Plus 18 scripted, synchronised scenarios on the real
    ThreadPool(0, m): m gated jobs, wait until all workers are idle, startAWorker() x k and
    adjustPoolsize(min=max): `pool.workers` and the number of live pool threads (counted by a
    threadFactory wrapper) never exceed max; after lowering max the pool comes down to it.
Application code re-enters and misbehaves: in (a) the 1st task submits a child task from inside the
worker (accepted -> must run once; after quit -> AlreadyQuit); in (b) tasks submit a child from the
task body or from onResult, onResult callbacks raise (Exception and SystemExit) after recording, and
30 % of the pools get a second burst after a resize (left-over state).  Exactly-once applies to
children and to tasks whose onResult raised alike.
Guards: ThreadPool documents that callInThread/stop come from one thread - submitters are joined
before stop() is called; transient excess after LOWERING max is legitimate (compared against the
largest max so far); max >= 1 always (max 0 = "no worker can be created"); a stop() or a gate that
does not complete within its watchdog is INCONCLUSIVE.  The TLA+ cross-check of the property text
is outside this technique family.
"""
import threading
import time

LEVEL = "exploration"
ENGINE = "E1-explore (breadth-first variant, local)+E5-threads"
TECHNIQUE = "runtime monitoring: exhaustive schedule exploration of the real Team with invariant/quiescence monitors + exactly-once/concurrency-bound monitors on the real ThreadPool under injected yields"
RULE = ("(a) every history of Team actions up to depth 8 (quick) / 11 (thorough) with <= 3 tasks (the 2nd raises), limit 0..2, <= 2 grow, "
        "<= 2 shrink and <= 2 limit changes, breadth-first with pruning by a hash of the real team/worker/queue state; a case is distinct by its action history, non-trivial = at least one task submitted; "
        "histories include backlogs formed at limit 0 / behind busy workers followed by a raised limit and a further submission (every coordinator step is bracketed by statistics() and the createWorker call count); "
        "(b) one case = one generated ThreadPool scenario (min, max, pre-start backlog, submitters, task kinds, adjustPoolsize plan, "
        "gate phase), distinct by that configuration")
ASSUMPTIONS = [
    "(a) is exhaustive only for the stated bounds; the memory coordinator defers work, the LockWorker of the real pool runs it inline: (b) covers that",
    "(b) interleavings are those of the OS scheduler plus statement-level yield injection",
    "the TLA+ model / trace validation named in the property is not part of this check",
]
SHARDS = {"quick": 4, "thorough": 16}
FLOORS = {"explore_states": 5000, "quiescence_checks": 5000, "quit_quiescence_checks": 1000, "tasks_run_in_exploration": 5000,
          "worker_creations_checked": 2000, "stranded_task_cases": 10,
          "submissions_coordinated_behind_backlog_with_room": 100, "post_quit_probes": 100,
          "pools": 40, "pool_tasks_run": 4000, "pool_onresult": 4000, "pool_stops": 40, "gate_phases": 5, "yields_injected": 2000,
          "pool_tasks_failed_as_planned": 500, "pool_pre_start_tasks": 50, "pool_tasks_raised_baseexception": 400,
          "pool_reentrant_submissions": 200, "pool_onresult_raised": 200, "pool_second_bursts": 10, "tasks_submitted_from_a_task": 1000,
          "real_creator_cases": 5000, "real_creator_creations_checked": 5000, "scripted_pools": 18, "scripted_limit_checks": 50}
WATCHDOG_S = {"quick": 900, "thorough": 3000}
READY = True

MAX_TASKS = 3


def _base_kinds():
    import asyncio

    return {"sysexit": lambda: SystemExit(3), "kbint": KeyboardInterrupt, "cancelled": asyncio.CancelledError, "genexit": GeneratorExit}


BASE_KINDS = _base_kinds()
# 20 % of the tasks raise a non-Exception BaseException; spawn/ospawn submit a child task from inside the
# task body / the onResult callback; oraise/obase: the onResult callback itself raises after recording
TASK_KINDS = ["ok"] * 8 + ["raise"] * 4 + ["yield"] * 4 + list(BASE_KINDS) + ["spawn", "ospawn", "oraise", "obase"]
MAX_LIMIT = 2
BUDGET = 2  # grow / shrink / limit-change actions allowed per history (each)


# ------------------------------------------------------------------------------------------- (a)
class Stop(Exception):
    pass


def _fp(obj, depth=0):
    """Fingerprint of a queued closure (state hash only): name + recognisable closure contents."""
    if isinstance(obj, Task):
        return ("T", obj.i)
    if isinstance(obj, W):
        return ("W", obj.slot)
    if obj is None or isinstance(obj, (int, str, bool)):
        return obj
    code = getattr(obj, "__code__", None)
    if code is not None and depth < 4:
        cells = tuple(_fp(c.cell_contents, depth + 1) for c in (obj.__closure__ or ()) if _has(c))
        return (code.co_name, code.co_firstlineno, cells)
    return type(obj).__name__


def _has(cell):
    try:
        cell.cell_contents
        return True
    except ValueError:
        return False


class Task:
    def __init__(self, world, i, raises, spawns=False):
        self.world, self.i, self.raises, self.spawns = world, i, raises, spawns
        self.runs = 0
        self.accepted = False

    def __call__(self):
        self.runs += 1
        w = self.world
        w.ctx.count("tasks_run_in_exploration")
        if self.runs > 1:
            w.bad("task-ran-twice", "a task body ran more than once", task=self.i)
        if w.running_on is None:
            w.bad("task-ran-outside-worker", "a task body ran outside a worker's perform()", task=self.i)
        if self.spawns and self.runs == 1:
            # application code re-entering the Team from inside a worker: submit a child task
            from twisted._threads import AlreadyQuit

            child = Task(w, len(w.tasks), False)
            w.tasks.append(child)
            try:
                w.team.do(child)
                child.accepted = True
                w.ctx.count("tasks_submitted_from_a_task")
                if w.quit_called:
                    w.bad("accepted-after-quit", "Team.do() called from inside a running task after quit() did not raise AlreadyQuit", task=self.i)
            except AlreadyQuit:
                w.ctx.count("task_submissions_refused_after_quit")
        if self.raises:
            raise RuntimeError("task %d fails on purpose" % self.i)


class W:
    """Real MemoryWorker behind a wrapper with a deterministic hash (IWorker by duck typing)."""

    def __init__(self, world, k, slot):
        from twisted._threads import createMemoryWorker

        # k = creation index (witness only); slot = smallest number not used by a live worker: the
        # hash, so that Team._idle.pop() and the abstract state do not depend on how many workers
        # were created and quit before (a quit MemoryWorker is inert: its queue is [NoMoreWork])
        self.world, self.k, self.slot = world, k, slot
        self.inner, self._perform = createMemoryWorker()
        self.quit_calls = 0
        self.queued = 0  # tasks handed over and not yet finished

    def __hash__(self):
        return self.slot

    def __eq__(self, other):
        return self is other

    def do(self, work):
        w = self.world
        if self.quit_calls:
            w.bad("work-given-to-quit-worker", "Team handed work to a worker it had already quit", worker=self.k)
        if self.queued:
            w.bad("worker-given-two-tasks", "a worker was handed a task while it still had one queued or running", worker=self.k)
        self.queued += 1
        self.inner.do(work)

    def quit(self):
        self.quit_calls += 1
        if self.quit_calls > 1:
            self.world.bad("worker-quit-twice", "Team quit the same worker twice", worker=self.k)
        # evidence for the quiescence oracle: was a worker retired while tasks were backlogged?
        if self.world.team.statistics().backloggedWorkCount > 0:
            self.world.retired_with_backlog.append(self.k)
        self.inner.quit()

    def performable(self):
        p = self.inner._pending
        return bool(p) and not _is_nomore(p[0])

    def perform(self):
        w = self.world
        w.running_on = self.k
        try:
            self._perform()
        finally:
            w.running_on = None
            self.queued -= 1


def _is_nomore(x):
    from twisted._threads._memory import NoMoreWork

    return x is NoMoreWork


class TeamWorld:
    def __init__(self, ctx):
        from twisted._threads import Team, createMemoryWorker

        self.ctx = ctx
        self.history = []
        self.coord, self._coord_perform = createMemoryWorker()
        self.workers = []
        self.tasks = []
        self.n_do = 0
        self.limit = 1
        self.budget = {"grow": BUDGET, "shrink": BUDGET, "limit": BUDGET}
        self.quit_called = False
        self.probed = False
        self.logged = 0
        self.running_on = None
        self.dead = False
        self.retired_with_backlog = []
        self.create_calls = 0
        self.missed = []  # coordinator steps that backlogged a submission without asking for a worker although there was room
        self.team = Team(self.coord, self.create_worker, self.log_exception)
        self._actions = self._state = None

    # ---- monitor plumbing
    def bad(self, key, what, **extra):
        if not self.dead:
            st = self.team.statistics()
            wit = {"history": list(self.history), "limit": self.limit, "stats": [st.idleWorkerCount, st.busyWorkerCount, st.backloggedWorkCount],
                   "workers": [[x.k, x.quit_calls, x.queued] for x in self.workers], "tasks": [[t.i, t.raises, t.runs, t.accepted] for t in self.tasks]}
            wit.update(extra)
            self.ctx.violation(key, what, wit)
        self.dead = True
        raise Stop(key)

    def live(self):
        return sum(1 for x in self.workers if not x.quit_calls)

    def create_worker(self):
        # same decision rule as twisted._threads._pool.limitedWorkerCreator
        self.create_calls += 1
        st = self.team.statistics()
        if st.busyWorkerCount + st.idleWorkerCount >= self.limit:
            return None
        self.ctx.count("worker_creations_checked")
        if self.live() >= self.limit:
            self.bad("worker-created-at-limit", "a worker was created while the number of live workers had reached the limit "
                     "(Team.statistics() under-reports its workers)", live=self.live())
        used = {x.slot for x in self.workers if not x.quit_calls}
        x = W(self, len(self.workers), next(i for i in range(len(used) + 1) if i not in used))
        self.workers.append(x)
        return x

    def log_exception(self):
        self.logged += 1

    def coord_performable(self):
        p = self.coord._pending
        return bool(p) and not _is_nomore(p[0])

    def coord_step(self):
        """One coordinator perform(), bracketed by the public view (statistics, createWorker calls)."""
        st = self.team.statistics()
        room = st.idleWorkerCount == 0 and self.live() < self.limit
        backlog, calls, n_workers = st.backloggedWorkCount, self.create_calls, len(self.workers)
        self._guard(self._coord_perform, "coordinator perform()")
        if not room:
            return
        after = self.team.statistics().backloggedWorkCount
        if after == backlog + 1 and self.create_calls == calls:
            # only the coordination of a submission lengthens the backlog; there was no idle worker and
            # room under the limit, yet createWorker was not asked
            self.missed.append({"tasks_submitted_so_far": len(self.tasks), "live": self.live(), "limit": self.limit, "backlog_before": backlog})
        elif backlog > 0 and after == backlog and len(self.workers) == n_workers + 1:
            # a submission coordinated behind an existing backlog got a new worker (grow() would have
            # shortened the backlog): the situation is exercised
            self.ctx.count("submissions_coordinated_behind_backlog_with_room")

    # ---- E1 interface
    def actions(self):
        if self._actions is None:
            self._cache()
        return self._actions

    def state(self):
        if self._state is None:
            self._cache()
        return self._state

    def _cache(self):
        if self.dead:
            self._actions, self._state = [], ("dead", tuple(map(repr, self.history)))
            return
        acts = []
        if not self.quit_called:
            if self.n_do < MAX_TASKS:
                # 1st task submits a child task from inside the worker, 2nd raises, 3rd succeeds
                acts.append(("do", ("spawn", "raise", "ok")[min(self.n_do, 2)]))
            if self.budget["grow"]:
                acts += [("grow", 1), ("grow", 2)]
            if self.budget["shrink"]:
                acts += [("shrink", 1), ("shrink", None)]
            acts.append(("quit",))
        elif not self.probed:
            acts.append(("probe",))
        if self.budget["limit"]:
            acts += [("limit", v) for v in range(MAX_LIMIT + 1) if v != self.limit]
        if self.coord_performable():
            acts.append(("pc",))
        acts += [("pw", x.slot) for x in self.workers if not x.quit_calls and x.performable()]
        self._actions = acts
        t = self.team
        self._state = (
            self.limit, self.quit_called, self.probed, self.logged, tuple(sorted(self.budget.items())), bool(self.retired_with_backlog), bool(self.missed),
            self.n_do, tuple((x.raises, x.spawns, x.runs, x.accepted) for x in self.tasks),
            tuple(sorted(x.slot for x in t._idle)), t._busyCount, tuple(_fp(p) for p in t._pending), t._toShrink,
            t._shouldQuitCoordinator, t._quit.isSet, self.coord._quit.isSet,
            tuple("NoMore" if _is_nomore(p) else _fp(p) for p in self.coord._pending),
            tuple(sorted((x.slot, x.quit_calls, x.queued, tuple("NoMore" if _is_nomore(p) else _fp(p) for p in x.inner._pending))
                         for x in self.workers if not (x.quit_calls == 1 and x.queued == 0 and len(x.inner._pending) == 1))),
        )

    def apply(self, a):
        self.history.append(a)
        if self.dead:
            return
        self._actions = self._state = None  # recomputed lazily (before finish(), which is destructive)
        try:
            self._apply(a)
            self.invariants()
        except Stop:
            pass

    def _guard(self, fn, what):
        """Run a Team entry point / perform(); anything it raises is a defect (tasks' own errors are
        caught by Team and go to logException)."""
        try:
            fn()
        except Stop:
            raise
        except BaseException as e:
            self.bad("unexpected-exception", "%s raised %s: %s" % (what, type(e).__name__, e))

    def _apply(self, a):
        from twisted._threads import AlreadyQuit

        kind = a[0]
        if kind == "do":
            t = Task(self, len(self.tasks), a[1] == "raise", spawns=(a[1] == "spawn"))
            self.n_do += 1
            self.tasks.append(t)
            self._guard(lambda: self.team.do(t), "Team.do")
            t.accepted = True
        elif kind == "grow":
            self.budget["grow"] -= 1
            self._guard(lambda: self.team.grow(a[1]), "Team.grow")
        elif kind == "shrink":
            self.budget["shrink"] -= 1
            self._guard(lambda: self.team.shrink(a[1]), "Team.shrink")
        elif kind == "limit":
            self.budget["limit"] -= 1
            self.limit = a[1]
        elif kind == "quit":
            self.quit_called = True
            self._guard(self.team.quit, "Team.quit")
        elif kind == "probe":
            self.probed = True
            self.ctx.count("post_quit_probes")
            for name, fn in (("do", lambda: self.team.do(lambda: None)), ("grow", lambda: self.team.grow(1)),
                             ("shrink", lambda: self.team.shrink(1)), ("quit", self.team.quit)):
                try:
                    fn()
                except AlreadyQuit:
                    continue
                except BaseException as e:
                    self.bad("unexpected-exception", "Team.%s after quit raised %s" % (name, type(e).__name__))
                self.bad("accepted-after-quit", "Team.%s() after quit() did not raise AlreadyQuit" % name, method=name)
        elif kind == "pc":
            self.coord_step()
        elif kind == "pw":
            x = next(x for x in self.workers if not x.quit_calls and x.slot == a[1])
            self._guard(x.perform, "worker perform()")

    def invariants(self):
        st = self.team.statistics()
        idle, busy, backlog = st.idleWorkerCount, st.busyWorkerCount, st.backloggedWorkCount
        holding = sum(1 for x in self.workers if x.queued)
        if min(idle, busy, backlog) < 0 or idle + busy != self.live() or busy < holding:
            self.bad("statistics-inconsistent", "Team.statistics() disagrees with the monitor's account of workers",
                     live=self.live(), holding=holding)

    def finish(self):
        """Canonical drain to quiescence + the quiescence oracle (the world is discarded afterwards)."""
        if self.dead:
            return
        try:
            for _ in range(400):
                if self.coord_performable():
                    self.coord_step()
                else:
                    x = next((x for x in self.workers if x.performable()), None)
                    if x is None:
                        break
                    self._guard(x.perform, "worker perform()")
                self.invariants()
            else:
                self.bad("no-quiescence", "queues still not empty after 400 perform() steps")
            self.ctx.count("quiescence_checks")
            stranded = 0
            for t in self.tasks:
                if not t.accepted:
                    continue
                if t.runs == 0:
                    # Legitimately stranded only if no worker is left at all: the Team retries its
                    # backlog whenever a worker is created or becomes idle, so an unrun task next to
                    # a live worker at quiescence is a lost task.
                    if self.live() == 0 and not self.retired_with_backlog:
                        if self.missed and t.i < self.missed[-1]["tasks_submitted_so_far"]:
                            self.bad("task-never-ran-though-worker-could-be-created", "a task accepted by Team.do() never ran and no worker is left, although "
                                     "the Team coordinated a submission with no idle worker and fewer workers than the limit without asking createWorker "
                                     "(it queued the task behind the backlog instead)", task=t.i, missed=self.missed[:3])
                        stranded += 1
                        continue
                    if self.retired_with_backlog:
                        self.bad("task-stranded-by-worker-retirement", "a task accepted by Team.do() never ran: the Team retired a worker while the task was "
                                 "backlogged instead of giving it the task (a worker existed / could be created)", task=t.i, retired=self.retired_with_backlog)
                    self.bad("task-never-ran", "a task accepted by Team.do() before quit() never ran although a live worker exists at quiescence", task=t.i)
            if stranded:
                self.ctx.count("stranded_task_cases")
            want_logged = sum(1 for t in self.tasks if t.raises and t.runs)
            if self.logged != want_logged:
                self.bad("logexception-count", "logException ran %d times for %d failed tasks" % (self.logged, want_logged))
            if self.quit_called:
                from twisted._threads import AlreadyQuit

                self.ctx.count("quit_quiescence_checks")
                left = [x.k for x in self.workers if x.quit_calls != 1]
                if left:
                    self.bad("worker-not-quit-after-team-quit", "after quit() and quiescence some workers were not quit", workers=left)
                try:
                    self.coord.do(lambda: None)
                except AlreadyQuit:
                    pass
                else:
                    self.bad("coordinator-not-quit", "after quit() and quiescence the coordinator was not quit")
        except Stop:
            pass


def explore_team(ctx):
    """E1-style stateless exploration, breadth-first: a state is expanded the first time it is
    reached, i.e. at its smallest depth, so one global `seen` set prunes soundly for the depth bound
    (explore.dfs prunes poorly here: it meets most states first near the depth limit).  Histories are
    partitioned over shards by their first two actions; every unique state is extended by the
    canonical drain and judged at quiescence (`finish`)."""
    depth = ctx.size(8, 11) if ctx.size(100, 100) == 100 else (6 if ctx.quick else 8)

    def build(history):
        w = TeamWorld(ctx)
        for a in history:
            w.apply(a)
        return w

    root = build([])
    seen = {hash(root.state())}  # 64-bit tuple hashes (PYTHONHASHSEED=0): memory; a collision could only prune, never alarm
    frontier = [([], list(root.actions()))]
    root.finish()
    states, transitions, pruned = 1, 0, 0
    for d in range(depth):
        nxt = []
        for hist, acts in frontier:
            for a in acts:
                h2 = hist + [a]
                if len(h2) == 2 and not ctx.owns(repr(h2)):
                    continue
                transitions += 1
                w = build(h2)
                st = hash(w.state())
                if st in seen:
                    pruned += 1
                    continue
                seen.add(st)
                nxt.append((h2, list(w.actions())))
                states += 1
                ctx.evaluated()
                if any(x[0] == "do" for x in h2):
                    ctx.distinct(("team", tuple(h2)))
                if d == depth - 1 and ctx.counters.get("explore_samples", 0) < 2:
                    ctx.count("explore_samples")
                    ctx.sample({"team_history": h2, "tasks": [[t.i, t.raises, t.runs] for t in w.tasks], "workers": len(w.workers)}, limit=2)
                w.finish()  # canonical drain + quiescence oracle; destructive, the world is dropped
        frontier = nxt
        ctx.maxi("explore_depth", d + 1)
        if not frontier:
            ctx.count("explore_closed_shards")  # this shard's part of the space is closed under all actions
            break
    ctx.count("explore_states", states)
    ctx.count("explore_transitions", transitions)
    ctx.count("explore_pruned", pruned)
    ctx.exhaustive = True


def replay_team(ctx, history):
    w = TeamWorld(ctx)
    for a in history:
        w.apply(tuple(a) if isinstance(a, list) else a)
    w.finish()
    ctx.evaluated()


# ------------------------------------------------------------------------------------------- (b)
class PoolMonitor:
    def __init__(self):
        self.lock = threading.Lock()
        self.cond = threading.Condition(self.lock)
        self.running = 0
        self.max_running = 0
        self.body_runs = {}
        self.results = {}
        self.max_ever = 0
        self.over = []  # (task id, running, max_ever) at entry
        self.after_stop_runs = 0
        self.stopped = False
        self.spawned = 0


def run_pool_case(ctx, case, inj_codes):
    from twisted.python import threadpool
    from twisted.python.failure import Failure
    from vf.engines.threads import YieldInjector

    rng = ctx.case_rng("pool", case)
    mn = rng.choice([0, 0, 1, 2, 3])
    mx = max(1, mn + rng.choice([0, 0, 1, 2, 4]))
    n_sub = rng.choice([1, 1, 2, 4, 8])
    n_tasks = rng.choice([20, 60, 120, 200])
    pre_start = rng.choice([0, 0, 0, 3, 10])
    adjust = rng.random() < 0.4
    lower = adjust and rng.random() < 0.4
    gate = rng.random() < 0.3
    two_bursts = rng.random() < 0.3
    p_yield = rng.choice([0.05, 0.15, 0.4])
    cfg = {"case": case, "min": mn, "max": mx, "submitters": n_sub, "tasks": n_tasks, "pre_start": pre_start, "adjust": adjust,
           "may_lower_max": lower, "gate": gate, "two_bursts": two_bursts, "p": p_yield}
    mon = PoolMonitor()
    mon.max_ever = mx

    class DaemonThread(threading.Thread):
        def __init__(self, *a, **kw):
            kw["daemon"] = True  # a broken pool must not keep the shard process alive
            threading.Thread.__init__(self, *a, **kw)

    class Pool(threadpool.ThreadPool):
        threadFactory = DaemonThread

    pool = Pool(mn, mx, name="c49-%d" % case)
    release = threading.Event()
    planned = {}

    def make(tid, kind):
        spawning_body = None

        def body():
            with mon.lock:
                mon.body_runs[tid] = mon.body_runs.get(tid, 0) + 1
                mon.running += 1
                mon.max_running = max(mon.max_running, mon.running)
                if mon.running > mon.max_ever:
                    mon.over.append((tid, mon.running, mon.max_ever))
                if mon.stopped:
                    mon.after_stop_runs += 1
                mon.cond.notify_all()
            try:
                if kind == "yield":
                    time.sleep(0)
                elif kind == "gate":
                    release.wait(30)
                elif kind == "raise":
                    raise ValueError(tid)
                elif kind in BASE_KINDS:
                    raise BASE_KINDS[kind]()  # BaseException that is not an Exception: still "a task that raises"
                return ("value", tid)
            finally:
                with mon.lock:
                    mon.running -= 1

        def on_result(ok, value):
            with mon.lock:
                mon.results.setdefault(tid, []).append((ok, value))
            if kind == "ospawn":
                spawn(("oc",) + tid)
            elif kind == "oraise":
                raise ValueError("onResult of %r fails on purpose" % (tid,))
            elif kind == "obase":
                raise SystemExit(5)  # onResult raising a BaseException-only class: the worker must survive

        with mon.lock:
            planned[tid] = kind
        if kind == "spawn":
            spawning_body = make_spawning(tid, body)
        return on_result, (spawning_body if kind == "spawn" else body)

    def spawn(child_tid):
        # application code re-entering the pool from a pool thread (task body / onResult)
        submit(child_tid, "ok")
        with mon.lock:
            mon.spawned += 1
            mon.cond.notify_all()

    def make_spawning(tid, body):
        def spawning_body():
            r = body()
            spawn(("c",) + tid)
            return r
        return spawning_body

    def submit(tid, kind):
        on_result, body = make(tid, kind)
        pool.callInThreadWithCallback(on_result, body)

    problems = []
    inj = YieldInjector(inj_codes, p=p_yield, seed=rng.randrange(2 ** 31))
    inj.start()
    try:
        for j in range(pre_start):
            submit(("pre", j), rng.choice(["ok", "raise", "yield", "sysexit", "cancelled"]))
        pool.start()
        if gate:
            ng = mx + 2
            for j in range(ng):
                submit(("gate", j), "gate")
            with mon.lock:
                ok = mon.cond.wait_for(lambda: sum(1 for t in mon.body_runs if t[0] == "gate") >= min(ng, mx), timeout=20)
            if not ok:
                problems.append("gate phase: pool of max %d did not start %d tasks within 20 s" % (mx, min(ng, mx)))
            time.sleep(0.003)  # lets an over-limit worker (if the pool created one) reach the entry check
            release.set()
            ctx.count("gate_phases")
        per = [n_tasks // n_sub + (1 if s < n_tasks % n_sub else 0) for s in range(n_sub)]
        plans = [[rng.choice(TASK_KINDS) for _ in range(per[s])] for s in range(n_sub)]

        def submitter(s):
            for j, kind in enumerate(plans[s]):
                submit((s, j), kind)

        threads = [threading.Thread(target=submitter, args=(s,), daemon=True) for s in range(n_sub)]
        for t in threads:
            t.start()
        if adjust:
            for _ in range(rng.randint(1, 4)):
                time.sleep(0)
                new_max = max(1, mx + rng.choice([1, 2, 3] if not lower else [-2, -1, 1, 2]))
                new_min = min(new_max, rng.choice([0, 1, mn]))
                with mon.lock:
                    mon.max_ever = max(mon.max_ever, new_max)
                pool.adjustPoolsize(new_min, new_max)
                mx = new_max
        for t in threads:
            t.join(60)
            if t.is_alive():
                problems.append("a submitter thread did not finish within 60 s")
        # every task that re-enters the pool must have done so before stop() (a submission racing
        # with stop() may legitimately be dropped); event-synchronised, INCONCLUSIVE on time-out
        n_spawners = sum(1 for pl in plans for k_ in pl if k_ in ("spawn", "ospawn"))
        with mon.lock:
            if not mon.cond.wait_for(lambda: mon.spawned >= n_spawners, timeout=60):
                problems.append("re-entrant submissions did not all happen within 60 s (%d/%d)" % (mon.spawned, n_spawners))
        ctx.count("pool_reentrant_submissions", n_spawners)
        if two_bursts and not problems:
            # state left over from the first burst: same pool, resized, second burst from this thread
            new_max = max(1, mx + rng.choice([-1, 0, 1]))
            with mon.lock:
                mon.max_ever = max(mon.max_ever, new_max)
            pool.adjustPoolsize(min(mn, new_max), new_max)
            mx = new_max
            for j in range(rng.choice([5, 20, 40])):
                submit(("burst2", j), rng.choice(["ok", "raise", "yield", "oraise"]))
            ctx.count("pool_second_bursts")
        stopper = threading.Thread(target=pool.stop, daemon=True)
        stopper.start()
        stopper.join(60)
        if stopper.is_alive():
            problems.append("ThreadPool.stop() did not return within 60 s")
        else:
            ctx.count("pool_stops")
            alive = [t.name for t in pool.threads if t.is_alive()]
            with mon.lock:
                mon.stopped = True
            submit(("late", 0), "ok")  # documented: dropped silently once the pool was stopped
            del planned[("late", 0)]
            time.sleep(0.002)
    finally:
        inj.stop()
    ctx.count("yields_injected", inj.yields)
    ctx.count("pools")
    ctx.evaluated()
    ctx.distinct(("pool", tuple(sorted(cfg.items()))))
    ctx.maxi("pool_concurrency", mon.max_running)
    ctx.maxi("pool_threads", len(pool.threads))
    ctx.count("pool_pre_start_tasks", pre_start)
    if problems:
        for pb in problems:
            ctx.inconclusive("C49 pool case %d: %s" % (case, pb))
        return
    with mon.lock:
        runs, results, over = dict(mon.body_runs), {k: list(v) for k, v in mon.results.items()}, list(mon.over)
        late = mon.after_stop_runs
    wit = dict(cfg, threads_created=len(pool.threads), max_running=mon.max_running, max_ever=mon.max_ever)
    ctx.count("pool_tasks_run", sum(runs.values()))
    ctx.count("pool_onresult", sum(len(v) for v in results.values()))
    if alive:
        ctx.violation("stop-returned-with-live-threads", "ThreadPool.stop() returned while pool threads were still alive", dict(wit, alive=alive[:8]))
    if ("late", 0) in runs or ("late", 0) in results:
        ctx.violation("task-submitted-after-stop-ran", "a task submitted after stop() returned was run", wit)
    elif late:
        ctx.violation("task-body-entered-after-stop-returned", "a task body started running after stop() had returned (stop() did not wait for its thread)", dict(wit, n=late))
    if over:
        ctx.violation("more-running-tasks-than-max", "more task bodies were running at once than the largest max the pool ever had", dict(wit, over=over[:5]))
    never = [t for t in planned if runs.get(t, 0) == 0]
    twice = [t for t in planned if runs.get(t, 0) > 1]
    if never:
        ctx.violation("pool-task-never-ran", "a task submitted before stop() had not run when stop() returned", dict(wit, tasks=never[:8], n=len(never)))
    if twice:
        ctx.violation("pool-task-ran-twice", "a task body ran more than once", dict(wit, tasks=twice[:8]))
    for t, kind in planned.items():
        res = results.get(t, [])
        if runs.get(t, 0) != 1:
            continue
        if len(res) != 1:
            ctx.violation("onresult-not-exactly-once", "onResult was called %d times for one task" % len(res), dict(wit, task=t, kind=kind))
            continue
        ok, value = res[0]
        if kind in ("oraise", "obase"):
            ctx.count("pool_onresult_raised")
        if kind == "raise":
            ctx.count("pool_tasks_failed_as_planned")
            good = ok is False and isinstance(value, Failure) and value.check(ValueError) and value.value.args == (t,)
        elif kind in BASE_KINDS:
            ctx.count("pool_tasks_raised_baseexception")
            ctx.seen("baseexception_kinds_reported", kind)
            good = ok is False and isinstance(value, Failure) and value.type is type(BASE_KINDS[kind]())
        else:
            good = ok is True and value == ("value", t)
        if not good:
            ctx.violation("onresult-wrong-outcome", "onResult reported the wrong (success, value) for a task", dict(wit, task=t, kind=kind, got=[ok, repr(value)[:200]]))
    if case < 3 * ctx.nshards:
        ctx.sample(dict(wit, tasks_run=sum(runs.values()), yields=inj.yields), limit=4)


# ------------------------------------------------------------------------------------------- (c)
CREATOR_OPS = [("grow", 1), ("grow", 2), ("do",), ("shrink", 1), ("shrink", None), ("limit", -1), ("limit", 1)]


def explore_real_creator(ctx):
    """The REAL `twisted._threads._pool.pool()` (real limitedWorkerCreator, LockWorker coordinator,
    ThreadWorkers) with a thread factory whose threads never run: everything is synchronous and
    deterministic.  Workers handed a task stay busy, grown workers stay idle.  Every sequence of
    grow/do/shrink/limit-change up to the depth bound (4 quick, 5 thorough) is run for limits 1..3; at every thread the
    pool asks for, the Team's own count of workers (idle + busy) must be below the limit in force."""
    import itertools

    from twisted._threads import _pool

    depth = ctx.size(4, 5) if ctx.size(100, 100) == 100 else 4
    n = 0
    for m in (1, 2, 3):
        for d in range(1, depth + 1):
            for seq in itertools.product(CREATOR_OPS, repeat=d):
                n += 1
                if not ctx.owns(n):
                    continue
                run_creator_case(ctx, _pool, m, seq)


def run_creator_case(ctx, _pool, m, seq):
    state = {"limit": m, "created": 0, "team": None, "bad": None}

    class InertThread:
        def __init__(self, target):
            self.target = target

        def start(self):
            pass  # never runs: the worker's queue is simply never consumed

    def factory(target):
        st = state["team"].statistics()
        have = st.idleWorkerCount + st.busyWorkerCount
        ctx.count("real_creator_creations_checked")
        if have >= state["limit"] and state["bad"] is None:
            state["bad"] = {"workers_before": have, "idle": st.idleWorkerCount, "busy": st.busyWorkerCount, "limit": state["limit"]}
        state["created"] += 1
        return InertThread(target)

    team = state["team"] = _pool.pool(lambda: state["limit"], factory)
    done = []
    try:
        for op in seq:
            done.append(op)
            if op[0] == "grow":
                team.grow(op[1])
            elif op[0] == "do":
                team.do(lambda: None)
            elif op[0] == "shrink":
                team.shrink(op[1])
            else:
                state["limit"] = max(0, min(3, state["limit"] + op[1]))
            if state["bad"]:
                break
        st = team.statistics()
        team.quit()
    except BaseException as e:
        ctx.violation("unexpected-exception", "the real pool() team raised %s: %s" % (type(e).__name__, e), {"initial_limit": m, "ops": done})
        return
    ctx.evaluated()
    ctx.count("real_creator_cases")
    ctx.distinct(("creator", m, seq))
    if state["bad"]:
        ctx.violation("pool-worker-created-at-limit", "the pool's limited worker creator started a thread although the Team already had as many workers "
                      "(idle + busy) as the limit in force", {"initial_limit": m, "ops": done, "at_creation": state["bad"]})


def run_scripted_pool(ctx, m, k, grow_min):
    """Synchronised scenario on the real ThreadPool(0, m): m gated jobs bring m workers up; once all
    are idle again, startAWorker() x k and adjustPoolsize(min up to max) must not create workers
    beyond max; after lowering max the pool must come down to it.  Worker creation is synchronous
    (LockWorker runs inline), so the limit verdicts do not depend on timing; waiting for 'all idle'
    polls the public counters and is INCONCLUSIVE on time-out."""
    from twisted.python import threadpool

    lock = threading.Lock()
    alive = {"now": 0, "max": 0}

    class CountingThread(threading.Thread):
        def __init__(self, *a, **kw):
            kw["daemon"] = True
            threading.Thread.__init__(self, *a, **kw)

        def run(self):
            with lock:
                alive["now"] += 1
                alive["max"] = max(alive["max"], alive["now"])
            try:
                threading.Thread.run(self)
            finally:
                with lock:
                    alive["now"] -= 1

    class Pool(threadpool.ThreadPool):
        threadFactory = CountingThread

    def wait_for(cond, what):
        for _ in range(20000):
            if cond():
                return True
            time.sleep(0.0005)
        ctx.inconclusive("C49 scripted pool m=%d: %s not reached within 10 s" % (m, what))
        return False

    cfg = {"scripted": True, "max": m, "startAWorker_calls": k, "grow_min_to_max": grow_min}
    pool = Pool(0, m, name="c49-scripted")
    pool.start()
    release = threading.Event()
    started = []
    results = []
    over = []

    def note(where, limit):
        with lock:
            a = alive["now"]
        if pool.workers > limit or a > limit:
            over.append({"after": where, "pool_workers": pool.workers, "threads_alive": a, "limit": limit})

    try:
        for j in range(m):
            pool.callInThreadWithCallback(lambda ok, v: results.append(ok), lambda j=j: (started.append(j), release.wait(30)))
        if not wait_for(lambda: len(started) == m, "all gated jobs running"):
            return
        note("m gated jobs running", m)
        release.set()
        if not wait_for(lambda: len(results) == m and len(pool.waiters) == m and not pool.working, "all workers idle"):
            return
        for i in range(k):
            pool.startAWorker()
            note("startAWorker #%d with %d idle workers at max" % (i + 1, m), m)
        if grow_min:
            pool.adjustPoolsize(m, m)
            note("adjustPoolsize(min=max)", m)
        ctx.count("scripted_limit_checks", k + 2)
        if m > 1:
            pool.adjustPoolsize(0, m - 1)
            if pool.workers > m - 1:
                over.append({"after": "adjustPoolsize(max=%d) with all workers idle" % (m - 1), "pool_workers": pool.workers, "limit": m - 1})
            if wait_for(lambda: alive["now"] <= max(m - 1, pool.workers), "surplus threads ending after max was lowered"):
                ctx.count("scripted_shrink_checks")
    finally:
        release.set()
        stopper = threading.Thread(target=pool.stop, daemon=True)
        stopper.start()
        stopper.join(60)
        if stopper.is_alive():
            ctx.inconclusive("C49 scripted pool: stop() did not return within 60 s")
    ctx.evaluated()
    ctx.count("scripted_pools")
    ctx.distinct(("scripted-pool", m, k, grow_min))
    if over:
        ctx.violation("pool-exceeds-max-after-explicit-grow", "the pool had more workers / live pool threads than max after startAWorker()/adjustPoolsize "
                      "with idle workers at the limit", dict(cfg, over=over[:4], threads_ever_alive_at_once=alive["max"]))
    if len(results) != m or not all(results):
        ctx.violation("onresult-not-exactly-once", "gated jobs of the scripted pool did not each report success once", dict(cfg, results=results))


def pool_codes():
    from twisted._threads import _team, _threadworker, _pool
    from twisted.python import threadpool
    from vf.engines.threads import code_objects_of

    T, TP = _team.Team, threadpool.ThreadPool
    return code_objects_of(
        T.do, T._coordinateThisTask, T._recycleWorker, T._quitIdlers, T.quit, T.grow, T.shrink, T.statistics,
        _threadworker.LockWorker.do, _threadworker.LockWorker.quit, _threadworker.ThreadWorker.__init__,
        _threadworker.ThreadWorker.do, _threadworker.ThreadWorker.quit, _pool.pool,
        TP.callInThreadWithCallback, TP.stop, TP.adjustPoolsize, TP.start)


_LOGGED = {"installed": False}


def quiet_logging(ctx):
    """The pool logs task/onResult failures that nobody consumes (log.err).  Without an observer
    twisted prints each of them to stderr - which, in a shard, is a pipe nobody drains until the
    shard ends: a worker thread blocked in that write looks exactly like a hung pool.  Route the
    log to a counting observer instead (process-local; whitelisted: the planned failures)."""
    if _LOGGED["installed"]:
        return
    _LOGGED["installed"] = True
    from twisted.logger import globalLogBeginner

    lock = threading.Lock()

    def observer(event):
        if event.get("log_failure") is not None:
            with lock:
                _LOGGED["n"] = _LOGGED.get("n", 0) + 1  # evidence only; read at the end of run()

    globalLogBeginner.beginLoggingTo([observer], redirectStandardIO=False, discardBuffer=True)


def run(ctx):
    quiet_logging(ctx)
    t0 = time.time()
    explore_team(ctx)
    ctx.maxi("explore_wall_s", round(time.time() - t0, 1))
    explore_real_creator(ctx)
    k = 0
    for m in (1, 2, 3):
        for n_start in (1, 2, 3):
            for grow_min in (False, True):
                k += 1
                if ctx.owns(k):
                    run_scripted_pool(ctx, m, n_start, grow_min)
    codes = pool_codes()
    for i in ctx.cases(160, 5000):
        run_pool_case(ctx, i, codes)
        if any("did not return" in r for r in ctx.inconclusive_reasons):
            break  # a wedged pool: do not pile up more threads
    ctx.count("pool_logged_failures", _LOGGED.get("n", 0))


def replay(ctx, w):
    quiet_logging(ctx)
    x = w["witness"]
    if "ops" in x and "initial_limit" in x:
        from twisted._threads import _pool

        run_creator_case(ctx, _pool, x["initial_limit"], [tuple(o) for o in x["ops"]])
    elif x.get("scripted"):
        run_scripted_pool(ctx, x["max"], x["startAWorker_calls"], x["grow_min_to_max"])
    elif "history" in x:
        replay_team(ctx, x["history"])
    else:
        run_pool_case(ctx, x["case"], pool_codes())
