"""C32 DNS messages round-trip through the wire format.

Monitor: generated message *specs* (plain data) are turned into real dns.Message / dns._EDNSMessage
objects, encoded with toStr(), and the bytes are observed by two readers: the real decoder
(fromStr) and the independent RFC 1035 reader vf/engines/refdns.py.  Oracles:
 (1) decoded message == spec (header bits, per section: owner name case-insensitively as Name.__eq__
     defines, type, class, ttl, every payload field byte-exact) and Twisted's own `==` agrees;
 (2) refdns reads the same content (also rdlength, section counts, no trailing bytes, Z bit 0);
 (3) refusal: a name with a label of 64..255 (or more) octets has no wire form: only an exception
     from encoding is accepted;
 (4) truncation: with maxSize=m (>=12) the encoding is <= m octets, TC is set iff the full encoding is
     longer than m, and both readers see, section by section, a prefix of the spec's records.

Guards: names are built from labels of 1..63 octets without '.', total wire length <= 255, no
trailing dot (Name.__eq__ compares the dotted text); names over 255 octets or with empty interior
labels are only recorded, never judged; SOA refresh/retry/expire are kept in 0..2^31-1 (the fields
Twisted packs signed); messages are kept below 64 KiB; an UnknownRecord never uses a type number that
Twisted or refdns parse as a typed record; _EDNSMessage always truncates at 512 (its inner Message's
default), so for EDNS only the prefix rule is applied when that happens.
Classification: `dns-label-64-255` = bytes were produced for a 64..255-octet label;
`dns-compression-offset-overflow` = every wrong compression pointer in the wire has the expected
suffix at (target + k*0x4000); `dns-a6-suffix-octets-rounded-down` = the first differing record is an
A6 whose prefix length is not a multiple of 8; everything else keeps a stage key.
"""
import socket
import struct

from vf.engines import refdns as RD

LEVEL = "exploration"
ENGINE = "core"
TECHNIQUE = "runtime monitoring: spec-vs-decoded comparison with the real decoder and an independent RFC 1035 reader"
RULE = ("random message specs: 0..3 questions, 0..6/0..3/0..4 records per section drawn from all 26 Record_* "
        "classes, UnknownRecord and _OPTHeader with boundary field values (0, max of each width, empty and "
        "255-octet character-strings), owner/rdata names from a per-message pool (shared suffixes, case "
        "variants, binary labels, 63-octet labels, 255-octet names, root); ~1% large messages of 17..60 KiB; "
        "half of the messages additionally encoded with a random/boundary maxSize; 15% as _EDNSMessage; "
        "names with a 64..300-octet label for the refusal rule.  Distinct = the spec (+ maxSize); "
        "non-trivial = at least one record or question.")
ASSUMPTIONS = ["trusted base: vf/engines/refdns.py (RFC 1035 4.1 reader, self-tested on hand-assembled vectors); "
               "it replaces the vendored dnspython named in the property text, which is not installed here",
               "names: labels of 1..63 octets without '.', wire length <= 255, no trailing dot"]
SHARDS = {"quick": 4, "thorough": 16}
FLOORS = {"roundtrips_compared": 5000, "reference_reads_compared": 5000, "records_compared": 20000,
          "compression_pointers_seen": 5000, "truncations_checked": 1500, "truncations_cut": 800,
          "refusal_cases": 300, "edns_roundtrips": 500, "large_messages": 5, "messages_over_16k": 5}
READY = True

SINGLE = ("NS", "MD", "MF", "CNAME", "MB", "MG", "MR", "PTR", "DNAME")
TYPE_OF = {v: k for k, v in RD.TYPES.items()}
KINDS = [k for k in TYPE_OF if k != "OPT"] + ["UNKNOWN", "OPTHDR"]
UNKNOWN_TYPES = [19, 20, 27, 29, 32, 34, 36, 37, 40, 42, 43, 45, 46, 47, 48, 50, 52, 64, 65, 98, 100, 248, 249, 251, 255, 256, 257,
                 32768, 65280, 65535, 0]
NAME_FIELDS = {"SOA": (0, 1), "MINFO": (0, 1), "RP": (0, 1), "MX": (1,), "AFSDB": (1,), "SRV": (3,), "NAPTR": (5,), "A6": (2,), "TSIG": (0,)}
NAME_FIELDS.update({k: (0,) for k in SINGLE})
FLOORS.update({"kind_" + k: 40 for k in KINDS})


# ---- generators -------------------------------------------------------------------------------------------

def u(rng, bits):
    top = (1 << bits) - 1
    r = rng.random()
    if r < 0.15:
        return 0
    if r < 0.30:
        return top
    if r < 0.40:
        return rng.choice((1, top - 1, top >> 1, (top >> 1) + 1))
    return rng.randrange(top + 1)


def blob(rng, maxlen):
    r = rng.random()
    n = 0 if r < 0.12 else maxlen if r < 0.2 else 1 if r < 0.3 else rng.randrange(0, min(maxlen, 24) + 1)
    return bytes(rng.randrange(256) for _ in range(n)) if rng.random() < 0.5 else bytes(rng.choice(b"abcXYZ019 .-\x00\xff\xc0") for _ in range(n))


_HOST = b"abcdefghijklmnopqrstuvwxyz0123456789-"


def gen_label(rng, n=None):
    if n is None:
        r = rng.random()
        n = 63 if r < 0.04 else 62 if r < 0.05 else 1 if r < 0.15 else rng.randrange(1, 13)
    r = rng.random()
    if r < 0.6:
        s = bytes(rng.choice(_HOST) for _ in range(n))
    elif r < 0.8:
        s = bytes(rng.choice(_HOST + b"ABCXYZ_") for _ in range(n))
    else:
        s = bytes(rng.randrange(256) for _ in range(n))
    return s.replace(b".", b"\xc0")


def name_wire_len(labels):
    return sum(len(l) + 1 for l in labels) + 1


def gen_pool(rng):
    pool = []
    for _ in range(rng.choice((1, 2, 2, 3, 4))):
        pool.append([gen_label(rng) for _ in range(rng.choice((1, 2, 2, 3, 3, 4)))])
    if rng.random() < 0.06:  # a 255-octet name: 63+63+63+61
        pool.append([gen_label(rng, 63), gen_label(rng, 63), gen_label(rng, 63), gen_label(rng, 61)])
    return pool


def gen_name(rng, pool):
    r = rng.random()
    if r < 0.04:
        return b""
    base = list(rng.choice(pool))
    if r < 0.3:
        labels = base
    elif r < 0.7:
        labels = [gen_label(rng) for _ in range(rng.choice((1, 1, 2, 3)))] + base[rng.randrange(len(base)):]
    elif r < 0.8:
        labels = [l.swapcase() if rng.random() < 0.7 else l for l in base]
    elif r < 0.9:
        labels = [gen_label(rng) for _ in range(rng.choice((1, 2, 5, 9)))]
    else:
        labels = [gen_label(rng)] + [l.upper() for l in base]
    while name_wire_len(labels) > 255:
        labels = labels[1:]
    if rng.random() < 0.3 and labels not in pool and len(pool) < 12:
        pool.append(labels)
    return b".".join(labels)


def gen_fields(rng, kind, pool, odd_a6=False):
    N = lambda: gen_name(rng, pool)
    if kind == "A":
        return (struct.pack("!I", u(rng, 32)),)
    if kind == "AAAA":
        return (u(rng, 128).to_bytes(16, "big"),)
    if kind in SINGLE:
        return (N(),)
    if kind == "SOA":
        return (N(), N(), u(rng, 32), u(rng, 31), u(rng, 31), u(rng, 31), u(rng, 32))
    if kind == "NULL":
        return (blob(rng, 300),)
    if kind == "WKS":
        return (struct.pack("!I", u(rng, 32)), u(rng, 8), blob(rng, 40))
    if kind == "A6":
        plen = rng.choice((0, 8, 16, 48, 64, 64, 96, 120, 128)) if not odd_a6 else rng.choice((1, 3, 7, 9, 63, 65, 121, 127))
        suffix = (u(rng, 128 - plen) if plen < 128 else 0).to_bytes(16, "big")
        if odd_a6 and plen < 128:  # make the partial octet visibly non-zero
            suffix = ((1 << (127 - plen)) | int.from_bytes(suffix, "big")).to_bytes(16, "big")
        return (plen, suffix, N() if plen else b"")
    if kind == "SRV":
        return (u(rng, 16), u(rng, 16), u(rng, 16), N())
    if kind == "NAPTR":
        return (u(rng, 16), u(rng, 16), blob(rng, 255), blob(rng, 255), blob(rng, 255), N())
    if kind == "AFSDB":
        return (u(rng, 16), N())
    if kind in ("RP", "MINFO"):
        return (N(), N())
    if kind == "HINFO":
        return (blob(rng, 255), blob(rng, 255))
    if kind == "MX":
        return (u(rng, 16), N())
    if kind == "SSHFP":
        return (u(rng, 8), u(rng, 8), blob(rng, 64))
    if kind in ("TXT", "SPF"):
        return (tuple(blob(rng, 255) for _ in range(rng.choice((0, 1, 1, 2, 4)))),)
    if kind == "TSIG":
        return (N(), u(rng, 48), u(rng, 16), blob(rng, 64), u(rng, 16), u(rng, 16), blob(rng, 30))
    if kind == "UNKNOWN":
        return (blob(rng, 300),)
    if kind == "OPTHDR":
        return (u(rng, 16), u(rng, 8), u(rng, 8), rng.random() < 0.5, tuple((u(rng, 16), blob(rng, 40)) for _ in range(rng.choice((0, 0, 1, 2, 3)))))
    raise AssertionError(kind)


def gen_rr(rng, pool, kinds=KINDS, odd_a6=False):
    kind = rng.choice(kinds)
    if kind == "OPTHDR":
        f = gen_fields(rng, kind, pool)
        return {"name": b"", "type": 41, "cls": f[0], "ttl": f[1] << 24 | f[2] << 16 | int(f[3]) << 15, "kind": kind, "f": f}
    typ = rng.choice(UNKNOWN_TYPES) if kind == "UNKNOWN" else TYPE_OF[kind]
    cls = 1 if rng.random() < 0.7 else rng.choice((3, 4, 255, 254, 0, 65535, 2, rng.randrange(65536)))
    ttl = rng.choice((0, 1, 60, 3600, 2 ** 31 - 1, 2 ** 31, 2 ** 32 - 1, rng.randrange(2 ** 32)))
    return {"name": gen_name(rng, pool), "type": typ, "cls": cls, "ttl": ttl, "kind": kind,
            "f": gen_fields(rng, kind, pool, odd_a6 and kind == "A6")}


def upper_size(rr):
    def sz(x):
        return len(x) + 2 if isinstance(x, bytes) else sum(sz(i) for i in x) + 1 if isinstance(x, tuple) else 8
    return len(rr["name"]) + 2 + 10 + sz(rr["f"])


SMALL_KINDS = ["A", "A", "NS", "CNAME", "MX", "TXT", "AAAA", "PTR", "SRV", "SOA"]


def gen_spec(rng, large=False, odd_a6=False, edns=False):
    pool = gen_pool(rng)
    hdr = {"id": u(rng, 16), "qr": rng.randrange(2), "opcode": rng.choice((0, 0, 1, 2, 4, 5, 15, rng.randrange(16))), "aa": rng.randrange(2),
           "tc": 1 if rng.random() < 0.05 else 0, "rd": rng.randrange(2), "ra": rng.randrange(2), "ad": rng.randrange(2), "cd": rng.randrange(2),
           "rcode": rng.choice((0, 0, 1, 2, 3, 5, 15, rng.randrange(16)))}
    spec = {"hdr": hdr, "q": [], "an": [], "ns": [], "ar": [], "edns": None}
    for _ in range(rng.choice((0, 1, 1, 1, 1, 2, 3))):
        spec["q"].append((gen_name(rng, pool), rng.choice((1, 2, 5, 6, 12, 15, 16, 28, 33, 41, 251, 252, 255, 0, 65535, rng.randrange(65536))),
                          rng.choice((1, 1, 1, 3, 4, 255, 0, 65535))))
    if large:
        target = rng.choice((20000, 24000, 33000, 45000, 60000))
        size = 12 + sum(len(q[0]) + 6 for q in spec["q"])
        kinds = SMALL_KINDS
        while True:
            sec = rng.choice(("an", "an", "ns", "ar"))
            rr = gen_rr(rng, pool, kinds)
            size += upper_size(rr)  # uncompressed upper bound: the encoding stays below 64 KiB
            if size > target:
                break
            spec[sec].append(rr)
            if len(pool) < 400 and rng.random() < 0.2:
                pool.append([gen_label(rng)] + list(rng.choice(pool))[-3:])
        return spec
    kinds = [k for k in KINDS if k != "OPTHDR"] if edns else KINDS
    if odd_a6:
        spec["an"].append(gen_rr(rng, pool, ["A6"], True))
    for sec, choices in (("an", (0, 1, 1, 2, 3, 6)), ("ns", (0, 0, 1, 2, 3)), ("ar", (0, 0, 1, 2, 4))):
        for _ in range(rng.choice(choices)):
            spec[sec].append(gen_rr(rng, pool, kinds))
    if edns:
        ver = None if rng.random() < 0.2 else u(rng, 8)
        spec["edns"] = {"version": ver, "do": ver is not None and rng.random() < 0.5, "udp": 512 if ver is None else u(rng, 16),
                        "rcode": hdr["rcode"] if ver is None else (u(rng, 8) << 4 | hdr["rcode"])}
    return spec


# ---- spec -> real objects -----------------------------------------------------------------------------------

def build_rr(dns, rr, aa):
    k, f, ttl = rr["kind"], rr["f"], rr["ttl"]
    if k == "OPTHDR":
        return dns._OPTHeader(udpPayloadSize=f[0], extendedRCODE=f[1], version=f[2], dnssecOK=f[3],
                              options=[dns._OPTVariableOption(c, d) for c, d in f[4]])
    if k == "A":
        p = dns.Record_A(socket.inet_ntoa(f[0]), ttl)
    elif k == "AAAA":
        p = dns.Record_AAAA(socket.inet_ntop(socket.AF_INET6, f[0]), ttl)
    elif k in SINGLE:
        p = getattr(dns, "Record_" + k)(f[0], ttl)
    elif k == "SOA":
        p = dns.Record_SOA(f[0], f[1], f[2], f[3], f[4], f[5], f[6], ttl)
    elif k == "NULL":
        p = dns.Record_NULL(f[0], ttl)
    elif k == "WKS":
        p = dns.Record_WKS(socket.inet_ntoa(f[0]), f[1], f[2], ttl)
    elif k == "A6":
        p = dns.Record_A6(f[0], socket.inet_ntop(socket.AF_INET6, f[1]), f[2], ttl)
    elif k == "SRV":
        p = dns.Record_SRV(f[0], f[1], f[2], f[3], ttl)
    elif k == "NAPTR":
        p = dns.Record_NAPTR(f[0], f[1], f[2], f[3], f[4], f[5], ttl)
    elif k == "AFSDB":
        p = dns.Record_AFSDB(f[0], f[1], ttl)
    elif k == "RP":
        p = dns.Record_RP(f[0], f[1], ttl)
    elif k == "HINFO":
        p = dns.Record_HINFO(f[0], f[1], ttl)
    elif k == "MINFO":
        p = dns.Record_MINFO(f[0], f[1], ttl)
    elif k == "MX":
        p = dns.Record_MX(f[0], f[1], ttl)
    elif k == "SSHFP":
        p = dns.Record_SSHFP(f[0], f[1], f[2], ttl)
    elif k == "TXT":
        p = dns.Record_TXT(*f[0], ttl=ttl)
    elif k == "SPF":
        p = dns.Record_SPF(*f[0], ttl=ttl)
    elif k == "TSIG":
        p = dns.Record_TSIG(f[0], f[1], f[2], f[3], f[4], f[5], f[6], ttl)
    elif k == "UNKNOWN":
        p = dns.UnknownRecord(f[0], ttl)
    else:
        raise AssertionError(k)
    return dns.RRHeader(rr["name"], rr["type"], rr["cls"], ttl, p, auth=bool(aa))


def build(dns, spec, max_size=0):
    h = spec["hdr"]
    if spec["edns"] is not None:
        e = spec["edns"]
        return dns._EDNSMessage(id=h["id"], answer=bool(h["qr"]), opCode=h["opcode"], auth=bool(h["aa"]), trunc=bool(h["tc"]), recDes=bool(h["rd"]),
                                recAv=bool(h["ra"]), rCode=e["rcode"], ednsVersion=e["version"], dnssecOK=e["do"], authenticData=bool(h["ad"]),
                                checkingDisabled=bool(h["cd"]), maxSize=e["udp"], queries=[dns.Query(*q) for q in spec["q"]],
                                answers=[build_rr(dns, r, h["aa"]) for r in spec["an"]], authority=[build_rr(dns, r, h["aa"]) for r in spec["ns"]],
                                additional=[build_rr(dns, r, h["aa"]) for r in spec["ar"]])
    m = dns.Message(id=h["id"], answer=h["qr"], opCode=h["opcode"], recDes=h["rd"], recAv=h["ra"], auth=h["aa"], rCode=h["rcode"], trunc=h["tc"],
                    maxSize=max_size, authenticData=h["ad"], checkingDisabled=h["cd"])
    m.queries = [dns.Query(*q) for q in spec["q"]]
    m.answers = [build_rr(dns, r, h["aa"]) for r in spec["an"]]
    m.authority = [build_rr(dns, r, h["aa"]) for r in spec["ns"]]
    m.additional = [build_rr(dns, r, h["aa"]) for r in spec["ar"]]
    return m


def plain_equivalent(dns, spec):
    """The untruncated bytes of an EDNS spec: the same content as a plain Message with the OPT appended."""
    e = spec["edns"]
    ar = list(spec["ar"])
    if e["version"] is not None:
        ar.append({"name": b"", "type": 41, "cls": e["udp"], "ttl": 0, "kind": "OPTHDR", "f": (e["udp"], e["rcode"] >> 4, e["version"], e["do"], ())})
    plain = dict(spec, edns=None, ar=ar, hdr=dict(spec["hdr"], rcode=e["rcode"] & 15))
    return build(dns, plain, 0).toStr()


# ---- canonical forms ------------------------------------------------------------------------------------------

def _a6sig(plen, suffix16):
    n = (128 - plen + 7) // 8
    return suffix16[16 - n:] if n else b""


def canon_spec_rr(rr):
    k, f = rr["kind"], rr["f"]
    if k == "OPTHDR":
        pay = ("UNKNOWN", b"".join(struct.pack("!HH", c, len(d)) + d for c, d in f[4]))
    elif k == "A6":
        pay = ("A6", f[0], _a6sig(f[0], f[1]), f[2].lower())
    elif k in NAME_FIELDS:
        pay = (k,) + tuple(x.lower() if i in NAME_FIELDS[k] else x for i, x in enumerate(f))
    else:
        pay = (k,) + tuple(f)
    return (rr["name"].lower(), rr["type"], rr["cls"], rr["ttl"], pay)


def canon_spec(spec):
    h = spec["hdr"]
    return {"hdr": (h["id"], h["qr"], h["opcode"], h["aa"], h["tc"], h["rd"], h["ra"], h["ad"], h["cd"], h["rcode"]),
            "q": [(n.lower(), t, c) for n, t, c in spec["q"]], "an": [canon_spec_rr(r) for r in spec["an"]],
            "ns": [canon_spec_rr(r) for r in spec["ns"]], "ar": [canon_spec_rr(r) for r in spec["ar"]]}


def canon_tw_payload(p):
    k = type(p).__name__.replace("Record_", "")
    n = lambda x: x.name.lower()
    if k == "UnknownRecord":
        return ("UNKNOWN", p.data)
    if k in ("A", "AAAA"):
        return (k, p.address)
    if k in SINGLE:
        return (k, n(p.name))
    if k == "SOA":
        return (k, n(p.mname), n(p.rname), p.serial, p.refresh, p.retry, p.expire, p.minimum)
    if k == "NULL":
        return (k, p.payload)
    if k == "WKS":
        return (k, p.address, p.protocol, p.map)
    if k == "A6":
        return (k, p.prefixLen, _a6sig(p.prefixLen, p.suffix) if 0 <= p.prefixLen <= 128 else p.suffix, n(p.prefix))
    if k == "SRV":
        return (k, p.priority, p.weight, p.port, n(p.target))
    if k == "NAPTR":
        return (k, p.order, p.preference, p.flags.string, p.service.string, p.regexp.string, n(p.replacement))
    if k == "AFSDB":
        return (k, p.subtype, n(p.hostname))
    if k == "RP":
        return (k, n(p.mbox), n(p.txt))
    if k == "HINFO":
        return (k, p.cpu, p.os)
    if k == "MINFO":
        return (k, n(p.rmailbx), n(p.emailbx))
    if k == "MX":
        return (k, p.preference, n(p.name))
    if k == "SSHFP":
        return (k, p.algorithm, p.fingerprintType, p.fingerprint)
    if k in ("TXT", "SPF"):
        return (k, tuple(p.data))
    if k == "TSIG":
        return (k, n(p.algorithm), p.timeSigned, p.fudge, p.MAC, p.originalID, p.error, p.otherData)
    return ("?" + k, repr(p))


def canon_tw(m):
    rr = lambda h: (h.name.name.lower(), h.type, h.cls, h.ttl, canon_tw_payload(h.payload))
    return {"hdr": (m.id, int(m.answer), m.opCode, int(m.auth), int(m.trunc), int(m.recDes), int(m.recAv), int(m.authenticData), int(m.checkingDisabled), m.rCode),
            "q": [(q.name.name.lower(), q.type, q.cls) for q in m.queries], "an": [rr(h) for h in m.answers],
            "ns": [rr(h) for h in m.authority], "ar": [rr(h) for h in m.additional]}


def _dot(labels):
    return b".".join(labels).lower()


def canon_ref_rr(r):
    t = r["typed"]
    if t is None or t[0] == "OPT":
        pay = ("UNKNOWN", r["rdata"])
    elif t[0] in NAME_FIELDS:
        pay = (t[0],) + tuple(_dot(x) if i in NAME_FIELDS[t[0]] else x for i, x in enumerate(t[1:]))
    else:
        pay = t
    return (_dot(r["name"]), r["type"], r["class"], r["ttl"], pay)


def canon_ref(p):
    return {"hdr": (p["id"], p["qr"], p["opcode"], p["aa"], p["tc"], p["rd"], p["ra"], p["ad"], p["cd"], p["rcode"]),
            "q": [(_dot(n), t, c) for n, t, c in p["questions"]], "an": [canon_ref_rr(r) for r in p["sections"]["an"]],
            "ns": [canon_ref_rr(r) for r in p["sections"]["ns"]], "ar": [canon_ref_rr(r) for r in p["sections"]["ar"]]}


def first_diff(exp, got, prefix_ok=False, skip_hdr=()):
    """(section, index, expected, observed) of the first difference, or None."""
    for i, (a, b) in enumerate(zip(exp["hdr"], got["hdr"])):
        if a != b and i not in skip_hdr:
            return ("hdr", i, exp["hdr"], got["hdr"])
    cut = False
    for sec in ("q", "an", "ns", "ar"):
        e, g = exp[sec], got[sec]
        if cut and g:
            return (sec, 0, "nothing after a shortened section", g[0])
        for i in range(max(len(e), len(g))):
            if i >= len(g):
                if prefix_ok:
                    cut = True
                    break
                return (sec, i, e[i], "missing")
            if i >= len(e):
                return (sec, i, "no such record", g[i])
            if e[i] != g[i]:
                return (sec, i, e[i], g[i])
    return None


# ---- classification ---------------------------------------------------------------------------------------------

def expected_names(spec):
    """Names in wire order (questions, then per record the owner followed by RDATA names)."""
    out = [n for n, _, _ in spec["q"]]
    for sec in ("an", "ns", "ar"):
        for rr in spec[sec]:
            out.append(rr["name"])
            k = rr["kind"]
            for i in NAME_FIELDS.get(k, ()):
                if k == "A6" and rr["f"][0] == 0:
                    continue
                out.append(rr["f"][i])
    return out


def _shallow_match(wire, off, rest):
    """Do the labels written at `off` (up to the first pointer or the root) spell `rest` (or a prefix of
    it that continues in a pointer, which is judged where that pointer itself was written)?"""
    try:
        t = RD.read_name(wire, off, strict_len=False, follow=False)
    except (RD.WireError, IndexError):
        return False
    got = tuple(l.lower() for l in t.labels)
    if t.hops:
        return 0 < len(got) <= len(rest) and got == rest[:len(got)]
    return got == rest


def overflow_signature(wire, spec):
    """True iff at least one compression pointer is wrong and *every* wrong pointer has the expected
    suffix at target + k*0x4000 (the 14-bit offset field is the intended offset truncated)."""
    if len(wire) <= 0x4000:
        return False
    try:
        sh = RD.parse_message(wire, partial=True, strict_len=False, follow=False)
    except RD.WireError:
        return False
    traces = list(sh["question_names"])
    for sec in ("an", "ns", "ar"):
        for r in sh["sections"][sec]:
            traces.extend(r["names"])
    exp = expected_names(spec)
    if len(traces) > len(exp) or (sh["complete"] and len(traces) != len(exp)):
        return False
    found = False
    for tr, name in zip(traces, exp):
        labels = tuple(name.lower().split(b".")) if name else ()
        seen = tuple(l.lower() for l in tr.labels)
        if not tr.hops:
            if seen != labels:
                return False
            continue
        loc, target, cnt = tr.hops[0]
        if seen != labels[:cnt]:
            return False
        rest = labels[cnt:]
        if _shallow_match(wire, target, rest):
            continue
        if loc >= 0x4000 and any(_shallow_match(wire, target + k * 0x4000, rest) for k in (1, 2, 3)):
            found = True
        else:
            return False
    return found


def has_odd_a6(spec, where=None):
    for sec in ("an", "ns", "ar"):
        for i, rr in enumerate(spec[sec]):
            if rr["kind"] == "A6" and rr["f"][0] % 8 and (where is None or where == (sec, i)):
                return True
    return False


def classify(stage, spec, wire, diff=None, ref_where=None):
    if wire is not None and overflow_signature(wire, spec):
        return "dns-compression-offset-overflow"
    if diff is not None and diff[0] in ("an", "ns", "ar") and has_odd_a6(spec, (diff[0], diff[1])):
        return "dns-a6-suffix-octets-rounded-down"
    if ref_where is not None and ref_where[0] in ("an", "ns", "ar") and has_odd_a6(spec, (ref_where[0], ref_where[1])):
        return "dns-a6-suffix-octets-rounded-down"
    return "dns-" + stage


WHAT = {"dns-compression-offset-overflow": "names first written at offsets >= 0x4000 are entered into the compression dictionary and later "
                                           "referenced by a pointer whose 14-bit offset is truncated: names decode wrongly in messages > 16 KiB",
        "dns-a6-suffix-octets-rounded-down": "Record_A6 writes int((128-prefixLen)/8) suffix octets; RFC 2874 needs ceil: for prefix lengths that are "
                                             "not multiples of 8 the top partial octet is dropped and independent readers mis-frame the record",
        "dns-label-64-255": "a name with a label of 64..255 octets is encoded (length octet with the top bits set: read as a pointer/reserved type) instead of refused"}


def to_json(x):
    if isinstance(x, (bytes, bytearray)):
        return {"hex": bytes(x).hex()}
    if isinstance(x, tuple):
        return {"t": [to_json(i) for i in x]}
    if isinstance(x, list):
        return [to_json(i) for i in x]
    if isinstance(x, dict):
        return {"d": {k: to_json(v) for k, v in x.items()}}
    return x


def from_json(x):
    if isinstance(x, list):
        return [from_json(i) for i in x]
    if isinstance(x, dict):
        if "hex" in x:
            return bytes.fromhex(x["hex"])
        if "t" in x:
            return tuple(from_json(i) for i in x["t"])
        return {k: from_json(v) for k, v in x["d"].items()}
    return x


def nrec(spec):
    return len(spec["an"]) + len(spec["ns"]) + len(spec["ar"])


def witness(spec, case, **kw):
    w = {"case": case, "records": nrec(spec), "questions": len(spec["q"])}
    if nrec(spec) <= 12:
        w["spec"] = to_json(spec)
    w.update(kw)
    return w


def _short(x):
    r = repr(x)
    return r if len(r) < 700 else r[:700] + "..."


# ---- the monitor ----------------------------------------------------------------------------------------------

def report(ctx, stage, what, spec, case, wire, diff=None, ref_where=None, **kw):
    key = classify(stage, spec, wire, diff, ref_where)
    if diff is not None:
        kw.update({"first_difference": {"section": diff[0], "index": diff[1], "expected": _short(diff[2]), "observed": _short(diff[3])}})
    if wire is not None:
        kw["wire_length"] = len(wire)
        kw["wire_head"] = wire[:160]
    kw["stage"] = stage
    ctx.violation(key, WHAT.get(key, what), witness(spec, case, **kw))


def check_roundtrip(ctx, dns, spec, case):
    """Oracles (1) and (2).  Returns the full wire or None."""
    exp = canon_spec(spec)
    try:
        orig = build(dns, spec, 0)
        wire = orig.toStr()
    except Exception as e:
        report(ctx, "encode-raises", "encoding a message with in-range fields raises", spec, case, None, exception=repr(e)[:300])
        return None
    if len(wire) > 65535:
        ctx.count("over_64k_skipped")
        return None
    ctx.count("messages_encoded")
    ctx.count("bytes_encoded", len(wire))
    ctx.maxi("wire_length", len(wire))
    edns = spec["edns"] is not None
    # -- real decoder
    try:
        dec = dns.Message()
        dec.fromStr(wire)
    except Exception as e:
        report(ctx, "decode-raises", "decoding Twisted's own encoding raises", spec, case, wire, exception=repr(e)[:300])
        return wire
    got = canon_tw(dec)
    expm = exp
    truncated = False
    if edns:
        e = spec["edns"]
        expm = dict(exp)
        if e["version"] is not None:
            expm["ar"] = exp["ar"] + [(b"", 41, e["udp"], (e["rcode"] >> 4) << 24 | e["version"] << 16 | int(e["do"]) << 15, ("UNKNOWN", b""))]
        # _EDNSMessage encodes through an inner Message with the default maxSize of 512
        truncated = 12 + sum(len(q[0]) + 6 for q in spec["q"]) + sum(upper_size(r) for r in spec["an"] + spec["ns"] + spec["ar"]) + 11 > 512 \
            and len(plain_equivalent(dns, spec)) > 512
        if truncated:
            ctx.count("edns_truncated_at_512")
            if len(wire) > 512 or not (wire[2] >> 1) & 1:
                report(ctx, "edns-truncation", "_EDNSMessage longer than 512 octets is not cut to 512 with TC set", spec, case, wire)
    d = first_diff(expm, got, prefix_ok=truncated, skip_hdr=(4,) if truncated else ())
    ctx.count("roundtrips_compared")
    ctx.count("records_compared", nrec(spec))
    if d:
        report(ctx, "roundtrip-mismatch", "decoded message differs from the encoded one", spec, case, wire, diff=d, reader="twisted")
    # -- independent reader
    try:
        ref = RD.parse_message(wire, partial=truncated)
    except RD.WireError as e:
        report(ctx, "reference-reader-rejects:" + e.reason, "the independent RFC 1035 reader cannot read the encoding", spec, case, wire,
               ref_where=e.where, reference_error=str(e))
        return wire
    refc = canon_ref(ref)
    d2 = first_diff(expm, refc, prefix_ok=truncated, skip_hdr=(4,) if truncated else ())
    ctx.count("reference_reads_compared")
    for sec in ("an", "ns", "ar"):
        for r in ref["sections"][sec]:
            ctx.count("compression_pointers_seen", sum(1 for t in r["names"] if t.hops))
            ctx.seen("record_types_read_by_reference", r["typed"][0] if r["typed"] else "raw")
    if d2:
        report(ctx, "reference-reader-disagrees", "the independent RFC 1035 reader reads different content", spec, case, wire, diff=d2, reader="refdns")
    elif not truncated:
        want = (len(expm["q"]), len(expm["an"]), len(expm["ns"]), len(expm["ar"]))
        if ref["counts"] != want or ref["end"] != len(wire) or ref["z"]:
            report(ctx, "framing", "section counts / trailing bytes / Z bit wrong", spec, case, wire, counts=ref["counts"], expected_counts=want,
                   parsed_end=ref["end"])
        rl = [r["rdlength"] for s in ("an", "ns", "ar") for r in ref["sections"][s]]
        tl = [h.rdlength for s in (dec.answers, dec.authority, dec.additional) for h in s]
        if rl != tl:
            report(ctx, "rdlength-differs", "rdlength seen by the two readers differs", spec, case, wire)
    # -- Twisted's own equality (payload ttl == header ttl, auth == AA by construction)
    if not d and not truncated and not any(r["kind"] == "OPTHDR" for r in spec["ar"] + spec["an"] + spec["ns"]):
        try:
            if edns:
                dec2 = dns._EDNSMessage()
                dec2.fromStr(wire)
                same = dec2 == build(dns, spec)
                e = spec["edns"]
                attrs = (dec2.ednsVersion, bool(dec2.dnssecOK), dec2.maxSize, dec2.rCode)
                if attrs != (e["version"], e["do"], e["udp"], e["rcode"]):
                    report(ctx, "edns-attributes-differ", "_EDNSMessage attributes differ after the round trip", spec, case, wire,
                           observed=attrs, expected=(e["version"], e["do"], e["udp"], e["rcode"]))
                ctx.count("edns_roundtrips")
            else:
                orig.maxSize = 0
                same = dec == orig
            ctx.count("twisted_eq_checked")
            if not same:
                report(ctx, "twisted-eq-false", "Twisted's own == says the decoded message differs although every field agrees", spec, case, wire)
        except Exception as e:
            report(ctx, "decode-raises", "EDNS decode / comparison raises", spec, case, wire, exception=repr(e)[:300])
    return wire


def check_truncation(ctx, dns, spec, case, wire, m):
    """Oracle (4) for maxSize=m."""
    exp = canon_spec(spec)
    ctx.count("truncations_checked")
    try:
        msg = build(dns, spec, m)
        cutw = msg.toStr()
    except Exception as e:
        report(ctx, "truncating-encode-raises", "encoding with a size limit raises", spec, case, wire, max_size=m, exception=repr(e)[:300])
        return
    must_cut = len(wire) > m
    if must_cut:
        ctx.count("truncations_cut")
    if len(cutw) > m:
        report(ctx, "truncation-over-limit", "encoding is longer than maxSize", spec, case, wire, max_size=m, encoded_length=len(cutw))
        return
    tc = (cutw[2] >> 1) & 1 if len(cutw) > 2 else None
    want_tc = 1 if (must_cut or spec["hdr"]["tc"]) else 0
    if tc != want_tc:
        report(ctx, "truncation-tc-flag", "TC flag is not (set iff the message was cut)", spec, case, wire, max_size=m, tc=tc, expected_tc=want_tc,
               full_length=len(wire))
    if not must_cut and cutw != wire:
        report(ctx, "truncation-changes-fitting-message", "a message that fits its limit is encoded differently", spec, case, wire, max_size=m)
    try:
        dec = dns.Message()
        dec.fromStr(cutw)
    except Exception as e:
        report(ctx, "truncated-decode-raises", "decoding a truncated encoding raises", spec, case, cutw, max_size=m, exception=repr(e)[:300])
        return
    d = first_diff(exp, canon_tw(dec), prefix_ok=True, skip_hdr=(4,))
    if d:
        report(ctx, "truncation-not-a-prefix", "decoded truncated message is not a prefix of the original records", spec, case, cutw, diff=d,
               max_size=m, reader="twisted")
    try:
        ref = RD.parse_message(cutw, partial=True)
        d2 = first_diff(exp, canon_ref(ref), prefix_ok=True, skip_hdr=(4,))
        if d2:
            report(ctx, "truncation-not-a-prefix", "reference reader: truncated message is not a prefix of the original records", spec, case, cutw,
                   diff=d2, max_size=m, reader="refdns")
        if must_cut and not d and not d2:
            ctx.count("truncated_prefix_records", nrec({"an": ref["sections"]["an"], "ns": ref["sections"]["ns"], "ar": ref["sections"]["ar"]}))
    except RD.WireError as e:
        report(ctx, "truncation-reference-reader-rejects:" + e.reason, "reference reader rejects the truncated encoding", spec, case, cutw,
               max_size=m, ref_where=e.where, reference_error=str(e))


def gen_bad_name(rng):
    pool = gen_pool(rng)
    labels = list(rng.choice(pool))
    r = rng.random()
    n = rng.choice((64, 65, 100, 127, 128, 191, 192, 200, 254, 255)) if r < 0.85 else rng.choice((256, 257, 300))
    labels.insert(rng.randrange(len(labels) + 1), gen_label(rng, n))
    return b".".join(labels), n


def check_refusal(ctx, dns, rng, case):
    """Oracle (3): a label of more than 63 octets must be refused at encode time."""
    name, n = gen_bad_name(rng)
    where = rng.choice(("query", "owner", "rdata-ns", "rdata-mx", "rdata-soa", "rdata-srv"))
    m = dns.Message(id=1, maxSize=0)
    ok = b"ok.example"
    if where == "query":
        m.queries.append(dns.Query(name, 1, 1))
    elif where == "owner":
        m.answers.append(dns.RRHeader(name, 1, 1, 5, dns.Record_A("1.2.3.4", 5)))
    elif where == "rdata-ns":
        m.answers.append(dns.RRHeader(ok, 2, 1, 5, dns.Record_NS(name, 5)))
    elif where == "rdata-mx":
        m.answers.append(dns.RRHeader(ok, 15, 1, 5, dns.Record_MX(1, name, 5)))
    elif where == "rdata-soa":
        m.answers.append(dns.RRHeader(ok, 6, 1, 5, dns.Record_SOA(ok, name, 1, 2, 3, 4, 5, 5)))
    else:
        m.answers.append(dns.RRHeader(ok, 33, 1, 5, dns.Record_SRV(1, 2, 3, name, 5)))
    ctx.count("refusal_cases")
    ctx.distinct(("refuse", name, where))
    try:
        wire = m.toStr()
    except Exception as e:
        ctx.count("refused_at_encode")
        ctx.seen("refusal_exception_types", type(e).__name__)
        return
    try:
        how = "reference reader: " + _short(canon_ref(RD.parse_message(wire)))
    except RD.WireError as e:
        how = "reference reader rejects the bytes: " + str(e)
    key = "dns-label-64-255" if 64 <= n <= 255 else "dns-label-over-255-not-refused"
    ctx.violation(key, WHAT.get(key, "a label longer than 255 octets is encoded instead of refused"),
                  {"case": case, "refusal": True, "name": name, "label_length": n, "position": where, "wire": wire[:200], "length_octet": "0x%02x" % (n & 0xFF),
                   "expected": "an exception from toStr()", "observed": how})


def check_outside_claim(ctx, dns, rng):
    """Recorded only (DESIGN guard): names over 255 octets and empty interior labels."""
    if rng.random() < 0.5:
        name = b".".join(gen_label(rng, rng.choice((40, 63))) for _ in range(rng.choice((5, 6, 8))))
        tag = "overlong_names"
    else:
        name = rng.choice((b"a..b", b".a", b"a..", b"..", b"a.b..c.d"))
        tag = "empty_label_names"
    ctx.count(tag + "_tried")
    try:
        m = dns.Message(maxSize=0)
        m.queries.append(dns.Query(name, 1, 1))
        d = dns.Message()
        d.fromStr(m.toStr())
        if d.queries and d.queries[0].name == dns.Name(name):
            ctx.count(tag + "_roundtrip_equal")
    except Exception as e:
        ctx.count(tag + "_raise")


def run_case(ctx, dns, i, sample=False, refusal=True):
    rng = ctx.case_rng(i)
    r = rng.random()
    large = r < 0.008
    odd_a6 = 0.008 <= r < 0.03
    edns = 0.03 <= r < 0.18
    spec = gen_spec(rng, large=large, odd_a6=odd_a6, edns=edns)
    ctx.evaluated()
    if nrec(spec) or spec["q"]:
        ctx.distinct(repr(spec) if not large else ("large", i, nrec(spec)))
    for sec in ("an", "ns", "ar"):
        for rr in spec[sec]:
            ctx.count("kind_" + rr["kind"])
    wire = check_roundtrip(ctx, dns, spec, i)
    if large and wire is not None:
        ctx.count("large_messages")
        if len(wire) > 0x4000:
            ctx.count("messages_over_16k")
    if wire is not None and not edns and len(wire) > 12 and (rng.random() < 0.5 or large):
        for _ in range(1 if large else rng.choice((1, 1, 2, 3))):
            t = rng.random()
            if t < 0.6:
                m = rng.randrange(12, len(wire) + 1)
            elif t < 0.75:
                m = rng.choice((12, 13, len(wire) - 1, len(wire), len(wire) + 1, len(wire) + 100, 512))
            else:
                m = min(len(wire) + 3, 12 + rng.randrange(0, 64))
            ctx.evaluated()
            ctx.distinct(("trunc", i, m))
            check_truncation(ctx, dns, spec, i, wire, m)
    if i % 8 == 0 and refusal:
        ctx.evaluated()
        check_refusal(ctx, dns, ctx.case_rng(i, "refuse"), i)
    if i % 64 == 0:
        check_outside_claim(ctx, dns, ctx.case_rng(i, "outside"))
    if sample and wire is not None:
        ctx.sample({"case": i, "spec": _short(spec), "wire_length": len(wire), "wire_head": wire[:120]})


def run(ctx):
    from twisted.names import dns

    RD.selftest()
    for i in ctx.cases(12000, 700000):
        run_case(ctx, dns, i, sample=i < 3 * ctx.nshards)


def replay(ctx, w):
    from twisted.names import dns

    x = w["witness"]
    if x.get("refusal"):
        check_refusal(ctx, dns, ctx.case_rng(x["case"], "refuse"), x["case"])
    else:
        run_case(ctx, dns, x["case"], refusal=False)
