"""C37 SSH wire primitives (NS/MP) and key serialisation round trips.

Monitored calls: `common.NS/getNS/MP/getMP` and `keys.Key.toString/blob/privateBlob/fromString`.

Oracles (deterministic):
  NS/MP  - getNS(join(NS(s_i)) + rest, count) == (s_1..s_count, rest) and the same for MP/getMP;
           NS(s) equals the reference length-prefixed encoding; MP(v) decoded by an independent
           RFC 4251 mpint decoder (two's complement, big endian) gives v, and the encoding has no
           unnecessary leading 0x00 (RFC 4251: MUST NOT) - a decoder-independent check, because
           getMP is lenient about the sign bit.
  keys   - for every generated key and every (format, options) pair that supports its type:
           fromString(serialised) == key (== key.public() for public formats), same MD5 and SHA256
           fingerprints, same public(), same isPublic(); parsed both with auto-detected type and with the
           explicit type.  Which pairs are "supported" is fixed by the documented matrix below (a
           supported pair that raises or does not return bytes is a violation; for unsupported pairs
           the exception type is only recorded).

Keys are generated deterministically from the case rng (pure-python primes for RSA/DSA, private
scalars for EC/Ed25519) so a case is reproducible from the seed; RSA keys come with p > q (what
OpenSSL generates) and with p < q, and with moduli of 2b and 2b-1 bits.

False-alarm guards: equality is `Key.__eq__` (the documented notion of "equal key"); comments are
never compared; encrypted private keys are parsed with the same passphrase (bytes or str, NFKC-stable
strings only); the private-blob format has no auto-detection (it is ambiguous with agentv3 by
design), so it is only parsed with its explicit type.

Classification: an RSA private key whose LSH round trip returns the same n, e, d with p and q
exchanged is keyed `lsh-rsa-private-pq-swap`; every other mismatch keeps a generic key
(`key-roundtrip-*`).
"""
import struct

LEVEL = "exploration"
ENGINE = "core"
TECHNIQUE = "runtime monitoring: decode(encode(x)) == x on the real NS/MP/Key code, plus an independent RFC 4251 mpint decoder"
RULE = ("NS/MP: random strings (lengths biased to 0,1,255,256,65535,65536,70000) and integers (0, 2^k-1, "
        "2^k, 2^k+1 for k<=4096, random widths), count 1..4 with a trailing rest; keys: deterministic pool "
        "(RSA p>q and p<q, DSA, ECDSA P-256/384/521, Ed25519) x every serialisation format x comment / "
        "passphrase options.  A case is distinct by its concrete value list or by (key, format, options).")
ASSUMPTIONS = ["trusted base: `cryptography` loads the generated key numbers faithfully",
               "the support matrix (which format supports which key type) is the documented one in this module",
               "passphrases are restricted to NFKC-stable assigned code points"]
SHARDS = {"quick": 4, "thorough": 16}
FLOORS = {"ns_roundtrips": 2000, "mp_roundtrips": 2000, "mp_reference_decodes": 2000, "key_roundtrips": 60,
          "key_fingerprint_comparisons": 100, "keys_generated": 4, "encrypted_roundtrips": 4,
          "long_value_lists": 1000, "ec_keys_with_leading_zero_coordinate": 1}
READY = True

KNOWN_LSH = "lsh-rsa-private-pq-swap"

# ------------------------------------------------------------------ NS / MP


def ref_ns(b):
    return struct.pack(">I", len(b)) + b


def ref_mpint_decode(enc):
    """RFC 4251 mpint -> (value, rest, problem)."""
    (n,) = struct.unpack(">I", enc[:4])
    body = enc[4:4 + n]
    if len(body) != n:
        return None, b"", "truncated"
    v = int.from_bytes(body, "big", signed=True) if n else 0
    prob = None
    if n >= 1 and body[0] == 0 and (n == 1 or not body[1] & 0x80):
        prob = "unnecessary leading zero byte"
    return v, enc[4 + n:], prob


def gen_string(rng):
    r = rng.random()
    if r < 0.5:
        n = rng.choice((0, 1, 2, 3, 4, 5, 7, 8, 15, 16, 31, 32, 100))
    elif r < 0.9:
        n = rng.choice((255, 256, 257, 1000, 4095, 4096))
    elif r < 0.97:
        n = rng.choice((65535, 65536, 65537))
    else:
        n = rng.randint(66000, 70000)
    if rng.random() < 0.3:
        return bytes([rng.choice((0, 0xFF, 0x80))]) * n
    return rng.randbytes(n)


def gen_int(rng):
    r = rng.random()
    if r < 0.08:
        return rng.choice((0, 1, 2, 127, 128, 129, 255, 256))
    if r < 0.55:
        k = rng.choice((7, 8, 15, 16, 31, 32, 63, 64, 127, 128, 1023, 1024, 2047, 2048, 4095, 4096)) if rng.random() < 0.6 else rng.randint(1, 4096)
        return max(0, 2 ** k + rng.choice((-1, 0, 1)))
    return rng.getrandbits(rng.randint(1, 4096))


def check_ns(ctx, strings, rest):
    from twisted.conch.ssh import common

    ctx.count("ns_roundtrips")
    enc = [common.NS(s) for s in strings]
    for s, e in zip(strings, enc):
        if e != ref_ns(s):
            ctx.violation("ns-encoding-wrong", "NS(s) is not the 4-byte big-endian length followed by s",
                          {"s": s, "encoded_head": e[:40]})
            return
    got = common.getNS(b"".join(enc) + rest, len(strings))
    if got != tuple(strings) + (rest,):
        ctx.violation("ns-roundtrip-mismatch", "getNS(NS(...)) does not return the encoded strings and the rest",
                      {"strings": [s[:60] for s in strings], "lengths": [len(s) for s in strings], "rest": rest,
                       "got_lengths": [len(x) for x in got], "got_heads": [x[:60] for x in got]})


def check_mp(ctx, values, rest):
    from twisted.conch.ssh import common

    ctx.count("mp_roundtrips")
    enc = [common.MP(v) for v in values]
    for v, e in zip(values, enc):
        ctx.count("mp_reference_decodes")
        rv, rrest, prob = ref_mpint_decode(e)
        if rv != v or rrest:
            ctx.violation("mp-encoding-not-rfc4251", "MP(v) does not decode to v with a reference RFC 4251 mpint decoder "
                          "(two's complement: a set top bit needs a leading zero byte)",
                          {"v": str(v), "bits": v.bit_length(), "encoded_head": e[:24], "reference_decodes_to": str(rv)[:80]})
            return
        if prob:
            ctx.violation("mp-encoding-not-minimal", "MP(v) contains an unnecessary leading zero byte", {"v": str(v), "encoded_head": e[:24]})
            return
        if v.bit_length() % 8 == 0 and v:
            ctx.count("mp_top_bit_set")
    got = common.getMP(b"".join(enc) + rest, len(values))
    if got != tuple(values) + (rest,):
        ctx.violation("mp-roundtrip-mismatch", "getMP(MP(...)) does not return the encoded integers and the rest",
                      {"values": [str(v) for v in values], "rest": rest, "got": [str(x)[:100] for x in got]})


# ------------------------------------------------------------------ deterministic key generation

_SMALL = [p for p in range(3, 3000, 2) if all(p % q for q in range(3, int(p ** 0.5) + 1, 2))]


def is_prime(n, rng):
    if n < 2:
        return False
    if n % 2 == 0:
        return n == 2
    for p in _SMALL:
        if n % p == 0:
            return n == p
    d, s = n - 1, 0
    while d % 2 == 0:
        d //= 2
        s += 1
    for _ in range(12):
        a = rng.randrange(2, n - 1)
        x = pow(a, d, n)
        if x in (1, n - 1):
            continue
        for _ in range(s - 1):
            x = x * x % n
            if x == n - 1:
                break
        else:
            return False
    return True


def gen_prime(rng, bits, top2=True):
    while True:
        c = rng.getrandbits(bits) | (1 << (bits - 1)) | 1
        if top2:
            c |= 1 << (bits - 2)
        else:
            c &= ~(1 << (bits - 2))
        if is_prime(c, rng):
            return c


def gen_rsa(rng, bits, order, full):
    from twisted.conch.ssh.keys import Key

    e = rng.choice((3, 17, 257, 65537, 65537))
    half = bits // 2
    while True:
        p, q = gen_prime(rng, half, full), gen_prime(rng, bits - half, full)
        phi = (p - 1) * (q - 1)
        if p != q and phi % e and all((x - 1) % e for x in (p, q)):
            break
    if (p > q) != (order == "p>q"):
        p, q = q, p
    return Key._fromRSAComponents(n=p * q, e=e, d=pow(e, -1, phi), p=p, q=q)


def gen_dsa(rng, L):
    from twisted.conch.ssh.keys import Key

    N = 160 if L == 1024 else 256
    q = gen_prime(rng, N, False)
    while True:
        x = rng.getrandbits(L) | (1 << (L - 1))
        p = x - (x % (2 * q)) + 1
        if p.bit_length() == L and is_prime(p, rng):
            break
    h = 2
    while pow(h, (p - 1) // q, p) == 1:
        h += 1
    g = pow(h, (p - 1) // q, p)
    xx = rng.randrange(1, q)
    return Key._fromDSAComponents(y=pow(g, xx, p), p=p, q=q, g=g, x=xx)


def gen_ec(rng, curve):
    from cryptography.hazmat.primitives.asymmetric import ec
    from twisted.conch.ssh.keys import Key

    c = {"p256": ec.SECP256R1(), "p384": ec.SECP384R1(), "p521": ec.SECP521R1()}[curve]
    # small private scalars give public coordinates / scalars with leading zero bytes sometimes
    v = rng.getrandbits(rng.choice((c.key_size - 1, c.key_size - 9, 64, c.key_size - 1))) or 1
    return Key(ec.derive_private_key(v, c))


def gen_ec_leading_zero(rng, curve):
    """An EC key whose public x or y coordinate has a zero top byte (fixed-width point encoding)."""
    from cryptography.hazmat.primitives.asymmetric import ec
    from twisted.conch.ssh.keys import Key

    c = {"p256": ec.SECP256R1(), "p384": ec.SECP384R1(), "p521": ec.SECP521R1()}[curve]
    nbytes = (c.key_size + 7) // 8
    top = 8 * (nbytes - 1) - (8 * nbytes - c.key_size if c.key_size % 8 else 0)
    for _ in range(4000):
        k = ec.derive_private_key(rng.getrandbits(c.key_size - 2) or 1, c)
        n = k.public_key().public_numbers()
        if min(n.x.bit_length(), n.y.bit_length()) <= c.key_size - 8:
            return Key(k)
    return Key(k)


def gen_ed(rng):
    from twisted.conch.ssh.keys import Key

    return Key._fromEd25519Components(b"", k=rng.randbytes(32))


def key_plan(ctx):
    """[(label, generator args)] - the pool for this tier, same on every shard."""
    plan = []
    if ctx.quick:
        plan += [("rsa", 1024, "p>q", True), ("rsa", 1024, "p<q", False), ("dsa", 1024),
                 ("ec", "p256"), ("ec", "p384"), ("ec", "p521"), ("ed",), ("rsa", 1032, "p>q", False)]
    else:
        sizes = [1024, 1024, 1032, 1040, 1536, 2048, 2048, 2050, 3072, 4096]
        for i in range(20):
            plan.append(("rsa", sizes[i % len(sizes)], ("p>q", "p<q")[i % 2], (True, False)[(i // 2) % 2]))
        for i in range(20):
            plan.append(("dsa", 2048 if i % 5 == 4 else 1024))
        for i in range(20):
            plan.append(("ec", ("p256", "p384", "p521")[i % 3]))
        for i in range(20):
            plan.append(("ed",))
    # appended last so that earlier pool indices (and their replays) stay what they were
    plan += [("ec", "p256", "lz"), ("ec", "p521", "lz")] if ctx.quick else [("ec", c, "lz") for c in ("p256", "p384", "p521") for _ in range(2)]
    return plan


def make_key(rng, spec):
    if spec[0] == "rsa":
        return gen_rsa(rng, spec[1], spec[2], spec[3])
    if spec[0] == "dsa":
        return gen_dsa(rng, spec[1])
    if spec[0] == "ec":
        return gen_ec_leading_zero(rng, spec[1]) if len(spec) > 2 else gen_ec(rng, spec[1])
    return gen_ed(rng)


# ------------------------------------------------------------------ key round trips

PASSPHRASES = [b"secret", b"\x00\xffbin ary\n", "päss wörd 中文", "Ωmega"]
COMMENTS = [None, b"user@host", b"a comment with spaces", "kömment ☃", b""]


def formats_for(key, rng, heavy):
    """[(name, supported?, to_kwargs, is_public_form, explicit_type, from_pass)]"""
    t = key.type()
    out = []
    for c in COMMENTS:
        out.append(("openssh-public", True, dict(type="openssh", comment=c), True, "public_openssh", None))
    out.append(("lsh-public", t in ("RSA", "DSA"), dict(type="lsh"), True, "public_lsh", None))
    out.append(("blob", True, None, True, "blob", None))
    out.append(("openssh-private-default", True, dict(type="openssh"), False, "private_openssh", None))
    out.append(("openssh-private-pem", t != "Ed25519", dict(type="openssh", subtype="PEM"), False, "private_openssh", None))
    for pw in PASSPHRASES:
        out.append(("openssh-private-pem-enc", t != "Ed25519", dict(type="openssh", subtype="PEM", passphrase=pw), False, "private_openssh", pw))
    out.append(("openssh-private-v1", True, dict(type="openssh", subtype="v1"), False, "private_openssh", None))
    out.append(("openssh-private-v1-comment", True, dict(type="openssh", subtype="v1", comment=rng.choice(COMMENTS[1:4])), False, "private_openssh", None))
    for pw in (rng.sample(PASSPHRASES, heavy)):
        out.append(("openssh-private-v1-enc", True, dict(type="openssh", subtype="v1", passphrase=pw), False, "private_openssh", pw))
    out.append(("lsh-private", t in ("RSA", "DSA"), dict(type="lsh"), False, "private_lsh", None))
    out.append(("agentv3", t in ("RSA", "DSA"), dict(type="agentv3"), False, "agentv3", None))
    out.append(("private-blob", True, None, False, "private_blob", None))
    return out


def describe(key):
    d = key.data()
    return {k: (str(v) if isinstance(v, int) else v) for k, v in d.items()}


def check_format(ctx, key, label, fmt):
    from twisted.conch.ssh.keys import FingerprintFormats, Key

    name, supported, kw, public_form, explicit, pw = fmt
    src = key.public() if public_form else key
    opts = {k: v for k, v in (kw or {}).items() if k != "type"}
    try:
        if kw is None:
            data = src.blob() if public_form else src.privateBlob()
        else:
            data = src.toString(**kw)
    except Exception as e:  # noqa: BLE001
        data, err = None, "%s: %s" % (type(e).__name__, e)
    else:
        err = None if isinstance(data, bytes) else "returned %r" % (data,)
    if not supported:
        ctx.count("unsupported_pairs_skipped")
        ctx.seen("unsupported_pair_outcomes", "%s/%s: %s" % (key.type(), name, (err or "returned bytes")[:60]))
        return
    witness = {"key": label, "key_type": key.type(), "bits": key.size(), "format": name, "options": opts, "key_data": describe(key)}
    if err is not None:
        ctx.violation("key-serialise-failed", "a format that supports the key type did not produce bytes",
                      dict(witness, error=err))
        return
    ctx.distinct((label, name, repr(opts)))
    for how in ("guess", "explicit"):
        if how == "guess" and name == "private-blob":
            continue
        ctx.evaluated()
        ctx.count("key_roundtrips")
        if pw is not None:
            ctx.count("encrypted_roundtrips")
        ctx.seen("roundtrips", "%s/%s/%s" % (key.type(), name, how))
        try:
            back = Key.fromString(data, type=None if how == "guess" else explicit, passphrase=pw)
        except Exception as e:  # noqa: BLE001
            ctx.violation("key-parse-failed-%s" % how, "fromString raised on the output of toString for a supported format",
                          dict(witness, serialised=data, error="%s: %s" % (type(e).__name__, e), parse=how))
            continue
        problems = []
        try:
            if back.isPublic() != public_form:
                problems.append("isPublic() differs")
            if not (back == src) or back != src:
                problems.append("parsed key != original")
            for f in (FingerprintFormats.MD5_HEX, FingerprintFormats.SHA256_BASE64):
                ctx.count("key_fingerprint_comparisons")
                if back.fingerprint(f) != key.fingerprint(f):
                    problems.append("fingerprint %s differs" % f.name)
            if back.public() != key.public():
                problems.append("public() differs")
        except Exception as e:  # noqa: BLE001
            ctx.violation("key-api-raised", "comparing / fingerprinting the parsed key raised",
                          dict(witness, serialised=data, parse=how, error="%s: %s" % (type(e).__name__, e)))
            continue
        if not problems:
            continue
        w = dict(witness, serialised=data, parse=how, problems=problems, parsed_key_data=describe(back))
        a, b = key.data(), back.data()
        if (name == "lsh-private" and key.type() == "RSA" and problems == ["parsed key != original"]
                and all(a[k] == b[k] for k in "ned") and (a["p"], a["q"]) == (b["q"], b["p"]) and a["p"] > a["q"]):
            ctx.count("lsh_pq_swaps_seen")
            ctx.violation(KNOWN_LSH, "RSA private key -> toString('lsh') -> fromString gives a key with p and q exchanged "
                          "(!= original; n, e, d and fingerprint equal); happens whenever p > q", w)
        else:
            key_ = "key-roundtrip-fingerprint" if any("fingerprint" in p for p in problems) else "key-roundtrip-not-equal"
            ctx.violation(key_, "%s round trip: %s" % (name, "; ".join(problems)), w)


def check_key(ctx, idx, spec, heavy):
    rng = ctx.case_rng("key", idx)
    label = "%d:%s" % (idx, "-".join(map(str, spec)))
    key = make_key(rng, spec)
    ctx.count("keys_generated")
    ctx.seen("key_kinds", "%s-%d" % (key.type(), key.size()))
    if spec[0] == "rsa":
        d = key.data()
        ctx.count("rsa_keys_p_gt_q" if d["p"] > d["q"] else "rsa_keys_p_lt_q")
    if spec[0] == "ec":
        d = key.data()
        if min(d["x"].bit_length(), d["y"].bit_length()) <= key.size() - 8:
            ctx.count("ec_keys_with_leading_zero_coordinate")
    for fmt in formats_for(key, rng, heavy):
        check_format(ctx, key, label, fmt)
    if idx < 2:
        ctx.sample({"key": label, "public_openssh": key.public().toString("openssh"), "md5": key.fingerprint()})


def run(ctx):
    import warnings

    warnings.simplefilter("ignore")
    for i in ctx.cases(24000, 1600000):
        rng = ctx.case_rng("prim", i)
        n = rng.randint(1, 4)
        rest = rng.randbytes(rng.choice((0, 0, 1, 3, 4, 5, 20)))
        if i % 2:
            strings = [gen_string(rng) for _ in range(n)]
            if rng.random() < 0.1:
                s = "".join(chr(rng.choice((0x41, 0xE9, 0x4E2D, 0x1F600, 0))) for _ in range(rng.randint(0, 6)))
                from twisted.conch.ssh import common

                if common.getNS(common.NS(s))[0] != s.encode("utf-8"):
                    ctx.violation("ns-text-not-utf8", "NS(str) does not carry the UTF-8 encoding", {"s": s})
            check_ns(ctx, strings, rest)
            ctx.distinct(("ns", tuple(strings), rest))
        else:
            values = [gen_int(rng) for _ in range(n)]
            check_mp(ctx, values, rest)
            ctx.distinct(("mp", tuple(values), rest))
        ctx.evaluated()
    from twisted.conch.ssh import common

    # longer runs of values per call (KEXINIT reads 10 name-lists with one getNS), incl. empty strings and zeros
    for i in ctx.cases(3000, 200000):
        rng = ctx.case_rng("many", i)
        n = rng.randint(5, 12)
        rest = rng.randbytes(rng.choice((0, 1, 4, 9)))
        if i % 2:
            strings = [rng.choice((b"", b"", b",", rng.randbytes(rng.randint(0, 40)))) for _ in range(n)]
            check_ns(ctx, strings, rest)
            ctx.distinct(("ns-many", tuple(strings), rest))
        else:
            values = [rng.choice((0, 0, 1, 128, gen_int(rng))) for _ in range(n)]
            check_mp(ctx, values, rest)
            ctx.distinct(("mp-many", tuple(values), rest))
        ctx.count("long_value_lists")
        ctx.evaluated()
    # counted, not judged (the statement is about values MP/NS produce): foreign mpint encodings and negative input
    if ctx.shard == 0:
        for enc_ in (b"\0\0\0\1\xff", b"\0\0\0\2\x00\x7f", b"\0\0\0\2\xff\x7f", b"\0\0\0\1\x80"):
            ctx.seen("unjudged_getMP_foreign_encodings", "%s -> %r" % (enc_.hex(), common.getMP(enc_)[0]))
        try:
            ctx.seen("unjudged_MP_negative", repr(common.MP(-1)))
        except Exception as e:  # noqa: BLE001
            ctx.seen("unjudged_MP_negative", type(e).__name__)
    plan = key_plan(ctx)
    for idx, spec in enumerate(plan):
        if ctx.owns(idx):
            check_key(ctx, idx, spec, heavy=1 if ctx.quick else 2)


def replay(ctx, w):
    import warnings

    warnings.simplefilter("ignore")
    x = w["witness"]
    if "key" in x:
        idx = int(x["key"].split(":")[0])
        check_key(ctx, idx, key_plan(ctx)[idx], heavy=1 if ctx.quick else 2)
    elif "v" in x:
        check_mp(ctx, [int(x["v"])], b"")
    elif "values" in x:
        check_mp(ctx, [int(v) for v in x["values"]], b"")
    else:
        ctx.inconclusive("replay: re-run with VERIF_SEED=%s (string cases are regenerated from the seed)" % w.get("seed"))
