"""C14 transport write buffering: bytes reach the OS exactly once, in order; producers honoured.

Object under test: a real `abstract.FileDescriptor` subclass whose `writeSomeData` is the ADVERSARY
(accepts 0, 1, len-1, len, half, SEND_LIMIT-ish or a random count; long runs of zero; sometimes
returns CONNECTION_LOST or raises) on a fake reactor that only records add/removeReader/Writer and
reuses the real `_DisconnectSelectableMixin._disconnectSelectable`.  The driver calls `doWrite()`
only while the descriptor is a registered writer and treats its result exactly like
`PosixReactorBase._doReadOrWrite` (fileno() == -1 check, exception -> disconnect).

Every byte written comes from one fixed random tape R, consecutive writes take consecutive slices,
so the position of an accepted byte identifies the write it came from.

Oracle (API boundary unless stated):
* stream: the bytes ACCEPTED by the OS are always R[c0 : c0+accepted] and never go beyond what was
  written while the connection was up and the write side not yet closed (`connectionLost` /
  `_closeWriteConnection` not yet called) -> no loss, duplication, reordering, nothing after close;
* close: when the descriptor closes in an orderly way (any ConnectionDone: out of doWrite or straight
  out of loseConnection(), also while a requested half close is still pending), everything
  written before the first loseConnection() has been accepted; it is never closed that way while a
  non-streaming producer is registered; `_closeWriteConnection` only after everything written
  before loseWriteConnection() was accepted;
* producers: after a write that added bytes, with a streaming producer registered and more than
  bufferSize bytes outstanding, the producer is in the paused state; a streaming producer is never
  resumed while more than bufferSize bytes are outstanding; at the moment everything outstanding
  has been accepted, a paused streaming producer / any non-streaming producer gets
  resumeProducing before doWrite returns;
* progress: while connected with bytes outstanding the descriptor is a registered writer, and a
  final cooperative drain hands over everything written;
* close completes (decided on logical steps, not time): once loseConnection() was requested, if
  nothing is outstanding, no producer is registered and the descriptor is not a registered writer
  (nothing can ever call doWrite again), connectionLost must already have been delivered;
* conservation (internal, DESIGN C14): len(dataBuffer) - offset + _tempDataLen == written - accepted.

writeSequence gets lists, tuples, iterators and generators; a list argument is afterwards mutated by
the caller (cleared, appended to, element replaced/removed - at once, after the next write() or
just before the next doWrite) or is ONE list object the caller keeps refilling and resending: the
bytes written are those in the list at the time of the call, whatever the caller does to its own
list later.

Rejected calls: write(non-bytes) and writeSequence with a str/None/int/bytearray/memoryview item in
first, middle or last position (list, tuple or iterator argument) are interleaved everywhere, also
between a big write and a half close/close.  They must contribute nothing: the valid chunks around
the bad item are junk bytes that are not on the tape, so anything queued before the call failed is
caught as foreign bytes (and at once by the conservation contract).

Producer hooks are application code that re-enters the transport: resumeProducing writes,
writeSequences, half-closes, closes, unregisters itself or hands over to a successor producer, and
sometimes raises after its work (the failure disconnects the descriptor; the byte oracle still
applies); pauseProducing (once per producer) writes, unregisters or closes; stopProducing writes
(must be ignored) or registers a producer on the dead transport.  doWrite acceptances include the
limit boundaries: exactly SEND_LIMIT (+-1) accepted or left unsent, exactly bufferSize (+-1) left
outstanding.  Not judged (statement silent): a raising pauseProducing/stopProducing.

Guards (latitude the code legitimately has): writes after loseConnection() but before the close are
accepted (only "everything before loseConnection" is required at close); a streaming, un-paused
producer does not delay the close; a producer registered on an already full buffer is only paused
at its next non-empty write; extra resumeProducing calls are allowed; write(b"") never triggers the
pause check; loseConnection() after the write side was closed closes at once even with a producer
(nothing can be produced any more); only ACCEPTED bytes are judged, not bytes merely offered.
"""
import random

LEVEL = "exploration"
ENGINE = "core"
TECHNIQUE = "runtime monitoring: accepted-byte tape comparison + producer/close state model on a real FileDescriptor with an adversarial writeSomeData"
RULE = ("one case = one random history (<= 300 ops) of write/writeSequence (0 B..1 MiB, sizes biased to bufferSize and "
        "SEND_LIMIT boundaries), register/unregister producers (streaming or pull, writing from resumeProducing), "
        "producer output, transport pause/resume/stopProducing, loseConnection, loseWriteConnection and doWrite with an "
        "adversarial acceptance count; distinct by the executed op list; non-trivial = at least one doWrite accepted a "
        "proper part (0 < n < offered) or zero bytes, and at least one byte reached the OS")
ASSUMPTIONS = [
    "the fake reactor calls doWrite only while the descriptor is a registered writer (as every real reactor does)",
    "the conservation contract reads dataBuffer/offset/_tempDataLen (internal names, sanctioned by DESIGN C14)",
]
SHARDS = {"quick": 4, "thorough": 16}
FLOORS = {"doWrite_calls": 5000, "partial_accepts": 300, "zero_accepts": 100, "bytes_accepted": 1000000, "orderly_closes": 50,
          "pause_checks": 100, "drain_resume_checks": 100, "halfclose_checks": 20, "closes_deferred_for_pull_producer": 10,
          "closes_with_data_written_before_loseconnection": 30, "histories_with_big_buffer": 20,
          "halfclose_close_scripts": 100, "closes_while_halfclose_pending": 30, "caller_list_mutations": 500,
          "rejected_calls": 1000, "rejected_calls_raised_typeerror": 1000, "reentrant_hook_calls": 300, "producer_swaps_in_hook": 30, "hook_raises": 50, "boundary_accepts": 200}
READY = True

import os

# validation aid: VERIF_C14_NO_INTERNAL=1 switches the internal conservation contract off to show
# that the API-boundary oracle alone also catches the seeded breaks
CHECK_INTERNAL = not os.environ.get("VERIF_C14_NO_INTERNAL")
TAPE_LEN = 12 * 1024 * 1024
_TAPE = []


def tape():
    if not _TAPE:
        _TAPE.append(random.Random(20240914).randbytes(TAPE_LEN))
    return _TAPE[0]


class Bad(Exception):
    """Raised inside a case to stop it after a violation has been recorded."""


class PlannedHookError(Exception):
    """Raised on purpose by a producer hook after it did its work."""


def make_world(ctx, rng, case):
    from twisted.internet import abstract, main
    from twisted.internet.posixbase import _DisconnectSelectableMixin, _NO_FILEDESC

    R = tape()

    class FakeReactor(_DisconnectSelectableMixin):
        def __init__(self):
            self.readers, self.writers = set(), set()

        def addReader(self, r):
            self.readers.add(r)

        def removeReader(self, r):
            self.readers.discard(r)

        def addWriter(self, w):
            self.writers.add(w)

        def removeWriter(self, w):
            self.writers.discard(w)

    class World:
        pass

    w = World()
    w.ctx, w.rng, w.case = ctx, rng, case
    w.log = []  # executed ops, for the witness
    w.c0 = rng.randrange(0, 1 << 20)
    w.cursor = w.c0  # next tape position handed to a write call
    w.expect_end = w.c0  # end of what must (eventually) reach the OS
    w.accepted = w.c0  # tape position up to which the OS accepted
    w.alive = True  # connectionLost not yet seen
    w.write_closed = False  # _closeWriteConnection seen
    w.lc_mark = None  # cursor at the first loseConnection()
    w.lwc_mark = None  # cursor at the first loseWriteConnection()
    w.lost_reasons = []
    w.producer = None  # model of the registered producer
    w.drain = None  # snapshot taken at the moment everything outstanding was accepted
    w.stats = {"partial": 0, "zero": 0, "dowrite": 0}
    w.plan_accept = None
    w.stopped = False
    w.hook_depth = 0
    w.callout_depth = 0
    w.caller_buf = []  # the caller's reusable output list for writeSequence
    w.caller_own = 0
    w.deferred_mut = []

    def violation(key, what, fatal=True, **extra):
        wit = {"case": case, "c0": w.c0, "ops_tail": w.log[-60:], "n_ops": len(w.log), "written": w.cursor - w.c0,
               "must_deliver": w.expect_end - w.c0, "accepted": w.accepted - w.c0, "alive": w.alive,
               "write_closed": w.write_closed, "bufferSize": fd.bufferSize}
        wit.update(extra)
        ctx.violation(key, what, wit)
        if fatal:
            w.stopped = True
            raise Bad(key)

    w.violation = violation

    class FD(abstract.FileDescriptor):
        connected = 1
        _fileno = 7

        def fileno(self):
            return self._fileno

        def writeSomeData(self, data):
            n_off = len(data)
            if not w.alive:
                violation("write-attempt-after-close", "writeSomeData called after connectionLost", offered=n_off)
            how = w.plan_accept if w.plan_accept is not None else "all"
            w.plan_accept = None
            if how == "lost":
                w.log.append(["os", n_off, "CONNECTION_LOST"])
                return main.CONNECTION_LOST
            if how == "raise":
                w.log.append(["os", n_off, "raise"])
                raise OSError("adversary")
            out_now = w.expect_end - w.accepted
            table = {"all": n_off, "zero": 0, "one": 1, "allbut1": max(0, n_off - 1), "half": n_off // 2,
                     # boundary acceptances: leave exactly SEND_LIMIT (+-1) unsent in dataBuffer / exactly bufferSize (+-1) outstanding
                     "leave_sl": n_off - self.SEND_LIMIT, "leave_sl+1": n_off - self.SEND_LIMIT - 1, "leave_sl-1": n_off - self.SEND_LIMIT + 1,
                     "leave_bs": out_now - self.bufferSize, "leave_bs+1": out_now - self.bufferSize - 1, "leave_bs-1": out_now - self.bufferSize + 1}
            n = max(0, min(n_off, table.get(how, how if isinstance(how, int) else n_off)))
            if isinstance(how, str) and how.startswith("leave_") and 0 < n < n_off:
                ctx.count("boundary_accepts")
            w.log.append(["os", n_off, n])
            if n:
                got = bytes(data[:n])
                want = R[w.accepted:w.accepted + n]
                if got != want:
                    i = next(j for j in range(n) if got[j] != want[j])
                    probe = got[i:i + 16]
                    at = R.find(probe, max(0, w.accepted - (1 << 21)), w.accepted + i + (1 << 21)) if len(probe) == 16 else -1
                    pos = w.accepted + i
                    key = "bytes-repeated" if 0 <= at < pos else "bytes-skipped" if at > pos else "bytes-corrupted"
                    violation(key, "the bytes accepted by the OS are not the next bytes written", at_offset=pos - w.c0,
                              found_at_offset=(at - w.c0 if at >= 0 else None), got=got[i:i + 24], want=want[i:i + 24])
                if w.accepted + n > w.expect_end:
                    violation("bytes-not-written-while-connected", "the OS accepted bytes beyond those written while the connection/write side was open",
                              beyond=w.accepted + n - w.expect_end)
                w.accepted += n
                ctx.count("bytes_accepted", n)
            if n == 0:
                w.stats["zero"] += 1
            elif n < n_off:
                w.stats["partial"] += 1
            if w.accepted == w.expect_end and n:
                p = w.producer
                w.drain = (p, p.resumes if p else 0, p.paused if p else False)
            return n

        def _closeWriteConnection(self):
            w.log.append(["_closeWriteConnection"])
            ctx.count("halfclose_checks")
            if w.lwc_mark is None:
                violation("write-side-closed-unasked", "_closeWriteConnection without loseWriteConnection()")
            if w.accepted < w.lwc_mark:
                violation("write-side-closed-before-flush", "write side closed before everything written before loseWriteConnection() was handed over",
                          missing=w.lwc_mark - w.accepted)
            w.write_closed = True

        def connectionLost(self, reason):
            w.log.append(["connectionLost", reason.type.__name__])
            w.lost_reasons.append(reason.type.__name__)
            was_alive = w.alive
            w.alive = False
            self._fileno = -1
            abstract.FileDescriptor.connectionLost(self, reason)
            # An orderly close is ANY ConnectionDone: out of doWrite after the drain, or straight out
            # of loseConnection() (its "write side already closed" shortcut).
            if was_alive and reason.type.__name__ == "ConnectionDone":
                ctx.count("orderly_closes")
                ctx.count("orderly_closes_from_dowrite" if w.in_dowrite else "orderly_closes_from_loseconnection")
                if w.lwc_mark is not None and not w.write_closed:
                    ctx.count("closes_while_halfclose_pending")
                if w.lc_mark is None:
                    violation("closed-unasked", "orderly close out of doWrite without loseConnection()")
                if w.lc_mark > w.c0:
                    ctx.count("closes_with_data_written_before_loseconnection")
                if w.accepted < w.lc_mark:
                    violation("closed-before-flush", "closed before everything written before loseConnection() was handed to the OS",
                              missing=w.lc_mark - w.accepted)
                p = w.producer
                if p is not None:
                    ctx.count("closes_with_streaming_producer_registered" if p.streaming else "closes_with_pull_producer_registered")
                    # guard: once the write side is closed nothing can be produced any more
                    if not p.streaming and not w.write_closed:
                        violation("closed-with-pull-producer-registered", "closed while a non-streaming producer was registered")
            w.producer = None

    class Producer:
        """Application code at the other end of the call-outs.  Its hooks re-enter the transport
        (write/writeSequence/loseConnection/loseWriteConnection/unregister/register a successor)
        and resumeProducing sometimes raises after doing its work."""

        def __init__(self, streaming):
            self.streaming = streaming
            self.paused = False
            self.resumes = self.pauses = self.stops = 0
            self.quota = rng.choice([0, 1, 2, 3, 6])  # pull: number of resumes that write something
            self.id = len(w.log)
            self.pause_hooked = False

        def resumeProducing(self):
            w.callout_depth += 1
            try:
                self._resume()
            finally:
                w.callout_depth -= 1

        def pauseProducing(self):
            w.callout_depth += 1
            try:
                self._pause()
            finally:
                w.callout_depth -= 1

        def stopProducing(self):
            w.callout_depth += 1
            try:
                self._stop()
            finally:
                w.callout_depth -= 1

        def _resume(self):
            self.resumes += 1
            self.paused = False
            w.log.append(["P.resume", self.id])
            if self.streaming:
                ctx.count("streaming_resumes")
                out = w.expect_end - w.accepted
                if w.alive and out > fd.bufferSize:
                    violation("streaming-producer-resumed-over-buffer-size", "a streaming producer was resumed while more than bufferSize bytes were outstanding", outstanding=out)
            if w.stopped:
                return
            r = rng.random()
            if not self.streaming:
                if self.quota > 0:
                    self.quota -= 1
                    do_write(pick_size(), "P.write")
                elif r < 0.6 and w.producer is self:
                    do_unregister()
                    if rng.random() < 0.5:
                        do_lose()
            elif r < 0.5:
                do_write(pick_size(), "P.write")  # push producers commonly write straight away
            x = rng.random()
            if x < 0.08:
                ctx.count("reentrant_hook_calls")
                do_write_sequence([rng.randint(0, 2000), pick_size() // 8], rng.choice(["list", "reused-list", "tuple"]), "P.writeSequence")
            elif x < 0.11:
                ctx.count("reentrant_hook_calls")
                do_lose_write()
            elif x < 0.17 and w.producer is self and w.hook_depth < 3:
                # hand over to a successor from inside the call-out
                ctx.count("reentrant_hook_calls")
                ctx.count("producer_swaps_in_hook")
                w.hook_depth += 1
                try:
                    do_unregister()
                    do_register(rng.random() < 0.6)
                finally:
                    w.hook_depth -= 1
            elif x < 0.20:
                ctx.count("hook_raises")
                w.log.append(["P.resume raises", self.id])
                raise PlannedHookError("resumeProducing %d" % self.id)

        def _pause(self):
            self.pauses += 1
            self.paused = True
            w.log.append(["P.pause", self.id])
            if w.stopped or self.pause_hooked or rng.random() > 0.2:
                return
            self.pause_hooked = True  # once per producer: a write from here re-enters pauseProducing
            ctx.count("reentrant_hook_calls")
            x = rng.random()
            if x < 0.5:
                do_write(rng.randint(0, 300), "P.write(in pause)")
            elif x < 0.75 and w.producer is self:
                do_unregister()
            else:
                do_lose()

        def _stop(self):
            self.stops += 1
            w.log.append(["P.stop", self.id])
            if w.stopped or w.hook_depth >= 3 or rng.random() > 0.3:
                return
            ctx.count("reentrant_hook_calls")
            w.hook_depth += 1
            try:
                if rng.random() < 0.6 or fd.producer is not None:  # (during connectionLost the old producer is still set)
                    do_write(rng.randint(1, 500), "P.write(in stop)")  # the transport is gone: must be ignored
                else:
                    do_register(rng.random() < 0.5)  # on a dead transport: gets stopProducing at once
            finally:
                w.hook_depth -= 1

    reactor = FakeReactor()
    fd = FD(reactor)
    fd.bufferSize = rng.choice([65536, 65536, 1000, 10, 200000])
    w.fd, w.reactor = fd, reactor
    w.in_dowrite = False

    def pick_size():
        r = rng.random()
        bs, sl = fd.bufferSize, fd.SEND_LIMIT
        if r < 0.06:
            return 0
        if r < 0.30:
            return rng.randint(1, 20)
        if r < 0.55:
            return rng.randint(20, 5000)
        if r < 0.70:
            return max(0, bs + rng.choice([-1, 0, 1, 2, -bs // 2]))
        if r < 0.85:
            return rng.choice([sl - 1, sl, sl + 1, sl // 2, 2 * sl, sl + 4000])
        if r < 0.97:
            return rng.randint(5000, 300000)
        return rng.randint(300000, 1048576)

    def after_write(added, label):
        """Checks that follow any write call that returned."""
        if added and w.alive and not w.write_closed:
            p = w.producer
            out = w.expect_end - w.accepted
            if p is not None and p.streaming and out > fd.bufferSize:
                ctx.count("pause_checks")
                if not p.paused:
                    w.violation("streaming-producer-not-paused", "after a write leaving more than bufferSize bytes outstanding the streaming producer is not paused",
                                outstanding=out, op=label)
        invariants(label)

    def accounted(n, label):
        """Advance the tape for a write of n bytes; returns (slice, whether it must be delivered)."""
        if w.cursor + n > TAPE_LEN:
            n = max(0, TAPE_LEN - w.cursor)
        data = R[w.cursor:w.cursor + n]
        live = w.alive and not w.write_closed
        w.cursor += n
        if live:
            w.expect_end = w.cursor
        return data, live

    def do_write(n, label="write"):
        if w.stopped:
            return
        data, live = accounted(n, label)
        w.log.append([label, len(data)])
        fd.write(data)
        run_deferred("after_next_write")
        after_write(len(data) if live else 0, label)

    def do_write_sequence(sizes, container, label="writeSequence"):
        chunks = []
        live = True
        for n in sizes:
            d, live = accounted(n, label)
            chunks.append(d)
        total = sum(map(len, chunks))
        w.log.append([label, [len(c) for c in chunks], container])
        before = _real_outstanding()
        if container == "reused-list":
            # the caller keeps ONE list object as its output buffer: it removes what it put there
            # last time and refills it (whatever else is in it - nothing, for a correct transport -
            # gets sent again)
            buf = w.caller_buf
            del buf[:w.caller_own]
            buf.extend(chunks)
            w.caller_own = len(chunks)
            arg = buf
        else:
            arg = {"list": chunks, "tuple": tuple(chunks), "iter": iter(chunks), "gen": (c for c in chunks)}[container]
        fd.writeSequence(arg)
        if container in ("list", "reused-list") and rng.random() < 0.6:
            # afterwards the caller does what it likes with ITS list: the bytes written are those
            # that were in it at the time of the call
            how = rng.choice(["clear", "append", "replace", "pop"])
            when = rng.choice(["now", "now", "after_next_write", "before_next_dowrite"])
            w.log.append(["caller-list", how, when])
            ctx.count("caller_list_mutations")
            if when == "now":
                mutate_caller_list(arg, how)
            else:
                w.deferred_mut.append((when, arg, how))
        if container in ("iter", "gen") and live and total and _real_outstanding() == before:
            # causal signature of the one-shot-iterable defect: a connected descriptor took nothing
            w.violation("writesequence-one-shot-iterable-dropped", "writeSequence(iterator/generator of bytes) silently dropped all the data "
                        "(ITransport.writeSequence takes an Iterable[bytes])", fatal=False, dropped=total, container=container)
            # resynchronise the model (as if the call had not been made) so the rest of the history stays checkable
            w.cursor -= total
            w.expect_end = w.cursor
            total = 0
        after_write(total if live else 0, label)

    def do_rejected(how):
        """A call the transport must refuse (a non-bytes item): TypeError, and NOTHING of it may ever
        reach the OS.  The valid chunks around the bad item are junk that is not on the tape, so a
        chunk that was queued before the call failed shows up as foreign bytes."""
        junk = lambda: b"\xa5" * rng.choice([1, 3, 64, 5000])
        bad = rng.choice(["text", None, 7, bytearray(b"ba"), memoryview(b"mv")])
        w.log.append(["rejected", how, type(bad).__name__])
        ctx.count("rejected_calls")
        try:
            if how == "write":
                fd.write(bad)
            else:
                n_before, n_after = {"first": (0, rng.randint(0, 2)), "middle": (rng.randint(1, 3), rng.randint(1, 3)), "last": (rng.randint(1, 3), 0)}[how]
                items = [junk() for _ in range(n_before)] + [bad] + [junk() for _ in range(n_after)]
                arg = rng.choice([list, tuple, iter])(items)
                fd.writeSequence(arg)
        except TypeError:
            ctx.count("rejected_calls_raised_typeerror")
        else:
            ctx.count("rejected_calls_not_raising")  # not judged here: anything it queued is judged as foreign bytes
        invariants("rejected " + how)

    def mutate_caller_list(lst, how):
        junk = b"\xa5" * rng.choice([1, 7, 300])
        if how == "clear":
            del lst[:]
        elif how == "append":
            lst.append(junk)
        elif how == "replace" and lst:
            lst[rng.randrange(len(lst))] = junk
        elif how == "pop" and lst:
            lst.pop(rng.randrange(len(lst)))
        if lst is w.caller_buf:
            w.caller_own = 0 if how == "clear" else len(lst)  # the caller knows what it did to its own buffer

    def run_deferred(when):
        keep = []
        for item in w.deferred_mut:
            if item[0] == when:
                mutate_caller_list(item[1], item[2])
            else:
                keep.append(item)
        w.deferred_mut[:] = keep

    def _real_outstanding():
        return len(fd.dataBuffer) - fd.offset + fd._tempDataLen

    def invariants(label):
        # only between top-level operations: inside a call-out the transport method that made it
        # has not finished yet (e.g. write() pauses the producer BEFORE it registers for writing)
        if not w.alive or w.callout_depth:
            return
        out = w.expect_end - w.accepted
        real = _real_outstanding()
        if CHECK_INTERNAL and (real != out or fd._tempDataLen != sum(map(len, fd._tempDataBuffer))):
            w.violation("buffer-accounting", "len(dataBuffer)-offset+_tempDataLen differs from written-accepted (or _tempDataLen from the staged chunks)",
                        real_outstanding=real, model_outstanding=out, tempDataLen=fd._tempDataLen, staged=sum(map(len, fd._tempDataBuffer)), op=label)
        if w.lc_mark is not None and out == 0 and w.producer is None and fd not in reactor.writers:
            # bounded-progress reading of "closed only after everything ... was handed over": the close
            # was requested, nothing is buffered, no producer could add anything and nobody will ever
            # call doWrite again (not a registered writer) - so the close can never happen any more
            w.violation("close-never-completes", "loseConnection() was requested, everything was handed over, no producer is registered, "
                        "yet the descriptor is neither closed nor registered for writing: connectionLost can never be delivered", op=label)
        if out > 0 and fd not in reactor.writers:
            w.violation("outstanding-bytes-not-scheduled", "bytes are outstanding on a connected descriptor that is not registered for writing", outstanding=out, op=label)

    def do_register(streaming):
        p = Producer(streaming)
        w.log.append(["register", "streaming" if streaming else "pull", p.id])
        if w.alive:
            w.producer = p
        dead_before = not w.alive
        try:
            fd.registerProducer(p, streaming)  # pull: resumeProducing() runs re-entrantly here
        except PlannedHookError:
            pass  # the application's own error comes back to the application; the producer stays registered
        if dead_before:
            ctx.count("registrations_on_dead_transport_stopped" if p.stops == 1 else "registrations_on_dead_transport_not_stopped")  # evidence only
        invariants("register")

    def do_unregister():
        w.log.append(["unregister"])
        w.producer = None
        fd.unregisterProducer()
        invariants("unregister")

    def do_lose():
        w.log.append(["loseConnection"])
        if w.lc_mark is None and w.alive:
            w.lc_mark = w.cursor if not w.write_closed else w.expect_end
        fd.loseConnection()
        invariants("loseConnection")

    def do_lose_write():
        w.log.append(["loseWriteConnection"])
        if w.lwc_mark is None:
            w.lwc_mark = w.cursor if w.alive and not w.write_closed else w.expect_end
        fd.loseWriteConnection()
        invariants("loseWriteConnection")

    def do_dowrite(how):
        """One write-readiness notification, handled as PosixReactorBase._doReadOrWrite does."""
        if fd not in reactor.writers:
            return False
        run_deferred("after_next_write")
        run_deferred("before_next_dowrite")
        w.stats["dowrite"] += 1
        ctx.count("doWrite_calls")
        w.plan_accept = how
        w.drain = None
        w.log.append(["doWrite", how])
        w.in_dowrite = True
        try:
            if fd.fileno() == -1:
                why = _NO_FILEDESC
            else:
                try:
                    why = fd.doWrite()
                except Bad:
                    raise
                except Exception as e:
                    why = e
            if why:
                reactor._disconnectSelectable(fd, why, False)
        finally:
            w.in_dowrite = False
            w.plan_accept = None
        if w.drain is not None and w.alive and not why:
            p, resumes, was_paused = w.drain
            if p is not None and not p.streaming and w.lc_mark is not None:
                ctx.count("closes_deferred_for_pull_producer")  # drained after loseConnection(), still open: the guard worked
            if p is not None and w.producer is p and (not p.streaming or was_paused):
                ctx.count("drain_resume_checks")
                if p.resumes <= resumes:
                    w.violation("producer-not-resumed-at-drain", "everything outstanding was accepted but the %s producer was not asked to resume"
                                % ("paused streaming" if p.streaming else "non-streaming"))
        invariants("doWrite")
        return True

    w.ops = {"rejected": do_rejected, "write": do_write, "writeSequence": do_write_sequence, "register": do_register, "unregister": do_unregister,
             "lose": do_lose, "loseWrite": do_lose_write, "doWrite": do_dowrite, "pick_size": pick_size}
    return w


def run_case(ctx, case):
    rng = ctx.case_rng("hist", case)
    w = make_world(ctx, rng, case)
    ops, fd, reactor = w.ops, w.fd, w.reactor
    nops = rng.choice([15, 40, 80, 150, 300])
    zero_run = 0
    one_shot_p = 0.02
    script = []
    try:
        post_mortem = 8  # a few more ops on a dead descriptor (must be ignored), then stop
        for _ in range(nops):
            if not w.alive:
                post_mortem -= 1
                if post_mortem < 0:
                    break
            if script:
                step = script.pop(0)
                if step[0] == "write":
                    ops["write"](step[1])
                elif step[0] == "ws":
                    ops["writeSequence"](step[1], rng.choice(["list", "reused-list"]))
                elif step[0] == "doWrite":
                    ops["doWrite"](step[1])
                elif step[0] == "rejected":
                    ops["rejected"](step[1])
                else:
                    ops[step[0]]()
                continue
            r = rng.random()
            if rng.random() < 0.03:
                ops["rejected"](rng.choice(["write", "first", "middle", "middle", "last", "last"]))
                continue
            if w.alive and not w.write_closed and w.lc_mark is None and r < 0.012:
                # half close requested and full close with bytes still buffered, both orders, with
                # partial acceptance and writes in between (needs several steps in a row)
                ctx.count("halfclose_close_scripts")
                big = [["write", ops["pick_size"]() + rng.choice([1, 5000, 200000])], ["ws", [rng.randint(0, 3000), rng.randint(1, 70000)]]][rng.random() < 0.3]
                part = lambda: ["doWrite", rng.choice(["zero", "one", "half", rng.randint(0, 3000), "allbut1"])]
                maybe = lambda step: [step] if rng.random() < 0.5 else []
                first, second = (["loseWrite"], ["lose"]) if rng.random() < 0.7 else (["lose"], ["loseWrite"])
                script = [big] + maybe(["rejected", rng.choice(["middle", "last"])]) + maybe(part()) + [first] + maybe(["write", rng.randint(0, 5000)]) + maybe(part()) + [second] + maybe(["write", rng.randint(0, 500)])
                continue
            if zero_run > 0 and fd in reactor.writers:
                zero_run -= 1
                ops["doWrite"]("zero")
                continue
            if r < 0.30:
                ops["write"](ops["pick_size"]())
            elif r < 0.38:
                k = rng.choice([0, 1, 2, 3, 6])
                sizes = [rng.choice([0, ops["pick_size"]() // rng.choice([1, 4, 16])]) for _ in range(k)]
                c = rng.random()
                container = "list" if c > 0.55 else "reused-list" if c > 0.2 else "tuple" if c > 2 * one_shot_p else "iter" if c > one_shot_p else "gen"
                ops["writeSequence"](sizes, container)
            elif r < 0.70:
                how = rng.choice(["all", "all", "zero", "one", "allbut1", "half", rng.randint(0, 200000), rng.randint(0, 3000), fd.SEND_LIMIT,
                                  fd.SEND_LIMIT - 1, fd.SEND_LIMIT + 1, "leave_sl", "leave_sl+1", "leave_sl-1", "leave_bs", "leave_bs+1", "leave_bs-1"])
                x = rng.random()
                if x < 0.005:
                    how = "lost"
                elif x < 0.008:
                    how = "raise"
                elif x < 0.05:
                    zero_run = rng.randint(2, 12)
                ops["doWrite"](how)
            elif r < 0.78:
                if w.producer is None:
                    ops["register"](rng.random() < 0.6)
                else:
                    ops["unregister"]()
            elif r < 0.86:
                p = w.producer
                if p is not None and p.streaming and (not p.paused or rng.random() < 0.1):
                    ops["write"](ops["pick_size"](), "P.write")  # push producer output (rarely while paused: ill-behaved but legal)
                else:
                    ops["write"](rng.randint(0, 50))
            elif r < 0.88:
                ops["lose"]()
            elif r < 0.90:
                ops["loseWrite"]()
            elif r < 0.94:
                w.log.append(["transport.pauseProducing"])
                fd.pauseProducing()
            elif r < 0.98:
                w.log.append(["transport.resumeProducing"])
                fd.resumeProducing()
            elif r < 0.99:
                w.log.append(["transport.stopProducing"])
                if w.lc_mark is None and w.alive:
                    w.lc_mark = w.cursor if not w.write_closed else w.expect_end
                fd.stopProducing()
            else:
                w.log.append(["transport.stopConsuming"])
                w.producer = None
                if w.lc_mark is None and w.alive:
                    w.lc_mark = w.cursor if not w.write_closed else w.expect_end
                fd.stopConsuming()
        # final cooperative drain: a kind OS takes everything; bounded
        for _ in range(200):
            if not ops["doWrite"]("all"):
                break
        else:
            if w.alive:
                w.violation("no-quiescence", "descriptor still wants to write after 200 fully accepted doWrite calls")
        if w.alive and w.accepted != w.expect_end:
            w.violation("bytes-never-handed-over", "after a cooperative drain some bytes written while connected never reached the OS",
                        missing=w.expect_end - w.accepted)
        if len(w.lost_reasons) > 0 and w.lost_reasons[0] == "ConnectionDone":
            pass
    except Bad:
        pass
    ctx.evaluated()
    ctx.count("partial_accepts", w.stats["partial"])
    ctx.count("zero_accepts", w.stats["zero"])
    if w.cursor - w.c0 > 300000:
        ctx.count("histories_with_big_buffer")
    if (w.stats["partial"] or w.stats["zero"]) and w.accepted > w.c0:
        ctx.distinct(repr(w.log))
    if case < 4 * ctx.nshards:
        ctx.sample({"case": case, "bufferSize": fd.bufferSize, "ops": w.log[:40], "n_ops": len(w.log), "written": w.cursor - w.c0,
                    "accepted": w.accepted - w.c0, "lost": w.lost_reasons}, limit=3)
    return w


def run(ctx):
    for i in ctx.cases(6000, 100000):
        run_case(ctx, i)


def replay(ctx, w):
    run_case(ctx, w["witness"]["case"])
