"""C02 Deferred chaining depth never exhausts the stack.

Monitor: long chains of Deferreds whose callbacks return the next Deferred, and inlineCallbacks
generators / coroutines awaiting many already-fired Deferreds, are run under the DEFAULT recursion
limit (asserted == 1000 at start, else inconclusive).  A probe inside the user callbacks /
generator bodies counts its calls (every callback must run exactly once) and measures the Python
frame depth (walking f_back) in 1 of every 97 calls and in the last one.

Oracle: (1) no RecursionError - neither raised to the caller nor captured into a Failure by the
callback machinery (at the outer end, or - when the outer end got nothing - left as the result of a
middle link); (2) the result arriving at the outer end is the very object injected at the
far end; (3) max probe depth for length N exceeds the depth of the same shape at length 100 by at
most 5 frames (stack use must not grow with N); (4) the probe ran exactly the expected number of
times.

Chain links may be instances of Deferred subclasses (trivial, overriding pause/unpause/callback via
super(), DeferredList/gatherResults aggregates fired through their single source): the statement
says "each Deferred", not "each instance of exactly Deferred".

Paused links: the statement covers "a chain of any length in which each callback returns the next
Deferred" whatever the state of the returned Deferred; so links are also fired while paused and
unpaused in either direction (back to front: the returned link is already waiting on its successor;
front to back: the returned link holds its own plain result and is still paused).

Guards: chainDeferred chains are excluded (its docstring says it can exhaust the stack); user
callbacks never fire other Deferreds themselves (that recursion would be the user's); depth is
compared only between runs of the same shape, so constant per-shape overhead is irrelevant.
"""
import gc
import sys

LEVEL = "exploration"
ENGINE = "core"
TECHNIQUE = "runtime monitoring: frame-depth probe inside user callbacks, default recursion limit, depth(N) vs depth(100)"
RULE = ("scenario = (shape, firing order / variant, result kind, N): chain shapes {outer fired first then "
        "innermost last ('outer-first'), innermost first ('inner-first'), outermost then inner ones from the "
        "far end ('reverse'), every 7th or a random subset paused before firing / while waiting and unpaused "
        "afterwards back to front, ALL links / runs of 2..400 consecutive links / every 7th fired while paused "
        "(pause(); callback(x)) and then unpaused FRONT TO BACK, so that each callback returns a Deferred "
        "that has a plain result but is still paused ('-fwd'; also with subclass links)} x kinds "
        "{success, failure via errbacks, mixed via addBoth alternating}, one Deferred with N callbacks each "
        "returning a fired / later-fired Deferred, inlineCallbacks generators and ensureDeferred coroutines "
        "over N pre-fired Deferreds (success / failure caught), generator with an unfired Deferred every "
        "1000th yield (the rest resolve synchronously inside the resumption), nested inlineCallbacks; every chain shape again with all / every 3rd / a random half of the links "
        "being instances of a trivial Deferred subclass, of a subclass overriding pause/unpause/callback/"
        "errback via super(), or DeferredList/gatherResults aggregates over one source; generators and "
        "coroutines awaiting subclass instances; every chain shape (plain and each link kind) again with one "
        "more callback added to each link after the previous link fired, i.e. behind the hand-over to "
        "the waiting Deferred ('+late'); N in "
        "{1e3, 1e4} (+1e5 for three shapes) quick, 1e5 for all thorough.  A case is distinct by that tuple and "
        "is non-trivial when N >= 1000 (longer than the recursion limit could hide).")
ASSUMPTIONS = [
    "trusted base: CPython's own RecursionError check at the default limit 1000 and sys._getframe depth walking",
    "chainDeferred chains are excluded as documented",
    "depth is sampled in 1 of 97 probe calls and in the last call, not in every call",
]
SHARDS = {"quick": 4, "thorough": 16}
FLOORS = {"scenarios_completed": 100, "depth_comparisons": 100, "probe_calls": 500000, "depth_samples": 1000,
          "results_checked": 200, "subclass_link_scenarios": 80, "late_callback_scenarios": 40,
          "paused_fired_unpaused_forward_scenarios": 12}
READY = True

BASE_N = 100
SLACK = 5


class Probe:
    def __init__(self):
        self.calls = 0
        self.max = 0
        self.samples = 0
        self.links = ()

    def hit(self, force=False):
        self.calls += 1
        if force or self.calls % 97 == 0:
            f = sys._getframe(1)
            k = 0
            while f is not None:
                k += 1
                f = f.f_back
            self.samples += 1
            if k > self.max:
                self.max = k


class _E(Exception):
    pass


class _Val:
    pass


# ------------------------------------------------------------------------------------------------
# scenarios: each returns (observed final results list, expected object, expected probe calls)
# ------------------------------------------------------------------------------------------------
_CLS = {}


def _classes():
    """Deferred subclasses used as chain links (defined lazily: twisted is imported by run())."""
    if not _CLS:
        from twisted.internet.defer import Deferred

        class MyDeferred(Deferred):
            pass

        class OverridingDeferred(Deferred):
            def pause(self):
                return super().pause()

            def unpause(self):
                return super().unpause()

            def callback(self, result):
                return super().callback(result)

            def errback(self, fail=None):
                return super().errback(fail)

        _CLS.update(trivial=MyDeferred, overriding=OverridingDeferred)
    return _CLS


def make_links(n, kind, links, rng):
    """Returns (ds, fire) - ds[i] is link i, fire[i](is_error, value) gives it its own result.

    links = None | "<trivial|overriding|dlist>-<all|every3|rand>".  A "dlist" link is a DeferredList /
    gatherResults aggregate over one source Deferred (fired through the source); the last link is
    never an aggregate so that the injected object arrives unwrapped."""
    from twisted.internet.defer import Deferred, DeferredList, gatherResults

    ds, fire = [], []
    cls, pattern = links.split("-") if links else (None, None)

    def plain_fire(d):
        def f(is_err, v):
            if is_err:
                d.errback(v)
            else:
                d.callback(v)
        return f

    for i in range(n):
        special = cls is not None and (pattern == "all" or (pattern == "every3" and i % 3 == 1)
                                       or (pattern == "rand" and rng.random() < 0.5))
        if not special or (cls == "dlist" and i == n - 1):
            d = Deferred()
            ds.append(d)
            fire.append(plain_fire(d))
        elif cls == "dlist":
            src = Deferred()
            if kind == "s" and i % 2 == 0:
                d = DeferredList([src])
            else:
                d = gatherResults([src], consumeErrors=True)
            ds.append(d)
            fire.append(plain_fire(src))
        else:
            d = _classes()[cls]()
            ds.append(d)
            fire.append(plain_fire(d))
    return ds, fire


def chain(n, order, kind, probe, paused=None, pause_after=False, links=None, rng=None, unpause_fwd=False):
    """d_i's callback (errback for failures) returns d_{i+1}; a probe callback follows it.

    unpause_fwd: the paused links are unpaused front to back instead of back to front, so a link that
    runs its callback gets a next link that HAS its own plain result but is still paused."""
    late = order.endswith("+late")
    order = order[:-5] if late else order
    ds, firefn = make_links(n, kind, links, rng)
    probe.links = ds  # only used to NAME the mechanism when the outer end got nothing (see run_scenario)
    out = []
    late_added = [False] * n
    final = _E("final") if kind != "s" else _Val()

    def mk(nxt):
        def ret(_):
            return nxt
        return ret

    def pb(r):
        probe.hit()
        return r

    def pb_last(r):
        probe.hit(True)
        return r

    def pb_late(r):
        probe.hit()
        return r

    for i, d in enumerate(ds):
        if i + 1 < n:
            if kind == "s":
                d.addCallback(mk(ds[i + 1]))
            elif kind == "f":
                d.addErrback(mk(ds[i + 1]))
            else:
                d.addBoth(mk(ds[i + 1]))
        d.addBoth(pb_last if i == 0 else pb)
    ds[0].addBoth(out.append)

    def fire(i):
        if i == n - 1:
            firefn[i](kind != "s", final)
        elif kind == "s" or (kind == "m" and i % 2 == 0):
            firefn[i](False, i)
        else:
            firefn[i](True, _E(i))

    if paused and not pause_after:
        # paused before firing: d_i has a result but has not run its callback yet
        for i in paused:
            ds[i].pause()
    if order == "outer-first":
        seq = range(n)
    elif order == "inner-first":
        seq = range(n - 1, -1, -1)
    else:  # reverse: outermost, then from the far end back to d_1
        seq = [0] + list(range(n - 1, 0, -1))
    for i in seq:
        if pause_after and i == n - 1:
            # paused while already waiting: the result will be handed to a paused Deferred
            for j in paused:
                ds[j].pause()
        fire(i)
        if late and i + 1 < n and not late_added[i + 1]:
            # one more callback on the next link, added AFTER link i fired (in outer-first order: after
            # link i started waiting on it, i.e. behind the hand-over in that link's callback list)
            late_added[i + 1] = True
            ds[i + 1].addBoth(pb_late)
    if paused:
        for i in sorted(paused, reverse=not unpause_fwd):
            ds[i].unpause()
    return out, final, n + sum(late_added)


def one_deferred_many_returns(n, variant, kind, probe, links=None):
    """One Deferred, N callbacks each returning another Deferred (fired, or fired later by the driver)."""
    from twisted.internet.defer import Deferred, fail, succeed

    if links:
        Deferred = _classes()[links.split("-")[0]]  # noqa: F811 - the waiting and the returned Deferreds
    d = Deferred()
    out = []
    pending = []
    final = _Val() if kind == "s" else _E("final")

    def mk(i):
        def ret(r):
            probe.hit(i == n - 1)
            last = i == n - 1
            if variant == "fired":
                if kind == "s":
                    return succeed(final if last else i)
                return fail(final if last else _E(i))
            x = Deferred()
            pending.append((x, last))
            return x
        return ret

    for i in range(n):
        d.addBoth(mk(i))
    d.addBoth(out.append)
    d.callback(None)
    guard = 0
    while pending and guard <= n:
        guard += 1
        x, last = pending.pop()
        if kind == "s":
            x.callback(final if last else guard)
        else:
            x.errback(final if last else _E(guard))
    return out, final, n


def gen_prefired(n, variant, kind, probe, links=None):
    from twisted.internet.defer import Deferred, ensureDeferred, fail, inlineCallbacks, succeed

    if links:
        # the awaited Deferreds are instances of a Deferred subclass
        Deferred = _classes()[links.split("-")[0]]  # noqa: F811

        def succeed(v):  # noqa: F811
            x = Deferred()
            x.callback(v)
            return x

        def fail(e):  # noqa: F811
            x = Deferred()
            x.errback(e)
            return x

    final = _Val()
    out = []
    pending = []

    def nxt(i):
        if variant == "mixed1000" and i % 1000 == 0:
            x = Deferred()
            pending.append(x)
            return x
        return succeed(i) if kind == "s" else fail(_E(i))

    if variant == "coroutine":
        async def co():
            t = 0
            for i in range(n):
                try:
                    t += await nxt(i)
                except _E:
                    t += 1
                probe.hit(i == n - 1)
            return (final, t)

        d = ensureDeferred(co())
    elif variant == "nested":
        @inlineCallbacks
        def inner(i):
            try:
                x = yield nxt(i)
            finally:
                probe.hit(i == n - 1)
            return x

        @inlineCallbacks
        def outer():
            t = 0
            for i in range(n):
                try:
                    t += yield inner(i)
                except _E:
                    t += 1
            return (final, t)

        d = outer()
    else:
        @inlineCallbacks
        def g():
            t = 0
            for i in range(n):
                try:
                    t += yield nxt(i)
                except _E:
                    t += 1
                probe.hit(i == n - 1)
            return (final, t)

        d = g()
    guard = 0
    while pending and guard <= n:
        guard += 1
        x = pending.pop()
        if kind == "s":
            x.callback(guard * 1000 - 1000)
        else:
            x.errback(_E(guard))
    d.addBoth(out.append)
    want_t = n * (n - 1) // 2 if kind == "s" else n
    return out, (final, want_t), n


def scenarios(ctx):
    q = ctx.quick
    sizes = (1000, 10000) if q else (1000, 10000, 100000)
    out = []
    for order in ("outer-first", "inner-first", "reverse"):
        for kind in ("s", "f", "m"):
            for n in sizes:
                out.append(("chain", order, kind, n, None))
    out.append(("chain", "outer-first", "s", 100000, None))
    for kind in ("s", "f"):
        for when in ("before", "after"):
            for n in sizes:
                out.append(("chain", "outer-first", kind, n, "every7-" + when))
            for seed in range(1 if q else 3):
                out.append(("chain", "outer-first", kind, sizes[-1], "rand%d-%s" % (seed, when)))
    for variant in ("fired", "later"):
        for kind in ("s", "f"):
            for n in sizes:
                out.append(("onedef", variant, kind, n, None))
    for variant in ("generator", "coroutine", "mixed1000", "nested"):
        for kind in ("s", "f"):
            for n in sizes:
                out.append(("gen", variant, kind, n, None))
    out.append(("gen", "generator", "s", 100000, None))
    out.append(("chain", "outer-first", "s", 100000, "every7-after"))
    # every link (or runs of consecutive links) fired while paused (pause(); callback(x)), then unpaused
    # FRONT TO BACK: each link's callback returns a next link that has a plain result but is still paused
    for kind in ("s", "f", "m"):
        for n in sizes:
            out.append(("chain", "outer-first", kind, n, "all-before-fwd"))
        out.append(("chain", "inner-first", kind, sizes[0], "all-before-fwd"))
        out.append(("chain", "outer-first", kind, sizes[-1], "runs0-before-fwd"))
        out.append(("chain", "outer-first", kind, sizes[0], "every7-before-fwd"))
    out = [s + (None,) for s in out]
    for kind in ("s", "f"):
        for cls in ("trivial", "overriding", "dlist"):
            out.append(("chain", "outer-first", kind, 2000 if q else 10000, "all-before-fwd", cls + "-all"))
    # Deferred-subclass links: every chain shape x {trivial, overriding, DeferredList/gatherResults} x
    # {all, every 3rd, random half}
    big = 10000 if q else 100000
    small = 2000 if q else 10000
    shapes = [(order, kind, None) for order in ("outer-first", "inner-first", "reverse") for kind in ("s", "f", "m")]
    shapes += [("outer-first", kind, "every7-" + when) for kind in ("s", "f") for when in ("before", "after")]
    for order, kind, pausespec in shapes:
        for cls in ("trivial", "overriding", "dlist"):
            for pattern in ("all", "every3", "rand"):
                out.append(("chain", order, kind, (big // 2 if q else big) if pattern == "all" else small, pausespec, cls + "-" + pattern))
    # late-added callbacks: every link gets one more callback after the previous link fired, for plain
    # links and for every link kind
    for order, kind, pausespec in shapes:
        out.append(("chain", order + "+late", kind, big if order == "outer-first" and not pausespec else small, pausespec, None))
        for cls in ("trivial", "overriding", "dlist"):
            out.append(("chain", order + "+late", kind, small, pausespec, cls + "-all"))
    for cls in ("trivial", "overriding"):
        for variant in ("fired", "later"):
            out.append(("onedef", variant, "s", small, None, cls + "-all"))
        for variant in ("generator", "coroutine", "mixed1000", "nested"):
            for kind in ("s", "f"):
                out.append(("gen", variant, kind, small, None, cls + "-all"))
    seen, uniq = set(), []
    for s in out:
        if s not in seen:
            seen.add(s)
            uniq.append(s)
    return uniq


def execute(ctx, sc, n):
    shape, variant, kind, _, pausespec, links = sc
    probe = Probe()
    if shape == "chain":
        paused = None
        fwd = bool(pausespec) and pausespec.endswith("-fwd")
        when = pausespec[:-4] if fwd else pausespec
        if pausespec and pausespec.startswith("every7"):
            paused = list(range(3, n - 1, 7))
        elif pausespec and pausespec.startswith("all"):
            paused = list(range(n))
        elif pausespec and pausespec.startswith("runs"):
            # runs of consecutive paused links (lengths 2..400) separated by unpaused stretches
            rng = ctx.case_rng("pause", pausespec, n)
            paused, i = [], rng.randrange(1, 20)
            while i < n:
                run = rng.choice((2, 5, 40, 400))
                paused.extend(range(i, min(n, i + run)))
                i += run + rng.randrange(1, 50)
        elif pausespec:
            rng = ctx.case_rng("pause", pausespec, n)
            paused = sorted(rng.sample(range(1, n - 1), max(1, n // rng.choice((3, 10, 50)))))
        res = chain(n, variant, kind, probe, paused, bool(pausespec) and when.endswith("after"),
                    links, ctx.case_rng("links", links, n), unpause_fwd=fwd)
    elif shape == "onedef":
        res = one_deferred_many_returns(n, variant, kind, probe, links)
    else:
        res = gen_prefired(n, variant, kind, probe, links)
    return probe, res


def _recursion_in(x):
    from twisted.python.failure import Failure

    return isinstance(x, Failure) and x.check(RecursionError) is not None


def run_scenario(ctx, sc):
    """Run sc at BASE_N and at its N; report."""
    n = sc[3]
    depths = {}
    for size in (BASE_N, n):
        w = {"scenario": list(sc), "length": size}
        try:
            probe, (out, want, calls) = execute(ctx, sc, size)
        except RecursionError as e:
            ctx.violation("recursion-error", "RecursionError raised to the caller while firing a chain", dict(w, error=repr(e)[:200]))
            return
        ctx.evaluated()
        ctx.count("probe_calls", probe.calls)
        ctx.count("depth_samples", probe.samples)
        ctx.count("deferred_links", size)
        depths[size] = probe.max
        if len(out) == 1 and (_recursion_in(out[0])):
            ctx.violation("recursion-error", "RecursionError captured into the chain's result", dict(w, result=repr(out[0])[:300], max_depth=probe.max))
            return
        ctx.count("results_checked")
        if not out:
            # the outer end got nothing: was the result lost because a RecursionError was captured into a
            # Failure that is stuck on some middle link?  (classification only; the verdict is `out`)
            stuck = [i for i, d in enumerate(getattr(probe, "links", ()))
                     if _recursion_in(getattr(d, "result", None))]
            if stuck:
                ctx.violation("recursion-error", "RecursionError captured into a Failure on a middle link of the chain; "
                              "the outer end never got the result",
                              dict(w, links_holding_recursion_error=stuck[:5], max_depth=probe.max,
                                   probe_calls=probe.calls, expected_calls=calls))
                return
        ok = len(out) == 1
        if ok:
            got = out[0]
            if isinstance(want, tuple):
                ok = isinstance(got, tuple) and got[0] is want[0] and got[1] == want[1]
            elif isinstance(want, _E):
                ok = getattr(got, "value", None) is want
            else:
                ok = got is want
        if not ok:
            ctx.violation("wrong-final-result", "the result injected at the far end did not arrive (exactly once) at the outer end",
                          dict(w, results=[repr(x)[:200] for x in out], expected=repr(want)[:100]))
            return
        if probe.calls != calls:
            ctx.violation("callback-count", "user callbacks did not run exactly once each", dict(w, probe_calls=probe.calls, expected=calls))
            return
        del out, probe
        gc.collect()
    ctx.count("depth_comparisons")
    ctx.count("scenarios_completed")
    ctx.maxi("probe_depth", depths[n])
    ctx.maxi("depth_growth", depths[n] - depths[BASE_N])
    if n >= 1000:
        ctx.distinct(sc)
    ctx.seen("shapes", "%s/%s/%s%s%s" % (sc[0], sc[1], sc[2], "/" + sc[4] if sc[4] else "", "/" + sc[5] if sc[5] else ""))
    if sc[5]:
        ctx.count("subclass_link_scenarios")
    if sc[1].endswith("+late"):
        ctx.count("late_callback_scenarios")
    if sc[4] and sc[4].endswith("-fwd"):
        ctx.count("paused_fired_unpaused_forward_scenarios")
    ctx.sample({"scenario": list(sc), "depth_at_100": depths[BASE_N], "depth_at_N": depths[n]}, limit=6)
    if depths[n] - depths[BASE_N] > SLACK:
        ctx.violation("stack-grows-with-length", "frame depth inside user callbacks grows with the chain length",
                      {"scenario": list(sc), "depth_at_100": depths[BASE_N], "depth_at_N": depths[n], "allowed_growth": SLACK})


def run(ctx):
    if sys.getrecursionlimit() != 1000:
        ctx.inconclusive("recursion limit is %d, not the default 1000" % sys.getrecursionlimit())
        return
    from twisted.internet import defer

    if defer.Deferred.debug:
        ctx.inconclusive("Deferred.debug is on; the check expects the default (off)")
        return
    scs = scenarios(ctx)
    # big scenarios first inside each shard would not matter; interleave by index for balance
    scs.sort(key=lambda s: (-s[3], s[:3], s[4] or "", s[5] or ""))
    for k, sc in enumerate(scs):
        if ctx.owns(k):
            run_scenario(ctx, sc)
    if sys.getrecursionlimit() != 1000:
        ctx.inconclusive("recursion limit changed during the run")
    ctx.exhaustive = False


def replay(ctx, w):
    x = w["witness"]["scenario"]
    run_scenario(ctx, (x[0], x[1], x[2], x[3], x[4], x[5] if len(x) > 5 else None))
