"""C07 DeferredQueue delivers each object once, in order, within its bounds.

Monitor: every value delivered to a get() Deferred (recorded by a callback at the API boundary,
values are unique ids so a delivery identifies its put), every QueueOverflow/QueueUnderflow raised
by put()/get(), every CancelledError seen by a cancelled get.

Oracle: a bounded reference FIFO (two Python lists: queued values, pending get ids) run on the same
history; after EVERY step the complete event sequence of the real queue (deliveries with their get
id and value, refusals, cancellations, in order) must equal the model's.  That decides: each put
delivered exactly once, in put order, to the oldest uncancelled pending get or else to a later get;
overflow iff no get pending and len(queued) >= size; underflow iff nothing queued and
len(pending gets) >= backlog; cancelled gets never receive a value.

Guards: only *pending* gets are cancelled (the statement's domain); re-entrant get()/put() issued
from inside a get callback are part of the history (the model performs them at the same point:
after the value was handed over); an exception raised by such a nested call is recorded as an
event, not propagated.  `q.pending`/`q.waiting` lengths are read only for the pruning hash.
"""
from vf.engines import explore

LEVEL = "exploration"
ENGINE = "E1-explore"
TECHNIQUE = "runtime monitoring: reference bounded FIFO compared event-by-event after every step"
RULE = ("E1: all histories over {put(unique id), get(plain | callback re-enters get | callback "
        "re-enters put), cancel(pending get i)} to depth 10 (quick) / 12 (thorough) for each of the 16 "
        "(size, backlog) pairs in {None,0,1,2}^2, pruned by hashing (model state, real queue lengths); "
        "plus random histories of 2000 (quick) / 5000 (thorough) steps, and biased fill/churn/flood/drain histories of "
        "1500 steps with size/backlog limits in {None,6,7,10,20,30} (up to 40 waiting gets / queued values).  A case is one history (config, "
        "action list); non-trivial = at least two actions.")
ASSUMPTIONS = ["trusted base: the 30-line reference FIFO in this module",
               "unbounded configurations are explored with at most 4 queued values / 4 pending gets at a time "
               "(histories that would grow beyond that are cut; bounded configurations are not capped)"]
SHARDS = {"quick": 4, "thorough": 16}
FLOORS = {"step_comparisons": 2000, "deliveries": 500, "overflows": 50, "underflows": 50, "cancelled_gets": 50,
          "reentrant_gets": 20, "reentrant_puts": 20, "configs_explored": 1,
          "steps_with_more_than_5_waiting_or_queued": 5000, "deliveries_out_of_a_backlog_longer_than_5": 500,
          "cancellations_deep_in_a_long_backlog": 300, "overflows_at_a_size_limit_above_5": 100,
          "underflows_at_a_backlog_limit_above_5": 100}
READY = True

LIMITS = (None, 0, 1, 2)
CONFIGS = [(s, b) for s in LIMITS for b in LIMITS]
CAP = 4


class World:
    def __init__(self, ctx, size, backlog, cap=CAP):
        from twisted.internet import defer

        self.defer = defer
        self.ctx = ctx
        self.size, self.backlog, self.cap = size, backlog, cap
        self.q = defer.DeferredQueue(size, backlog)
        # model
        self.m_queued = []
        self.m_waiting = []  # get ids
        self.m_kind = {}
        self.m_ids = [0, 0]  # next put id, next get id
        self.mlog = []
        # real
        self.r_ids = [0, 0]
        self.gets = {}  # gid -> Deferred (pending ones)
        self.log = []
        self.ptr = 0
        self.dead = False
        self.hist = []

    # ---- reference model ------------------------------------------------------------------
    def m_put(self):
        v = self.m_ids[0]
        self.m_ids[0] += 1
        if self.m_waiting:
            self.m_deliver(self.m_waiting.pop(0), v)
        elif self.size is None or len(self.m_queued) < self.size:
            self.m_queued.append(v)
        else:
            self.mlog.append(("overflow", v))

    def m_get(self, kind):
        g = self.m_ids[1]
        self.m_ids[1] += 1
        self.m_kind[g] = kind
        if self.m_queued:
            self.m_deliver(g, self.m_queued.pop(0))
        elif self.backlog is None or len(self.m_waiting) < self.backlog:
            self.m_waiting.append(g)
        else:
            self.mlog.append(("underflow", g))

    def m_deliver(self, g, v):
        self.mlog.append(("deliver", g, v))
        k = self.m_kind[g]
        if k == "reget":
            self.m_get("plain")
        elif k == "reput":
            self.m_put()

    def m_cancel(self, g):
        self.m_waiting.remove(g)
        self.mlog.append(("cancelled", g))

    # ---- real queue -------------------------------------------------------------------------
    def r_put(self):
        v = self.r_ids[0]
        self.r_ids[0] += 1
        try:
            self.q.put(v)
        except self.defer.QueueOverflow:
            self.log.append(("overflow", v))
        except Exception as e:  # noqa
            self.log.append(("error", "put", type(e).__name__, str(e)[:80]))

    def r_get(self, kind):
        g = self.r_ids[1]
        self.r_ids[1] += 1
        try:
            d = self.q.get()
        except self.defer.QueueUnderflow:
            self.log.append(("underflow", g))
            return
        except Exception as e:  # noqa
            self.log.append(("error", "get", type(e).__name__, str(e)[:80]))
            return
        self.gets[g] = d

        def got(v):
            self.gets.pop(g, None)
            self.log.append(("deliver", g, v))
            if kind == "reget":
                self.ctx.count("reentrant_gets")
                self.r_get("plain")
            elif kind == "reput":
                self.ctx.count("reentrant_puts")
                self.r_put()

        def failed(f):
            self.gets.pop(g, None)
            if f.check(self.defer.CancelledError):
                self.log.append(("cancelled", g))
            else:
                self.log.append(("error", "get-failed", f.type.__name__, f.getErrorMessage()[:80]))

        d.addCallbacks(got, failed)

    def r_cancel(self, g):
        d = self.gets.get(g)
        if d is None:
            self.log.append(("error", "cancel", "get %d is not pending on the real queue" % g))
            return
        try:
            d.cancel()
        except Exception as e:  # noqa
            self.log.append(("error", "cancel", type(e).__name__, str(e)[:80]))

    # ---- E1 interface -------------------------------------------------------------------------
    def actions(self):
        if self.dead:
            return []
        acts = []
        if self.size is not None or len(self.m_queued) < self.cap:
            acts.append(("put",))
        if self.backlog is not None or len(self.m_waiting) < self.cap:
            acts += [("get", "plain"), ("get", "reget"), ("get", "reput")]
        acts += [("cancel", g) for g in self.m_waiting]
        return acts

    def apply(self, a):
        if self.dead:
            return
        a = tuple(a)
        self.hist.append(a)
        ctx = self.ctx
        if len(self.m_waiting) > 5 or len(self.m_queued) > 5:
            ctx.count("steps_with_more_than_5_waiting_or_queued")
            ctx.maxi("waiting_gets", len(self.m_waiting))
            ctx.maxi("queued_values", len(self.m_queued))
            if a[0] == "cancel" and a[1] in self.m_waiting[3:]:
                ctx.count("cancellations_deep_in_a_long_backlog")
            if a[0] == "put" and len(self.m_waiting) > 5:
                ctx.count("deliveries_out_of_a_backlog_longer_than_5")
            if a[0] == "put" and self.size is not None and self.size > 5 and len(self.m_queued) >= self.size:
                ctx.count("overflows_at_a_size_limit_above_5")
            if a[0] == "get" and self.backlog is not None and self.backlog > 5 and len(self.m_waiting) >= self.backlog and not self.m_queued:
                ctx.count("underflows_at_a_backlog_limit_above_5")
        if a[0] == "put":
            self.m_put()
            self.r_put()
        elif a[0] == "get":
            self.m_get(a[1])
            self.r_get(a[1])
        else:
            self.m_cancel(a[1])
            self.r_cancel(a[1])
        self.compare()

    def compare(self):
        ctx = self.ctx
        ctx.count("step_comparisons")
        new_m, new_r = self.mlog[self.ptr:], self.log[self.ptr:]
        if new_m == new_r:
            for e in new_r:
                ctx.count({"deliver": "deliveries", "overflow": "overflows", "underflow": "underflows",
                           "cancelled": "cancelled_gets"}[e[0]])
            self.ptr = len(self.log)
            return
        self.dead = True
        i = 0
        while i < len(new_m) and i < len(new_r) and new_m[i] == new_r[i]:
            i += 1
        exp = new_m[i] if i < len(new_m) else None
        got = new_r[i] if i < len(new_r) else None
        ctx.violation(classify(exp, got, self.mlog, self.log), "DeferredQueue events differ from the reference FIFO",
                      {"size": self.size, "backlog": self.backlog, "history": list(self.hist),
                       "expected_events": list(self.mlog), "observed_events": list(self.log),
                       "first_difference": {"expected": exp, "observed": got}})

    def state(self):
        return (len(self.m_queued), tuple(self.m_kind[g] for g in self.m_waiting),
                len(self.q.pending), len(self.q.waiting), self.dead)

    def finish(self):
        # exactly-once / order, restated directly on the real log (independent of the model's log)
        seen = [e[2] for e in self.log if e[0] == "deliver"]
        if seen != sorted(set(seen)):
            if not self.dead:
                self.dead = True
                self.ctx.violation("delivery-duplicated-or-out-of-put-order", "values were delivered twice or out of put order",
                                   {"size": self.size, "backlog": self.backlog, "history": list(self.hist), "delivered": seen})


def classify(exp, got, mlog, log):
    """Mechanism key from the first differing event (expected by the model / observed)."""
    e0, g0 = (exp or ("nothing",))[0], (got or ("nothing",))[0]
    if g0 == "error":
        return "unexpected-exception"
    if e0 == "overflow" and g0 != "overflow":
        return "overflow-not-raised-at-size-limit"
    if g0 == "overflow":
        return "overflow-raised-below-size-limit-or-with-get-pending"
    if e0 == "underflow" and g0 != "underflow":
        return "underflow-not-raised-at-backlog-limit"
    if g0 == "underflow":
        return "underflow-raised-below-backlog-limit-or-with-values-queued"
    if e0 == "deliver" and g0 == "deliver":
        cancelled = {e[1] for e in log if e[0] == "cancelled"}
        if got[1] in cancelled:
            return "cancelled-get-received-value"
        if exp[2] == got[2] and exp[1] != got[1]:
            return "value-delivered-to-wrong-get"
        if exp[1] == got[1]:
            return "values-delivered-out-of-put-order"
        return "delivery-mismatch"
    if e0 == "deliver":
        return "value-not-delivered"
    if g0 == "deliver":
        cancelled = {e[1] for e in mlog if e[0] == "cancelled"}
        return "cancelled-get-received-value" if got[1] in cancelled else "spurious-delivery"
    if e0 == "cancelled" or g0 == "cancelled":
        return "cancellation-outcome-mismatch"
    return "trace-mismatch"


def run(ctx):
    depth = 10 if ctx.quick else 12
    for ci, (size, backlog) in enumerate(CONFIGS):
        def mk(size=size, backlog=backlog):
            return World(ctx, size, backlog)

        def on_node(w, history, ci=ci):
            ctx.evaluated()
            if len(history) >= 2:
                ctx.distinct((ci, tuple(history)))
            if len(history) == depth and ctx.owns(len(w.log)) and w.log:
                ctx.sample({"size": w.size, "backlog": w.backlog, "history": list(w.hist), "events": list(w.log)}, limit=3)

        explore.dfs(ctx, mk, depth, shard_depth=2, on_node=on_node)
        ctx.count("configs_explored")
        ctx.seen("configs", "size=%s backlog=%s" % (size, backlog))
    # random long histories
    steps = 2000 if ctx.quick else 5000
    for i in ctx.cases(160, 3200):
        size, backlog = CONFIGS[i % len(CONFIGS)]

        def on_end(w, hist, i=i):
            ctx.distinct(("walk", w.size, w.backlog, tuple(hist)))
            ctx.count("walk_steps", len(hist))
            ctx.maxi("walk_deliveries", sum(1 for e in w.log if e[0] == "deliver"))

        explore.random_walks(ctx, lambda: World(ctx, size, backlog, cap=6 + i % 5), [i], steps, rng_key="walk", on_end=on_end)
    # long queues / backlogs: limits in 6..30 (or None with a cap of 40), biased phases that fill the backlog with gets,
    # churn (cancellations anywhere in the backlog), flood with puts up to and beyond the size limit, and drain
    for i in ctx.cases(48, 1600):
        rng = ctx.case_rng("longq", i)
        size = rng.choice((None, 6, 7, 10, 20, 30))
        backlog = rng.choice((None, 6, 7, 10, 20, 30))
        w = World(ctx, size, backlog, cap=40)
        for step in range(1500):
            acts = w.actions()
            if not acts:
                break
            phase = (step // 120) % 4           # gets / churn / puts / mixed
            want = (("get",), ("cancel", "get", "put"), ("put",), ("get", "put", "cancel"))[phase]
            pool = [a for a in acts if a[0] in want]
            if not pool or rng.random() < 0.15:
                pool = acts
            w.apply(rng.choice(pool))
        w.finish()
        ctx.evaluated()
        ctx.distinct(("longq", size, backlog, tuple(w.hist)))
        ctx.count("long_queue_walk_steps", len(w.hist))


def replay(ctx, w):
    x = w["witness"]
    world = World(ctx, x["size"], x["backlog"], cap=10 ** 9)
    for a in x["history"]:
        world.apply(tuple(a))
    world.finish()
