"""C54 scenario server — runs in a subprocess started by vf/props/c54.py (never imported by it).

    python c54_server.py '<json config>'

Installs the requested reactor, a permanent ``sys.addaudithook`` recorder (gated by a flag that is
only set while the reactor serves), a failure-collecting log observer, and an ``FTPFactory`` on
127.0.0.1:0 whose realm hands ``FTPShell(rw_root)`` to the password user and
``FTPAnonymousShell(anon_root)`` to anonymous.  Prints ``PORT <n>`` on stdout.  Every control
channel line is appended to the same ordered log as the filesystem events, so the parent can
attribute an event to the command being processed.  The line ``XSTOP <token>`` disarms the hook,
writes the log (JSON) to cfg["out"] and stops the reactor.
"""
import json
import os
import sys

# audit event -> indexes of its arguments that are paths (shutil.* handled generically)
PATH_ARGS = {
    "open": (0,), "os.listdir": (0,), "os.scandir": (0,), "os.mkdir": (0,), "os.rmdir": (0,),
    "os.remove": (0,), "os.rename": (0, 1), "os.chmod": (0,), "os.chown": (0,),
    "os.truncate": (0,), "os.utime": (0,), "os.link": (0, 1), "os.symlink": (0, 1),
    "os.walk": (0,), "os.fwalk": (0,), "os.chdir": (0,), "os.mkfifo": (0,), "os.mknod": (0,),
    "os.setxattr": (0,), "os.removexattr": (0,), "os.getxattr": (0,), "os.listxattr": (0,),
    "glob.glob": (0,), "glob.glob/2": (0,), "pathlib.Path.glob": (0,), "pathlib.Path.rglob": (0,),
    "tempfile.mkstemp": (0,), "tempfile.mkdtemp": (0,),
}

LOG = []  # ["L", line] | ["E", event, [abs paths], [raw args]] | ["F", type, text]
ARMED = [False]


def _hook(event, args):
    if not ARMED[0]:
        return
    idx = PATH_ARGS.get(event)
    if idx is None:
        if not event.startswith("shutil."):
            return
        idx = (0, 1)
    try:
        paths, raw = [], []
        for i in idx:
            if i >= len(args):
                continue
            a = args[i]
            if hasattr(a, "__fspath__"):
                a = a.__fspath__()
            if isinstance(a, bytes):
                a = a.decode("utf-8", "surrogateescape")
            if not isinstance(a, str):
                continue  # file descriptors
            raw.append(a)
            try:
                paths.append(os.path.abspath(a))  # lexical: resolves '..', never follows links
            except Exception:
                paths.append(a)
        if raw:
            LOG.append(["E", event, paths, raw])
    except Exception as e:  # the recorder must never disturb the server
        LOG.append(["E", "hook-error", [], [repr(e)]])


def main():
    cfg = json.loads(sys.argv[1])
    sys.addaudithook(_hook)
    rname = cfg["reactor"]
    if rname == "select":
        from twisted.internet import selectreactor as m
    elif rname == "poll":
        from twisted.internet import pollreactor as m
    elif rname == "epoll":
        from twisted.internet import epollreactor as m
    elif rname == "asyncio":
        from twisted.internet import asyncioreactor as m
    else:
        raise SystemExit("unknown reactor " + rname)
    m.install()
    from twisted.internet import reactor
    from twisted.cred import checkers, portal
    from twisted.logger import globalLogPublisher
    from twisted.protocols import ftp
    from twisted.python import filepath
    import zope.interface

    def observer(ev):
        f = ev.get("log_failure") or ev.get("failure")  # new-style / legacy log.err
        if f is not None:
            try:
                tb = f.getBriefTraceback()[-600:]
            except Exception:
                tb = ""
            LOG.append(["F", f.type.__module__ + "." + f.type.__name__, repr(f.value)[:300], tb])
        elif ev.get("isError"):
            LOG.append(["F", "<no failure>", repr(ev.get("message") or ev.get("log_format"))[:300], ""])

    globalLogPublisher.addObserver(observer)

    @zope.interface.implementer(portal.IRealm)
    class Realm:
        def requestAvatar(self, avatarId, mind, *interfaces):
            if avatarId is checkers.ANONYMOUS:
                avatar = ftp.FTPAnonymousShell(filepath.FilePath(cfg["anon_root"]))
            else:
                avatar = ftp.FTPShell(filepath.FilePath(cfg["rw_root"]))
            return ftp.IFTPShell, avatar, lambda: None

    db = checkers.InMemoryUsernamePasswordDatabaseDontUse()
    db.addUser(cfg["user"], cfg["password"])
    p = portal.Portal(Realm(), [db, checkers.AllowAnonymousAccess()])
    stop = ("XSTOP " + cfg["token"]).encode("ascii")

    class RecordedFTP(ftp.FTP):
        def lineReceived(self, line):
            if line == stop:
                ARMED[0] = False
                with open(cfg["out"], "w") as f:
                    json.dump({"reactor": type(reactor).__name__, "log": LOG}, f)
                self.transport.write(b"299 stopped\r\n")
                self.transport.loseConnection()
                reactor.callLater(0, reactor.stop)
                return
            LOG.append(["L", line.decode("latin-1")])
            return ftp.FTP.lineReceived(self, line)

    factory = ftp.FTPFactory(p)
    factory.protocol = RecordedFTP
    factory.timeOut = 120
    port = reactor.listenTCP(0, factory, interface="127.0.0.1")
    os.chdir(cfg["cwd"])  # relative paths escaping to the process cwd land inside the scratch area
    sys.stdout.write("PORT %d\n" % port.getHost().port)
    sys.stdout.flush()
    reactor.callLater(cfg.get("lifetime", 600), reactor.stop)  # orphan guard, not a verdict
    ARMED[0] = True
    reactor.run()
    ARMED[0] = False


if __name__ == "__main__":
    main()
