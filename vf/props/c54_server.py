"""C54 scenario server — runs in a subprocess started by vf/props/c54.py (never imported by it).

    python -B c54_server.py '<json config>'

Installs the requested reactor, an ``FTPFactory`` on 127.0.0.1:0 whose realm hands
``FTPShell(rw_root)`` to the password user and ``FTPAnonymousShell(anon_root)`` to anonymous, a
failure-collecting log observer and a permanent ``sys.addaudithook`` that is both

* RECORDER: every filesystem audit event with its path arguments (absolute, lexical) goes into
  one ordered log together with the control-channel lines received, so the parent can attribute
  an event to the command being processed; and
* GUARD (containment — this script is run against deliberately broken twisted trees, as root):
  audit hooks run *before* the operation, so for every mutating event (remove, rename, mkdir,
  rmdir, chmod, chown, truncate, utime, link, symlink, mkfifo, mknod, xattr, shutil.*, open with
  any write/create/append/truncate flag) with a path that is not the scratch top or inside it the
  hook records the event as blocked and raises PermissionError: the operation is NOT performed.
  Any chdir is refused (relative paths stay anchored inside the scratch top), and process
  creation (os.system/exec/spawn/fork, subprocess.Popen) is refused.

Second containment layer: when started as root the process drops to uid/gid 65534 (after binding
the port and importing everything, before serving anything) and exits with code 77 if that does
not work; it never serves as root.  Prints ``PORT <n>`` on stdout once armed.  The line
``XSTOP <token>`` disarms the hook, writes the log (JSON) to cfg["out"] and stops the reactor.
"""
import json
import os
import sys

UNPRIV = 65534
EXIT_CANNOT_DROP = 77

# audit event -> indexes of its arguments that are paths (shutil.* handled generically)
PATH_ARGS = {
    "open": (0,), "os.listdir": (0,), "os.scandir": (0,), "os.mkdir": (0,), "os.rmdir": (0,),
    "os.remove": (0,), "os.rename": (0, 1), "os.chmod": (0,), "os.chown": (0,),
    "os.truncate": (0,), "os.utime": (0,), "os.link": (0, 1), "os.symlink": (0, 1),
    "os.walk": (0,), "os.fwalk": (0,), "os.chdir": (0,), "os.mkfifo": (0,), "os.mknod": (0,),
    "os.setxattr": (0,), "os.removexattr": (0,), "os.getxattr": (0,), "os.listxattr": (0,),
    "os.chflags": (0,), "os.lchown": (0,), "os.lchmod": (0,),
    "glob.glob": (0,), "glob.glob/2": (0,), "pathlib.Path.glob": (0,), "pathlib.Path.rglob": (0,),
    "tempfile.mkstemp": (0,), "tempfile.mkdtemp": (0,),
}
# path argument index -> index of the dir_fd argument it is relative to
DIR_FD = {"os.mkdir": {0: 2}, "os.rmdir": {0: 1}, "os.remove": {0: 1}, "os.rename": {0: 2, 1: 3},
          "os.chmod": {0: 2}, "os.chown": {0: 3}, "os.utime": {0: 3}, "os.link": {0: 2, 1: 3},
          "os.symlink": {1: 2}, "os.mkfifo": {0: 2}, "os.mknod": {0: 3}}
READ_ONLY = ("os.listdir", "os.scandir", "os.walk", "os.fwalk", "os.getxattr", "os.listxattr",
             "glob.glob", "glob.glob/2", "pathlib.Path.glob", "pathlib.Path.rglob")
PROCESS_EVENTS = ("os.system", "os.exec", "os.posix_spawn", "os.spawn", "os.fork", "os.forkpty",
                  "subprocess.Popen", "os.startfile", "os.chroot")
WRITE_FLAGS = os.O_WRONLY | os.O_RDWR | os.O_CREAT | os.O_TRUNC | os.O_APPEND

LOG = []  # ["L", conn id, line] | ["E", event, [abs paths], [raw args], blocked or "fault:<errno>"] |
#           ["S", function, abs path] (stat-style probe) | ["F", type, text, tb] | ["I", module]
ARMED = [False]
TOP = [None]
FAULT = [0, 0, False, ""]  # [countdown, errno, armed for the next command, only calls whose name contains this]: the countdown-th next filesystem call under the scratch top fails with errno
PROBES = ("stat", "lstat", "access", "readlink")  # no audit event exists for these: recording wrappers


def _inject(name):
    """Fault injection (XFAULT k errno [call]): make the k-th next (matching) filesystem call fail like the OS would."""
    if FAULT[0] > 0 and FAULT[3] in name:
        FAULT[0] -= 1
        if FAULT[0] == 0:
            return FAULT[1]
    return 0


def install_probe_wrappers():
    """os.stat / os.lstat / os.access / os.readlink (hence os.path.exists/isdir/isfile/islink/getsize
    and FilePath.restat, which are bound after this runs) have no audit event; record them."""
    import errno as _errno

    def wrap(name):
        orig = getattr(os, name)

        def probe(path, *a, **k):
            if ARMED[0] and isinstance(path, (str, bytes)) and k.get("dir_fd") is None:
                try:
                    p = os.path.abspath(os.fsdecode(path))
                except Exception:
                    p = repr(path)
                top = TOP[0]
                if p == top or p.startswith(top + os.sep) or not p.endswith((".py", ".pyc", ".so", ".pyi", ".pth")):
                    LOG.append(["S", name, p])
                    if p.startswith(top + os.sep):
                        e = _inject(name)
                        if e:
                            LOG[-1].append("fault:" + _errno.errorcode.get(e, str(e)))
                            raise OSError(e, "C54 injected fault", p)
            return orig(path, *a, **k)

        probe.__name__ = name
        setattr(os, name, probe)

    for n in PROBES:
        wrap(n)


def _mutating(event, args):
    if event == "open":
        flags = args[2] if len(args) > 2 else None
        mode = args[1] if len(args) > 1 else None
        if isinstance(flags, int):
            return bool(flags & WRITE_FLAGS)
        return not (isinstance(mode, str) and set(mode) <= set("rbt"))  # unknown => treat as write
    return event not in READ_ONLY


def _hook(event, args):
    if not ARMED[0]:
        return
    if event == "import":
        LOG.append(["I", str(args[0])])
        return
    if event in PROCESS_EVENTS:
        LOG.append(["E", event, [], [repr(args)[:200]], True])
        raise PermissionError("C54 guard: process creation refused: " + event)
    idx = PATH_ARGS.get(event)
    if idx is None:
        if not event.startswith("shutil."):
            return
        idx = (0, 1)
    block = False
    try:
        paths, raw = [], []
        for i in idx:
            if i >= len(args):
                continue
            a = args[i]
            if hasattr(a, "__fspath__"):
                a = a.__fspath__()
            if isinstance(a, bytes):
                a = os.fsdecode(a)
            if not isinstance(a, str):
                continue  # file descriptors
            raw.append(a)
            base = None
            j = DIR_FD.get(event, {}).get(i)
            if j is not None and j < len(args) and isinstance(args[j], int) and args[j] >= 0:
                base = os.readlink("/proc/self/fd/%d" % args[j])
            try:
                p = os.path.abspath(a if base is None else os.path.join(base, a))  # lexical, no link following
            except Exception:
                p = a
            paths.append(p)
        if not raw:
            return
        top = TOP[0]
        if event == "os.chdir":
            block = True
        elif _mutating(event, args):
            block = any(not (p == top or p.startswith(top + os.sep)) for p in paths)
        fault = 0
        if not block and all(p.startswith(top + os.sep) for p in paths):
            fault = _inject(event)
        LOG.append(["E", event, paths, raw, block if not fault else "fault:%d" % fault])
    except Exception as e:  # the guard fails closed
        LOG.append(["E", "hook-error", [], [repr(e)], True])
        raise PermissionError("C54 guard: hook error, operation refused")
    if block:
        raise PermissionError("C54 guard: %s outside the scratch area refused" % event)
    if fault:
        raise OSError(fault, "C54 injected fault", paths[0])


def drop_privileges():
    if os.geteuid() != 0:
        return
    try:
        os.setgroups([])
        os.setgid(UNPRIV)
        os.setuid(UNPRIV)
    except OSError as e:
        sys.stderr.write("C54 server: cannot drop privileges: %r\n" % (e,))
    if os.geteuid() == 0 or os.getuid() == 0 or os.getegid() == 0:
        sys.stderr.write("C54 server: still privileged after setuid; refusing to serve\n")
        sys.exit(EXIT_CANNOT_DROP)
    try:  # regaining root must be impossible
        os.setuid(0)
    except OSError:
        return
    sys.stderr.write("C54 server: setuid(0) succeeded after the drop; refusing to serve\n")
    sys.exit(EXIT_CANNOT_DROP)


def preload():
    """Import what serving may import lazily: after the uid drop the interpreter's own library
    directory may be unreadable (it lives under /root here)."""
    import encodings.idna, encodings.latin_1, encodings.utf_8, encodings.ascii  # noqa: F401,E401
    import fnmatch, grp, ipaddress, linecache, pwd, stat, time, traceback, warnings  # noqa: F401,E401
    import twisted.internet.address, twisted.internet.tcp, twisted.internet.task  # noqa: F401,E401
    import twisted.logger._format, twisted.logger._legacy, twisted.logger._stdlib  # noqa: F401,E401
    import twisted.python.failure, twisted.python.reflect, twisted.python.util  # noqa: F401,E401
    from twisted.python import failure, log
    try:
        raise RuntimeError("warm-up")
    except RuntimeError:
        f = failure.Failure()
    f.getBriefTraceback()
    f.getTraceback()
    log.textFromEventDict({"message": (), "isError": 1, "failure": f, "why": None, "system": "-", "time": 0.0})
    time.strftime("%Y%m%d%H%M%S", time.gmtime(0))
    try:
        pwd.getpwuid(UNPRIV), grp.getgrgid(UNPRIV)
    except KeyError:
        pass


def main():
    cfg = json.loads(sys.argv[1])
    TOP[0] = cfg["top"]
    sys.addaudithook(_hook)
    install_probe_wrappers()  # before twisted is imported: filepath.py binds `from os import stat ...`
    rname = cfg["reactor"]
    if rname == "select":
        from twisted.internet import selectreactor as m
    elif rname == "poll":
        from twisted.internet import pollreactor as m
    elif rname == "epoll":
        from twisted.internet import epollreactor as m
    elif rname == "asyncio":
        from twisted.internet import asyncioreactor as m
    else:
        raise SystemExit("unknown reactor " + rname)
    m.install()
    from twisted.internet import reactor
    from twisted.cred import checkers, portal
    from twisted.logger import globalLogPublisher
    from twisted.protocols import ftp
    from twisted.python import filepath
    import zope.interface

    preload()

    def observer(ev):
        f = ev.get("log_failure") or ev.get("failure")  # new-style / legacy log.err
        if f is not None:
            try:
                tb = f.getBriefTraceback()[-600:]
            except Exception:
                tb = ""
            LOG.append(["F", f.type.__module__ + "." + f.type.__name__, repr(f.value)[:300], tb])
        elif ev.get("isError"):
            LOG.append(["F", "<no failure>", repr(ev.get("message") or ev.get("log_format"))[:300], ""])

    globalLogPublisher.addObserver(observer)
    from twisted.python import log as legacy_log
    if legacy_log.defaultObserver is not None:  # full tracebacks on stderr for every refused path are pure cost
        legacy_log.defaultObserver.stop()
        legacy_log.defaultObserver = None

    shell_rw, shell_anon = ftp.FTPShell, ftp.FTPAnonymousShell
    if cfg.get("selftest_unconfined"):
        # Containment self-test only: an UNCONFINED server built in the harness (twisted untouched on
        # disk).  Parent references are kept and paths are joined without any check.
        def loose_segments(cwd, path):
            segs = [] if path.startswith("/") else cwd[:]
            for s in path.split("/"):
                if s in (".", ""):
                    continue
                if s == ".." and segs and segs[-1] != "..":
                    segs.pop()
                elif "\0" in s:
                    raise ftp.InvalidPath(cwd, path)
                else:
                    segs.append(s)
            return segs

        ftp.toSegments = loose_segments

        class LooseShell(ftp.FTPShell):
            def _path(self, path):
                return filepath.FilePath(os.path.join(self.filesystemRoot.path, *path))

        class LooseAnonShell(ftp.FTPAnonymousShell):
            _path = LooseShell._path

        shell_rw, shell_anon = LooseShell, LooseAnonShell

    @zope.interface.implementer(portal.IRealm)
    class Realm:
        def requestAvatar(self, avatarId, mind, *interfaces):
            if avatarId is checkers.ANONYMOUS:
                avatar = shell_anon(filepath.FilePath(cfg["anon_root"]))
            elif avatarId in (cfg["user3"], cfg["user3"].encode("ascii")):
                avatar = shell_rw(filepath.FilePath(cfg["ghost_root"]))
            elif avatarId in (cfg["user2"], cfg["user2"].encode("ascii")):
                avatar = shell_rw(filepath.FilePath(cfg["sparse_root"]))
            else:
                avatar = shell_rw(filepath.FilePath(cfg["rw_root"]))
            return ftp.IFTPShell, avatar, lambda: None

    db = checkers.InMemoryUsernamePasswordDatabaseDontUse()
    db.addUser(cfg["user"], cfg["password"])
    db.addUser(cfg["user2"], cfg["password2"])
    db.addUser(cfg["user3"], cfg["password3"])
    p = portal.Portal(Realm(), [db, checkers.AllowAnonymousAccess()])
    stop = ("XSTOP " + cfg["token"]).encode("ascii")

    import errno
    conn_ids = iter(range(1, 10 ** 9))

    class RecordedFTP(ftp.FTP):
        def connectionMade(self):
            self.c54_id = next(conn_ids)
            return ftp.FTP.connectionMade(self)

        def lineReceived(self, line):
            if line.startswith(b"XFAULT "):  # harness control line: "XFAULT <k> <ERRNO NAME> [call]", never reaches twisted
                LOG.append(["L", self.c54_id, line.decode("latin-1")])
                try:
                    parts = line.decode("ascii").split()
                    FAULT[0], FAULT[1], FAULT[2], FAULT[3] = int(parts[1]), getattr(errno, parts[2]), True, (parts + [""])[3]
                    self.transport.write(b"299 fault armed\r\n")
                except Exception:
                    self.transport.write(b"599 bad XFAULT\r\n")
                return
            if line == stop:
                ARMED[0] = False
                with open(cfg["out"], "w") as f:
                    json.dump({"reactor": type(reactor).__name__, "euid": os.geteuid(), "uid": os.getuid(),
                               "egid": os.getegid(), "groups": os.getgroups(), "log": LOG}, f)
                self.transport.write(b"299 stopped\r\n")
                self.transport.loseConnection()
                reactor.callLater(0, reactor.stop)
                return
            if FAULT[2]:
                FAULT[2] = False  # the plan armed by the preceding XFAULT covers this command only
            else:
                FAULT[0] = 0
            LOG.append(["L", self.c54_id, line.decode("latin-1")])
            return ftp.FTP.lineReceived(self, line)

    factory = ftp.FTPFactory(p)
    factory.protocol = RecordedFTP
    factory.timeOut = 120
    factory.passivePortRange = (0, 0, 0, 0)  # getDTPPort tries each entry: retry a busy ephemeral range
    from twisted.internet.error import CannotListenError
    import time
    for delay in (0.5, 1.5, 4.0, None):
        try:
            port = reactor.listenTCP(0, factory, interface="127.0.0.1")
            break
        except CannotListenError:
            if delay is None:
                raise
            time.sleep(delay)
    os.chdir(cfg["cwd"])  # relative paths escaping to the process cwd land inside the scratch area
    reactor.callLater(cfg.get("lifetime", 600), reactor.stop)  # orphan guard, not a verdict
    drop_privileges()  # nothing has been served yet: the port is only announced below
    ARMED[0] = True
    sys.stdout.write("PORT %d %d\n" % (port.getHost().port, os.geteuid()))
    sys.stdout.flush()
    reactor.run()
    ARMED[0] = False


if __name__ == "__main__":
    main()
