"""C12 System event triggers run once each, in phase and registration order.

Monitored objects: twisted.internet.base._ThreePhaseEvent directly, and the same machinery through
ReactorBase.addSystemEventTrigger / removeSystemEventTrigger / fireSystemEvent on a minimal
ReactorBase subclass (custom event type, never the global reactor).
Events: (trigger id, phase) at every trigger execution, in order; exception type of every removal;
every logged failure.
Oracle: three FIFO lists of unique trigger ids.  On firing: before-triggers run in registration
order inside fireEvent(); no during/after trigger runs while a Deferred returned by a before-trigger
is unfired (fired in any order, with success or failure); then the during-triggers, then the
after-triggers, each in registration order, synchronously with the last firing (or inside
fireEvent() if nothing is outstanding); removed triggers never run; every remaining trigger runs
exactly once per firing; a raising trigger does not prevent the others (its logged failure is
whitelisted); removing a registered, not-yet-run trigger succeeds, removing it twice raises
ValueError.
False-alarm guards: triggers get unique id arguments (identical (callable, args) registrations
would be indistinguishable); removal of an *already run* trigger is never generated (BEFORE state:
only a deprecation warning; otherwise unspecified); triggers are not added while an event is firing
and fireEvent() is not re-entered (unspecified); Deferreds returned by during/after triggers are
ignored by the implementation and by the oracle.
"""
import gc
import itertools
import warnings

LEVEL = "exploration"
ENGINE = "core"
TECHNIQUE = "runtime monitoring: three-FIFO reference model of trigger phases with Deferred gating, exact order comparison"
RULE = ("random cases: 1-20 triggers (phase, behaviour: return / raise / Deferred / already-fired Deferred, removals it performs "
        "when it runs), removals before firing and while before-Deferreds are outstanding, Deferreds fired in random order with "
        "success or failure, optionally a second firing round with new triggers; plus every permutation x failure mask of 1-4 "
        "Deferred-returning before-triggers.  Each case on _ThreePhaseEvent and through ReactorBase.  Distinct = (api, case); "
        "non-trivial = >= 3 triggers ran in >= 2 phases, or a Deferred gated the during phase.")
ASSUMPTIONS = ["trusted base: the three-list model in this module; Deferred/DeferredList (C01-C07) deliver callbacks"]
SHARDS = {"quick": 4, "thorough": 16}
FLOORS = {"trigger_runs": 20000, "order_checks": 20000, "gated_firings": 1000, "deferreds_fired_failed": 200, "raising_triggers": 1000,
          "removed_never_ran": 1000, "removals_inside_triggers": 300, "removals_while_gated": 200, "double_removals_refused": 200,
          "completions_checked": 3000, "second_rounds": 500, "permutation_cases": 400, "api_reactor": 1000, "api_event": 1000}
READY = True
PHASES = ("before", "during", "after")


class Boom(Exception):
    pass


def gen_case(rng):
    def trig(i):
        phase = rng.choice(["before", "before", "during", "after"])
        r = rng.random()
        if phase == "before":
            kind = "defer" if r < 0.35 else "dnow" if r < 0.42 else "raise" if r < 0.55 else "ret"
        else:
            kind = "raise" if r < 0.2 else "defer" if r < 0.28 else "ret"
        rm = [rng.randrange(24) for _ in range(rng.choice([0, 0, 0, 0, 0, 0, 0, 1, 1, 2]))]
        return {"id": i, "phase": phase, "kind": kind, "ok": rng.random() < 0.7, "rm": rm}

    n1 = rng.randrange(1, 21)
    n2 = rng.randrange(1, 8) if rng.random() < 0.5 else 0
    return {"triggers": [trig(i) for i in range(n1 + n2)], "round1": n1,
            "pre_removals": [rng.randrange(24) for _ in range(rng.choice([0, 0, 1, 2, 4]))],
            "double_removals": rng.random() < 0.3,
            "decisions": [rng.randrange(1000) for _ in range(60)]}


def perm_cases():
    """1-4 Deferred-returning before-triggers, fired in every order with every failure mask."""
    for k in range(1, 5):
        for perm in itertools.permutations(range(k)):
            for mask in range(2 ** k):
                trigs = []
                for i in range(k):
                    trigs.append({"id": len(trigs), "phase": "before", "kind": "defer", "ok": not (mask >> i) & 1, "rm": []})
                    trigs.append({"id": len(trigs), "phase": ("during", "after")[i % 2], "kind": "ret", "ok": True, "rm": []})
                trigs.append({"id": len(trigs), "phase": "before", "kind": "ret", "ok": True, "rm": []})
                yield {"triggers": trigs, "round1": len(trigs), "pre_removals": [], "double_removals": False,
                       "fire_order": list(perm), "decisions": []}


class Monitor:
    def __init__(self, ctx, case, api):
        from twisted.internet import base

        self.ctx, self.case, self.api = ctx, case, api
        self.events = []
        self.bad = False
        self.stats = {}
        self.present = {p: [] for p in PHASES}  # model: registered, not removed, not yet run -- registration order
        self.handles = {}
        self.removed = set()
        self.ran = []  # [(id, phase)] of the current firing
        self.ran_ever = set()
        self.outstanding = []  # [(id, Deferred, ok)] returned by before-triggers, unfired
        self.firing = False  # between fireEvent() and the completion of the after phase
        self.in_fire_call = False
        self.dec = list(case["decisions"])
        self.spec = {t["id"]: t for t in case["triggers"]}
        if api == "event":
            self.ev = base._ThreePhaseEvent()
            self.add = lambda phase, f, *a: self.ev.addTrigger(phase, f, *a)
            self.remove = self.ev.removeTrigger
            self.fire = self.ev.fireEvent
        else:
            class MiniReactor(base.ReactorBase):
                def installWaker(self):
                    pass

                def doIteration(self, delay):
                    pass

            self.reactor = MiniReactor()
            self.add = lambda phase, f, *a: self.reactor.addSystemEventTrigger(phase, "verif-event", f, *a)
            self.remove = self.reactor.removeSystemEventTrigger
            self.fire = lambda: self.reactor.fireSystemEvent("verif-event")

    def stat(self, k, n=1):
        self.stats[k] = self.stats.get(k, 0) + n

    def decide(self, n):
        return (self.dec.pop(0) if self.dec else 0) % n

    def fail(self, key, what, **extra):
        if self.bad:
            return
        self.bad = True
        w = {"api": self.api, "case": self.case, "events": self.events[-80:],
             "model_present": {p: list(v) for p, v in self.present.items()}, "ran_this_firing": list(self.ran)}
        w.update(extra)
        self.ctx.violation(key, what, w)

    # ---- the monitored trigger
    def trigger(self, tid):
        from twisted.internet import defer

        t = self.spec[tid]
        phase = t["phase"]
        self.events.append(("run", tid, phase))
        self.stat("trigger_runs")
        if not self.bad:
            self.check_run(tid, phase)
        if tid in self.present[phase]:
            self.present[phase].remove(tid)
        self.ran.append((tid, phase))
        self.ran_ever.add(tid)
        for j in t["rm"]:
            if self.bad:
                break
            tgt = self.pick_present(j)
            if tgt is not None:
                self.stat("removals_inside_triggers")
                self.do_remove(tgt, "inside-%d" % tid)
        if t["kind"] == "raise":
            self.stat("raising_triggers")
            raise Boom(tid)
        if t["kind"] == "defer":
            d = defer.Deferred()
            if phase == "before":
                self.outstanding.append((tid, d, t["ok"]))
            return d
        if t["kind"] == "dnow":
            self.stat("already_fired_deferreds")
            return defer.succeed(tid)
        return tid

    def check_run(self, tid, phase):
        if tid in self.removed:
            return self.fail("removed-trigger-ran", "trigger %d (%s) ran although it was removed" % (tid, phase), trigger=tid)
        if not self.firing:
            return self.fail("trigger-ran-without-firing", "trigger %d ran outside a firing of the event" % tid, trigger=tid)
        if tid not in self.present[phase]:
            return self.fail("trigger-ran-twice", "trigger %d (%s) ran again" % (tid, phase), trigger=tid)
        if phase == "before":
            if not self.in_fire_call:
                return self.fail("before-trigger-outside-fireevent", "before-trigger %d ran outside fireEvent()" % tid, trigger=tid)
            if any(p != "before" for _, p in self.ran):
                return self.fail("phase-order", "before-trigger %d ran after a during/after trigger" % tid, trigger=tid)
        else:
            if self.outstanding:
                return self.fail("gate-open-with-unfired-deferreds", "%s-trigger %d ran while %d Deferreds returned by before-triggers "
                                 "are unfired" % (phase, tid, len(self.outstanding)), trigger=tid,
                                 unfired=[o[0] for o in self.outstanding])
            if self.present["before"]:
                return self.fail("phase-order", "%s-trigger %d ran while before-triggers %s have not run"
                                 % (phase, tid, self.present["before"]), trigger=tid)
            if phase == "during" and any(p == "after" for _, p in self.ran):
                return self.fail("phase-order", "during-trigger %d ran after an after-trigger" % tid, trigger=tid)
            if phase == "after" and self.present["during"]:
                return self.fail("phase-order", "after-trigger %d ran while during-triggers %s have not run"
                                 % (tid, self.present["during"]), trigger=tid)
        if self.present[phase][0] != tid:
            return self.fail("registration-order", "%s-trigger %d ran before %d which was registered earlier"
                             % (phase, tid, self.present[phase][0]), trigger=tid)
        self.stat("order_checks")

    # ---- harness operations
    def pick_present(self, j):
        allp = [x for p in PHASES for x in self.present[p]]
        if not allp:
            return None
        return allp[j % len(allp)]

    def do_add(self, tid):
        t = self.spec[tid]
        self.handles[tid] = self.add(t["phase"], self.trigger, tid)
        self.present[t["phase"]].append(tid)
        self.events.append(("add", tid, t["phase"]))

    def do_remove(self, tid, where):
        phase = self.spec[tid]["phase"]
        expect_ok = tid in self.present[phase]
        got = None
        try:
            with warnings.catch_warnings():
                warnings.simplefilter("ignore")
                self.remove(self.handles[tid])
        except Exception as e:  # noqa: BLE001
            got = type(e).__name__
        self.events.append(("remove", tid, where, got))
        if expect_ok:
            if got is not None:
                return self.fail("remove-raised", "removing registered trigger %d raised %s" % (tid, got), trigger=tid)
            self.present[phase].remove(tid)
            self.removed.add(tid)
            self.stat("removals")
        elif got != "ValueError":
            return self.fail("double-remove-not-refused", "removing trigger %d a second time raised %s, expected ValueError" % (tid, got),
                             trigger=tid)
        else:
            self.stat("double_removals_refused")

    def do_fire_event(self):
        self.ran = []
        self.firing = True
        self.in_fire_call = True
        self.events.append(("fireEvent",))
        try:
            self.fire()
        except Exception as e:  # noqa: BLE001
            self.fail("fire-raised", "fireEvent() raised %s: %s" % (type(e).__name__, e))
        finally:
            self.in_fire_call = False
        if self.outstanding:
            self.stat("gated_firings")
        else:
            self.check_complete("fireEvent")

    def do_fire_deferred(self, k):
        tid, d, ok = self.outstanding.pop(k % len(self.outstanding))
        self.events.append(("fire-deferred", tid, ok))
        if not ok:
            self.stat("deferreds_fired_failed")
        try:
            d.callback(None) if ok else d.errback(Boom("deferred %d" % tid))
        except Exception as e:  # noqa: BLE001
            self.fail("fire-raised", "firing a before-trigger's Deferred raised %s: %s" % (type(e).__name__, e))
        d.addErrback(lambda f: None)
        if not self.outstanding:
            self.check_complete("last Deferred")

    def check_complete(self, after):
        if self.bad:
            return
        left = {p: list(v) for p, v in self.present.items() if v}
        if left:
            return self.fail("trigger-not-run", "after %s the firing is complete in the model but triggers %s did not run" % (after, left))
        self.firing = False
        self.stat("completions_checked")

    def run(self):
        c = self.case
        n1 = c["round1"]
        for t in c["triggers"][:n1]:
            self.do_add(t["id"])
        self.round(c["pre_removals"], c.get("fire_order"))
        if len(c["triggers"]) > n1 and not self.bad:
            self.stat("second_rounds")
            for t in c["triggers"][n1:]:
                self.do_add(t["id"])
            self.round([self.decide(24)], None)
        if not self.bad:
            for tid in self.removed:
                if tid in self.ran_ever:
                    self.fail("removed-trigger-ran", "trigger %d ran although removed" % tid)
                    break
            else:
                self.stat("removed_never_ran", len(self.removed))
        return self

    def round(self, pre_removals, fire_order):
        for j in pre_removals:
            tgt = self.pick_present(j)
            if tgt is not None and not self.bad:
                self.do_remove(tgt, "top")
                if self.case["double_removals"] and not self.bad:
                    self.do_remove(tgt, "top-again")
        if self.bad:
            return
        self.do_fire_event()
        n = 0
        while self.outstanding and not self.bad:
            if fire_order is not None:
                # permutation family: fire_order lists positions in the original list of Deferreds
                if n == 0:
                    self.fixed = [o[0] for o in self.outstanding]
                want = self.fixed[fire_order[n]]
                k = [o[0] for o in self.outstanding].index(want)
            else:
                k = self.decide(16)
                if self.decide(4) == 0:
                    later = self.present["during"] + self.present["after"]
                    if later:
                        self.stat("removals_while_gated")
                        self.do_remove(later[self.decide(len(later))], "gated")
                        if self.bad:
                            return
            n += 1
            self.do_fire_deferred(k)

    def nontrivial(self):
        phases = {p for _, p in self.ran}
        return (self.stats.get("trigger_runs", 0) >= 3 and len(phases) >= 2) or self.stats.get("gated_firings", 0) > 0


def run_case(ctx, case, api, cap=None):
    n0 = len(cap.events) if cap is not None else 0
    m = Monitor(ctx, case, api).run()
    for k, v in m.stats.items():
        ctx.count(k, v)
    ctx.count("api_" + api)
    ctx.evaluated()
    if m.nontrivial():
        ctx.distinct((api, repr(case)))
    if cap is not None:
        for e in cap.events[n0:]:
            f = e.get("log_failure")
            if f is not None and not f.check(Boom):
                m.fail("logged-failure", "unexpected failure logged: %s: %s" % (getattr(f.type, "__name__", "?"), f.getErrorMessage()[:200]))
            elif f is not None:
                ctx.count("whitelisted_logged_failures")
        del cap.events[n0:]
    return m


def run(ctx):
    from vf.engines.logcap import LogCapture

    with LogCapture() as cap:
        for k, case in enumerate(perm_cases()):
            if ctx.owns(k):
                for api in ("event", "reactor"):
                    run_case(ctx, case, api, cap)
                    ctx.count("permutation_cases")
        for n, i in enumerate(ctx.cases(5000, 200000)):
            case = gen_case(ctx.case_rng("case", i))
            for api in ("event", "reactor"):
                m = run_case(ctx, case, api, cap)
            if i < 2 * ctx.nshards:
                ctx.sample({"case": case, "events": m.events[:60]})
            if n % 500 == 499:
                gc.collect()
                for e in cap.events:
                    f = e.get("log_failure")
                    if f is not None and not f.check(Boom):
                        ctx.violation("logged-failure-late", "unexpected failure logged (found at GC): %s" % f.getErrorMessage()[:200],
                                      {"around_case_index": i, "traceback": f.getTraceback()[-1500:]})
                del cap.events[:]


def replay(ctx, w):
    x = w["witness"]
    run_case(ctx, x["case"], x.get("api", "event"))
