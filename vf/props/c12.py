"""C12 System event triggers run once each, in phase and registration order.

Monitored objects: twisted.internet.base._ThreePhaseEvent directly, and the same machinery through
ReactorBase.addSystemEventTrigger / removeSystemEventTrigger / fireSystemEvent on a minimal
ReactorBase subclass (custom event type, never the global reactor).
Events: (trigger id, phase) at every trigger execution, in order; exception type of every removal;
every logged failure.
Oracle: three FIFO lists of unique trigger ids.  On firing: before-triggers run in registration
order inside fireEvent(); no during/after trigger runs while a Deferred returned by a before-trigger
is unfired (fired in any order, with success or failure); then the during-triggers, then the
after-triggers, each in registration order, synchronously with the last firing (or inside
fireEvent() if nothing is outstanding); removed triggers never run; every remaining trigger runs
exactly once per firing; a raising trigger does not prevent the others (its logged failure is
whitelisted); removing a registered, not-yet-run trigger succeeds, removing it twice raises
ValueError.
Odd removals are generated too, from inside running during/after triggers: the trigger's own handle,
the handle of an already-run (or already-removed) trigger, and handles of duplicate registrations
(same callable and argument registered twice in one phase).  What such a removeTrigger() call itself
does (raise or succeed) is a don't-care; every other registered, not-removed trigger must still run
exactly once, in order.
False-alarm guards: identical (callable, args) registrations are indistinguishable, so the model
keys entries by their argument: a run consumes the first registered copy, a removal through any
handle of the key must remove the single registered copy if there is exactly one, and is not issued
while two copies are registered (which one goes would change the survivor's position); in the
*before* phase removal of an already-run trigger is never generated (BEFORE state: only a
deprecation warning).  Triggers are also registered while the event is firing (from inside
before/during/after triggers and while before-Deferreds are outstanding): the statement does not say
which firing such a trigger joins, so that is counted but not judged -- judged is that it runs exactly
once, in this firing or the next, after every earlier registration of its phase, never out of phase
order and never while a before-Deferred is unfired.  "Unfired" means "has not delivered": before-triggers
also return Deferreds that are already fired but whose callback chain waits on an inner unfired Deferred, or
that are fired and pause()d (delivered later by the schedule), or unfired instances of Deferred subclasses
(DeferredList / gatherResults over an unfired Deferred, a trivial harness subclass); the gate must stay shut for
those too.
Registered while waiting (wave 13): a during/after trigger registered from OUTSIDE any trigger while the event waits for a
before-trigger's Deferred (fireEvent() has returned, every before-trigger has run, the during phase has not begun) is not in the
unjudged class above: "only after every Deferred ... has fired, the during-triggers and then the after-triggers" -- it is a
registered during/after trigger when that phase starts, so it must run in THIS firing, synchronously with the last Deferred, in
registration order (key registered-while-waiting-not-run-in-this-firing).  A before-trigger registered in that window stays
unjudged (the before phase is over).  The "waiting" family generates exactly that window on events that had ONLY before-triggers
when fired (nothing else registered: the event looks empty while it waits), 1-3 registrations (and removals) per wait step.
fireEvent() is not re-entered (unspecified); Deferreds returned by during/after triggers are
ignored by the implementation and by the oracle.
"""
import gc
import itertools
import warnings

LEVEL = "exploration"
ENGINE = "core"
TECHNIQUE = "runtime monitoring: three-FIFO reference model of trigger phases with Deferred gating, exact order comparison"
RULE = ("random cases: 1-20 triggers (phase, behaviour: return / raise / Deferred / already-fired Deferred, removals it performs "
        "when it runs, also of its own / already-run handles in the during and after phases), duplicate registrations, removals before firing and while before-Deferreds are outstanding, Deferreds fired in random order with "
        "success or failure, optionally a second firing round with new triggers; plus every permutation x failure mask of 1-4 "
        "Deferred-returning before-triggers.  Each case on _ThreePhaseEvent and through ReactorBase.  Distinct = (api, case); "
        "non-trivial = >= 3 triggers ran in >= 2 phases, or a Deferred gated the during phase.  Waiting family: 1-5 before-triggers only "
        "(>= 1 returning an undelivered Deferred), during/after/before triggers registered and removed at top level while the event "
        "waits; the during/after ones must run when the last Deferred fires.")
ASSUMPTIONS = ["trusted base: the three-list model in this module; Deferred/DeferredList (C01-C07) deliver callbacks"]
SHARDS = {"quick": 4, "thorough": 16}
FLOORS = {"trigger_runs": 20000, "order_checks": 20000, "gated_firings": 1000, "deferreds_fired_failed": 200, "raising_triggers": 1000,
          "removed_never_ran": 1000, "removals_inside_triggers": 300, "removals_while_gated": 200, "double_removals_refused": 200,
          "completions_checked": 3000, "second_rounds": 500, "permutation_cases": 400, "api_reactor": 1000, "api_event": 1000,
          "odd_removals_of_already_run_trigger": 1000, "odd_removals_of_own_handle": 300, "duplicate_registrations": 1000,
          "duplicate_copy_removed_via_other_handle": 15,
          "added_while_firing_before": 300, "added_while_firing_during": 300, "added_while_firing_after": 300,
          "added_while_firing_ran_in_same_firing": 300, "added_while_firing_left_for_next_firing": 100, "flush_firings": 100,
          "gated_on_fired_but_chained_deferred": 300, "gated_on_fired_and_paused_deferred": 300,
          "gated_on_deferred_subclass_instance": 300,
          "waiting_family_cases": 300, "registered_while_waiting": 1500, "registered_while_waiting_ran_in_this_firing": 1000,
          "registered_while_waiting_on_event_with_only_before_triggers": 500}
READY = True
PHASES = ("before", "during", "after")


class Boom(Exception):
    pass


def _plain_subclass():
    from twisted.internet.defer import Deferred

    class PlainSubclassDeferred(Deferred):
        """A trivial Deferred subclass (what applications and DeferredList/gatherResults hand out)."""

    return PlainSubclassDeferred


class _Lazy:
    cls = None

    def __call__(self):
        if _Lazy.cls is None:
            _Lazy.cls = _plain_subclass()
        return _Lazy.cls()


PlainSubclassDeferred = _Lazy()


def gen_case(rng):
    def trig():
        phase = rng.choice(["before", "before", "during", "after"])
        r = rng.random()
        if phase == "before":
            # Deferred results: fresh unfired / fired but its callback chain waits on an inner unfired Deferred /
            # fired (ok or failed) and pause()d / already delivered
            kind = ("defer" if r < 0.24 else "dsub" if r < 0.32 else "dchain" if r < 0.38 else "dpaused" if r < 0.43
                    else "dnow" if r < 0.47 else "raise" if r < 0.58 else "ret")
        else:
            kind = "raise" if r < 0.2 else "defer" if r < 0.28 else "ret"
        rm = [rng.randrange(24) for _ in range(rng.choice([0, 0, 0, 0, 0, 0, 0, 1, 1, 2]))]
        odd = []
        if phase != "before" and rng.random() < 0.2:
            # removals of handles that are no longer registered, issued while the during/after phase runs
            for _ in range(rng.choice([1, 1, 2])):
                odd.append(rng.choice([["self"], ["ran", rng.randrange(24)], ["ran", rng.randrange(24)], ["any", rng.randrange(32)],
                                       ["dup", rng.randrange(8)]]))
        # registrations made while the event is firing (from inside this trigger)
        adds = [rng.choice(PHASES) for _ in range(rng.choice([1, 1, 2]))] if rng.random() < 0.12 else []
        return {"phase": phase, "kind": kind, "ok": rng.random() < 0.7, "rm": rm, "odd": odd, "adds": adds}

    def segment(n):
        specs = [trig() for _ in range(n)]
        if rng.random() < 0.4:
            # duplicate registrations: same callable and argument registered twice in one phase
            for _ in range(rng.choice([1, 1, 2])):
                cands = [t for t in specs if t["phase"] != "before" and "dup_of" not in t]
                if not cands:
                    break
                o = rng.choice(cands)
                o.update(kind="ret", rm=[], odd=[], adds=[])
                pos = rng.randrange(specs.index(o) + 1, len(specs) + 1)
                specs.insert(pos, {"phase": o["phase"], "kind": "ret", "ok": True, "rm": [], "odd": [], "adds": [], "dup_of": o})
        return specs

    s1 = segment(rng.randrange(1, 21))
    s2 = segment(rng.randrange(1, 8)) if rng.random() < 0.5 else []
    specs = s1 + s2
    for i, t in enumerate(specs):
        t["id"] = i
    for t in specs:
        t["key"] = t.pop("dup_of")["id"] if "dup_of" in t else t["id"]
    return {"triggers": specs, "round1": len(s1),
            "pre_removals": [rng.randrange(24) for _ in range(rng.choice([0, 0, 1, 2, 4]))],
            "double_removals": rng.random() < 0.3,
            "decisions": [rng.randrange(1000) for _ in range(60)]}


def gen_waiting_case(rng):
    """An event that has ONLY before-triggers when fired, at least one returning an undelivered Deferred; during/after (and
    before) triggers are registered, and some removed again, at top level while it waits."""
    n = rng.randrange(1, 6)
    kinds = [rng.choice(["defer", "defer", "dsub", "dchain", "dpaused", "dnow", "raise", "ret", "ret"]) for _ in range(n)]
    if not any(k in ("defer", "dsub", "dchain", "dpaused") for k in kinds):
        kinds[rng.randrange(n)] = rng.choice(["defer", "defer", "dsub", "dchain", "dpaused"])
    trigs = [{"id": i, "key": i, "phase": "before", "kind": k, "ok": rng.random() < 0.7, "rm": [], "odd": [], "adds": []}
             for i, k in enumerate(kinds)]
    return {"triggers": trigs, "round1": n, "pre_removals": [], "double_removals": False, "waiting_adds": rng.choice([1, 1, 2, 3]),
            "decisions": [rng.randrange(1000) for _ in range(60)]}


def perm_cases():
    """1-4 Deferred-returning before-triggers, fired in every order with every failure mask."""
    for k in range(1, 5):
        for perm in itertools.permutations(range(k)):
            for mask in range(2 ** k):
                trigs = []
                for i in range(k):
                    trigs.append({"id": len(trigs), "phase": "before", "kind": "defer", "ok": not (mask >> i) & 1, "rm": []})
                    trigs.append({"id": len(trigs), "phase": ("during", "after")[i % 2], "kind": "ret", "ok": True, "rm": []})
                trigs.append({"id": len(trigs), "phase": "before", "kind": "ret", "ok": True, "rm": []})
                yield {"triggers": trigs, "round1": len(trigs), "pre_removals": [], "double_removals": False,
                       "fire_order": list(perm), "decisions": []}


class Monitor:
    def __init__(self, ctx, case, api):
        from twisted.internet import base

        self.ctx, self.case, self.api = ctx, case, api
        self.events = []
        self.bad = False
        self.stats = {}
        self.present = {p: [] for p in PHASES}  # model: registered, not removed, not yet run -- registration order
        self.handles = {}
        self.ran = []  # [(id, phase)] of the current firing
        self.outstanding = []  # [(id, Deferred to fire | None = unpause, returned Deferred, ok)] of before-triggers, undelivered
        self.firing = False  # between fireEvent() and the completion of the after phase
        self.in_fire_call = False
        self.dec = list(case["decisions"])
        self.spec = {t["id"]: t for t in case["triggers"]}
        self.key_of = {t["id"]: t.get("key", t["id"]) for t in case["triggers"]}  # duplicates share their original's key
        self.status = {}  # entry id -> "present" | "removed" | "ran"
        self.floating = set()  # registered while the event was firing: may run in this firing or must run in the next
        self.late = set()  # during/after triggers registered at top level while the event waits on a before-Deferred: this firing
        self.next_id = len(case["triggers"])
        if api == "event":
            self.ev = base._ThreePhaseEvent()
            self.add = lambda phase, f, *a: self.ev.addTrigger(phase, f, *a)
            self.remove = self.ev.removeTrigger
            self.fire = self.ev.fireEvent
        else:
            class MiniReactor(base.ReactorBase):
                def installWaker(self):
                    pass

                def doIteration(self, delay):
                    pass

            self.reactor = MiniReactor()
            self.add = lambda phase, f, *a: self.reactor.addSystemEventTrigger(phase, "verif-event", f, *a)
            self.remove = self.reactor.removeSystemEventTrigger
            self.fire = lambda: self.reactor.fireSystemEvent("verif-event")

    def stat(self, k, n=1):
        self.stats[k] = self.stats.get(k, 0) + n

    def decide(self, n):
        return (self.dec.pop(0) if self.dec else 0) % n

    def fail(self, key, what, **extra):
        if self.bad:
            return
        self.bad = True
        w = {"api": self.api, "case": self.case, "events": self.events[-80:],
             "model_present": {p: list(v) for p, v in self.present.items()}, "ran_this_firing": list(self.ran)}
        w.update(extra)
        self.ctx.violation(key, what, w)

    # ---- the monitored trigger (called with the *key*: identical registrations are indistinguishable)
    def trigger(self, key):
        from twisted.internet import defer

        phase = self.spec[key]["phase"]
        # identical entries are interchangeable and the lists are FIFO: a run consumes the first registered copy
        eid = next((e for e in self.present[phase] if self.key_of[e] == key), None)
        self.events.append(("run", key if eid is None else eid, phase))
        self.stat("trigger_runs")
        if not self.bad:
            self.check_run(eid, key, phase)
        if eid is None:
            return None
        t = self.spec[eid]
        self.present[phase].remove(eid)
        self.status[eid] = "ran"
        self.ran.append((eid, phase))
        for j in t["rm"]:
            if self.bad:
                break
            tgt = self.pick_present(j)
            if tgt is not None:
                self.stat("removals_inside_triggers")
                self.do_remove(tgt, "inside-%d" % eid)
        for o in t.get("odd", ()):
            if self.bad:
                break
            if o[0] == "self":
                tgt = eid
            elif o[0] == "ran":
                pool = [e for e, p in self.ran if p == phase] or [e for e, _ in self.ran]
                tgt = pool[o[1] % len(pool)]
            elif o[0] == "dup":  # the handle of a still-registered duplicate of some other registration
                pool = [e for e in self.present["during"] + self.present["after"] if self.key_of[e] != e]
                if not pool:
                    continue
                tgt = pool[o[1] % len(pool)]
            else:
                tgt = sorted(self.handles)[o[1] % len(self.handles)]
            self.do_remove(tgt, "odd-%s-in-%d" % (o[0], eid))
        for ph in t.get("adds", ()):
            if self.bad:
                break
            self.add_dynamic(ph, "inside-%d" % eid)
        if t["kind"] == "raise":
            self.stat("raising_triggers")
            raise Boom(eid)
        if t["kind"] == "dsub" and phase == "before":
            # an unfired instance of a Deferred SUBCLASS: DeferredList / gatherResults over an unfired Deferred, or a trivial
            # harness subclass; any Deferred instance must be waited for
            variant = eid % 3
            if variant == 2:
                token = fire = PlainSubclassDeferred()
            else:
                fire = defer.Deferred()
                token = defer.DeferredList([fire]) if variant == 0 else defer.gatherResults([fire])
            self.stat("gated_on_deferred_subclass_instance")
            self.outstanding.append((eid, fire, token, t["ok"]))
            return token
        if t["kind"] in ("defer", "dchain", "dpaused", "dsub"):
            # `token` is what the trigger returns; the gate stays shut until its callback chain delivers
            if t["kind"] == "defer" or phase != "before":
                token = fire = defer.Deferred()
            elif t["kind"] == "dchain":
                fire = defer.Deferred()
                token = defer.succeed(None)
                token.addCallback(lambda _, inner=fire: inner)
                self.stat("gated_on_fired_but_chained_deferred")
            else:
                token = defer.succeed(None) if t["ok"] else defer.fail(Boom("paused deferred %d" % eid))
                token.pause()
                fire = None  # delivered by token.unpause()
                self.stat("gated_on_fired_and_paused_deferred")
            if phase == "before":
                self.outstanding.append((eid, fire, token, t["ok"]))
            return token
        if t["kind"] == "dnow":
            self.stat("already_fired_deferreds")
            return defer.succeed(eid)
        return eid

    def check_run(self, eid, key, phase):
        if eid is None:
            copies = [e for e in self.status if self.key_of[e] == key]
            if any(self.status[e] == "removed" for e in copies):
                return self.fail("removed-trigger-ran", "trigger %d (%s) ran although every registered copy of it was removed or has "
                                 "already run (copies: %s)" % (key, phase, {e: self.status[e] for e in copies}), trigger=key)
            return self.fail("trigger-ran-twice", "trigger %d (%s) ran again" % (key, phase), trigger=key)
        tid = eid
        if not self.firing:
            return self.fail("trigger-ran-without-firing", "trigger %d ran outside a firing of the event" % tid, trigger=tid)
        if phase == "before":
            if not self.in_fire_call:
                return self.fail("before-trigger-outside-fireevent", "before-trigger %d ran outside fireEvent()" % tid, trigger=tid)
            if any(p != "before" for _, p in self.ran):
                return self.fail("phase-order", "before-trigger %d ran after a during/after trigger" % tid, trigger=tid)
        else:
            if self.outstanding:
                return self.fail("gate-open-with-unfired-deferreds", "%s-trigger %d ran while %d Deferreds returned by before-triggers "
                                 "are unfired" % (phase, tid, len(self.outstanding)), trigger=tid,
                                 unfired=[o[0] for o in self.outstanding])
            if self.solid("before"):
                return self.fail("phase-order", "%s-trigger %d ran while before-triggers %s have not run"
                                 % (phase, tid, self.solid("before")), trigger=tid)
            if phase == "during" and any(p == "after" for _, p in self.ran):
                return self.fail("phase-order", "during-trigger %d ran after an after-trigger" % tid, trigger=tid)
            if phase == "after" and self.solid("during"):
                return self.fail("phase-order", "after-trigger %d ran while during-triggers %s have not run"
                                 % (tid, self.solid("during")), trigger=tid)
        if self.present[phase][0] != tid:
            return self.fail("registration-order", "%s-trigger %d ran before %d which was registered earlier and is still registered"
                             % (phase, tid, self.present[phase][0]), trigger=tid)
        self.stat("order_checks")
        if tid in self.late:
            self.late.discard(tid)
            self.stat("registered_while_waiting_ran_in_this_firing")
        if tid in self.floating:
            self.floating.discard(tid)
            self.stat("added_while_firing_ran_in_same_firing")  # (which firing it joins: statement silent, unjudged)

    # ---- harness operations
    def pick_present(self, j):
        allp = [x for p in PHASES for x in self.present[p]]
        if not allp:
            return None
        return allp[j % len(allp)]

    def solid(self, phase):
        return [e for e in self.present[phase] if e not in self.floating]

    def add_dynamic(self, phase, where):
        """Register a fresh plain trigger now (used while the event is firing)."""
        eid = self.next_id
        self.next_id += 1
        self.spec[eid] = {"id": eid, "phase": phase, "kind": "ret", "ok": True, "rm": [], "odd": [], "adds": []}
        self.key_of[eid] = eid
        self.do_add(eid)
        self.events.append(("added-while-firing", eid, phase, where))
        self.stat("added_while_firing_" + phase)
        if where == "gated" and phase != "before" and self.outstanding and not self.in_fire_call:
            # registered from outside any trigger while the event waits: the during phase has not begun, so this is one of the
            # during/after triggers that run "only after every Deferred returned by a before-trigger has fired" -- in this firing
            self.floating.discard(eid)
            self.late.add(eid)
            self.stat("registered_while_waiting")
            if self.only_before_when_fired:
                self.stat("registered_while_waiting_on_event_with_only_before_triggers")

    def do_add(self, eid):
        t = self.spec[eid]
        if self.firing:
            self.floating.add(eid)
        self.handles[eid] = self.add(t["phase"], self.trigger, self.key_of[eid])
        self.present[t["phase"]].append(eid)
        self.status[eid] = "present"
        self.events.append(("add", eid, t["phase"], self.key_of[eid]))
        if self.key_of[eid] != eid:
            self.stat("duplicate_registrations")

    def do_remove(self, eid, where):
        """removeTrigger(handle of entry eid).  What the handle designates is its (callable, args) key:
        exactly one registered copy -> it must be removed without exception; none (already run / already
        removed) -> the outcome of the call is a don't-care (except the documented ValueError for a
        repeated removal before firing); two or more copies -> ambiguous which one goes, not issued."""
        phase, key = self.spec[eid]["phase"], self.key_of[eid]
        copies = [e for e in self.present[phase] if self.key_of[e] == key]
        if len(copies) >= 2:
            return self.stat("ambiguous_duplicate_removals_not_issued")
        got = None
        try:
            with warnings.catch_warnings():
                warnings.simplefilter("ignore")
                self.remove(self.handles[eid])
        except Exception as e:  # noqa: BLE001
            got = type(e).__name__
        self.events.append(("remove", eid, where, got))
        if copies:
            tgt = copies[0]
            if got is not None:
                return self.fail("remove-raised", "removing registered trigger %d raised %s" % (tgt, got), trigger=tgt)
            self.present[phase].remove(tgt)
            self.status[tgt] = "removed"
            self.stat("removals")
            if self.status[eid] == "ran" or tgt != eid:
                self.stat("duplicate_copy_removed_via_other_handle")
        elif where == "top-again":
            if got != "ValueError":
                return self.fail("double-remove-not-refused", "removing trigger %d a second time raised %s, expected ValueError"
                                 % (eid, got), trigger=eid)
            self.stat("double_removals_refused")
        else:
            self.stat("odd_removals_of_%s_trigger" % ("already_run" if self.status[eid] == "ran" else "already_removed"))
            if where.startswith("odd-self"):
                self.stat("odd_removals_of_own_handle")
            self.stat("odd_removal_outcome_" + str(got))

    def do_fire_event(self):
        self.ran = []
        self.only_before_when_fired = bool(self.present["before"]) and not (self.present["during"] or self.present["after"])
        self.firing = True
        self.in_fire_call = True
        self.events.append(("fireEvent",))
        try:
            self.fire()
        except Exception as e:  # noqa: BLE001
            self.fail("fire-raised", "fireEvent() raised %s: %s" % (type(e).__name__, e))
        finally:
            self.in_fire_call = False
        if self.outstanding:
            self.stat("gated_firings")
        else:
            self.check_complete("fireEvent")

    def do_fire_deferred(self, k):
        tid, fire, d, ok = self.outstanding.pop(k % len(self.outstanding))
        self.events.append(("fire-deferred" if fire is not None else "unpause-deferred", tid, ok))
        if not ok:
            self.stat("deferreds_fired_failed")
        try:
            if fire is None:
                d.unpause()
            elif ok:
                fire.callback(None)
            else:
                fire.errback(Boom("deferred %d" % tid))
        except Exception as e:  # noqa: BLE001
            self.fail("fire-raised", "firing a before-trigger's Deferred raised %s: %s" % (type(e).__name__, e))
        d.addErrback(lambda f: None)
        if fire is not None and fire is not d:
            fire.addErrback(lambda f: None)  # (DeferredList/gatherResults leave the inner failure in place)
        if not self.outstanding:
            self.check_complete("last Deferred")

    def check_complete(self, after):
        if self.bad:
            return
        left = {p: self.solid(p) for p in PHASES if self.solid(p)}
        waited = sorted(e for v in left.values() for e in v if e in self.late)
        if waited:
            return self.fail("registered-while-waiting-not-run-in-this-firing", "during/after triggers %s were registered while the "
                             "event waited for a before-trigger's Deferred (during phase not begun); after %s every such Deferred "
                             "has fired but they did not run (ran in this firing: %s)" % (waited, after, self.ran),
                             triggers=waited, only_before_triggers_when_fired=self.only_before_when_fired)
        if left:
            return self.fail("trigger-not-run", "after %s the firing is complete in the model but triggers %s did not run" % (after, left))
        if self.floating:
            # registered during this firing and not run in it: they are ordinary registrations for the next firing
            self.stat("added_while_firing_left_for_next_firing", len(self.floating))
            self.floating.clear()
        self.firing = False
        self.stat("completions_checked")

    def run(self):
        c = self.case
        n1 = c["round1"]
        for t in c["triggers"][:n1]:
            self.do_add(t["id"])
        self.round(c["pre_removals"], c.get("fire_order"))
        if len(c["triggers"]) > n1 and not self.bad:
            self.stat("second_rounds")
            for t in c["triggers"][n1:]:
                self.do_add(t["id"])
            self.round([self.decide(24)], None)
        for _ in range(2):
            # triggers registered during a firing that did not join it must run, exactly once, in the next one
            if not self.bad and any(self.present[p] for p in PHASES):
                self.stat("flush_firings")
                self.round([], None)
        if not self.bad and any(self.present[p] for p in PHASES):
            self.fail("trigger-not-run", "triggers %s are still registered after two more firings"
                      % {p: list(v) for p, v in self.present.items() if v})
        if not self.bad:
            # (a run that finds no registered copy is flagged when it happens, so these never ran)
            self.stat("removed_never_ran", sum(1 for v in self.status.values() if v == "removed"))
        return self

    def round(self, pre_removals, fire_order):
        for j in pre_removals:
            tgt = self.pick_present(j)
            if tgt is not None and not self.bad:
                self.do_remove(tgt, "top")
                if self.case["double_removals"] and not self.bad:
                    self.do_remove(tgt, "top-again")
        if self.bad:
            return
        self.do_fire_event()
        n = 0
        while self.outstanding and not self.bad:
            if fire_order is not None:
                # permutation family: fire_order lists positions in the original list of Deferreds
                if n == 0:
                    self.fixed = [o[0] for o in self.outstanding]
                want = self.fixed[fire_order[n]]
                k = [o[0] for o in self.outstanding].index(want)
            else:
                k = self.decide(16)
                for _ in range(self.case.get("waiting_adds", 0)):
                    # waiting family: registrations in every wait step, mostly during/after
                    self.add_dynamic(("during", "after", "during", "after", "before")[self.decide(5)], "gated")
                if self.decide(6) == 0:
                    self.add_dynamic(PHASES[self.decide(3)], "gated")
                if self.decide(4) == 0:
                    later = self.present["during"] + self.present["after"]
                    if later:
                        self.stat("removals_while_gated")
                        self.do_remove(later[self.decide(len(later))], "gated")
                        if self.bad:
                            return
            n += 1
            self.do_fire_deferred(k)

    def nontrivial(self):
        phases = {p for _, p in self.ran}
        return (self.stats.get("trigger_runs", 0) >= 3 and len(phases) >= 2) or self.stats.get("gated_firings", 0) > 0


def run_case(ctx, case, api, cap=None):
    n0 = len(cap.events) if cap is not None else 0
    m = Monitor(ctx, case, api).run()
    for k, v in m.stats.items():
        ctx.count(k, v)
    ctx.count("api_" + api)
    ctx.evaluated()
    if m.nontrivial():
        ctx.distinct((api, repr(case)))
    if cap is not None:
        for e in cap.events[n0:]:
            f = e.get("log_failure")
            if f is not None and not f.check(Boom):
                m.fail("logged-failure", "unexpected failure logged: %s: %s" % (getattr(f.type, "__name__", "?"), f.getErrorMessage()[:200]))
            elif f is not None:
                ctx.count("whitelisted_logged_failures")
        del cap.events[n0:]
    return m


def run(ctx):
    from vf.engines.logcap import LogCapture

    with LogCapture() as cap:
        for k, case in enumerate(perm_cases()):
            if ctx.owns(k):
                for api in ("event", "reactor"):
                    run_case(ctx, case, api, cap)
                    ctx.count("permutation_cases")
        for i in ctx.cases(1600, 40000):
            case = gen_waiting_case(ctx.case_rng("waiting", i))
            for api in ("event", "reactor"):
                run_case(ctx, case, api, cap)
            ctx.count("waiting_family_cases")
        for n, i in enumerate(ctx.cases(5000, 200000)):
            case = gen_case(ctx.case_rng("case", i))
            for api in ("event", "reactor"):
                m = run_case(ctx, case, api, cap)
            if i < 2 * ctx.nshards:
                ctx.sample({"case": case, "events": m.events[:60]})
            if n % 500 == 499:
                gc.collect()
                for e in cap.events:
                    f = e.get("log_failure")
                    if f is not None and not f.check(Boom):
                        ctx.violation("logged-failure-late", "unexpected failure logged (found at GC): %s" % f.getErrorMessage()[:200],
                                      {"around_case_index": i, "traceback": f.getTraceback()[-1500:]})
                del cap.events[:]


def replay(ctx, w):
    x = w["witness"]
    run_case(ctx, x["case"], x.get("api", "event"))
