"""C26 No escape from static directories / FilePath.

(a) FilePath.child / preauthChild / descendant are called with hostile names on parents that have
    siblings sharing their name as a prefix (base/root, base/rootX, base/root-secret).  Monitor: the
    returned object's .path (only inspected, never opened/created/removed).  Oracle (purely
    lexical, the scratch tree has no symlinks): child -> result is the parent or its dirname is the
    parent, else InsecurePath; preauthChild/descendant -> result is the parent or starts with
    parent + sep, else InsecurePath.
(b) static.File(base/root) under Site serves GET/HEAD requests whose paths carry percent-encoded
    separators/dots, '..', empty, NUL and non-UTF-8 segments, double encoding, with ignoredExts /
    indexNames variations.  Monitor: sys.addaudithook events open/os.listdir/os.scandir during the
    request (vf.engines.fsaudit) and the response bytes.  Oracle: every audited path below the
    scratch base is root or inside root + sep; no response contains the sentinel of a file outside
    root.

Guards: exceptions other than InsecurePath (ValueError for NUL, UnicodeError...) are recorded, not
failures; 4xx/5xx answers are fine (only *serving outside files* is a violation); audited paths
outside the scratch base (interpreter, mime types) are ignored; "symbolic links aside": none exist.
Safety: only GET/HEAD are sent; hostile absolute targets only name files inside the scratch
directory (a tempfile.mkdtemp() removed at the end); FilePath results are never used for I/O.
"""
import os
import shutil
import tempfile
from urllib.parse import quote

from vf.engines import fsaudit

LEVEL = "exploration"
ENGINE = "E2-netsim+E4-audit"
TECHNIQUE = "runtime monitoring: lexical containment of returned paths + audit-hook record of every file the resource opens/lists"
RULE = ("(a) names built from a hostile alphabet ('/', '\\\\', '.', '..', '%2e', '%2f', NUL, non-UTF-8, "
        "empty, absolute paths, prefix-sibling templates '../<parent-name><suffix>'; for descendant also separator-free segment lists mixing '..', '.', '' with prefix-sibling names at every position) x parents (root, "
        "root/sub, prefix siblings, '/', str and bytes mode) x child/preauthChild/descendant; distinct by "
        "(method, parent, mode, name), non-trivial = name is not a plain single component.  (b) request "
        "paths of 1-5 segments from inside names and hostile encoded atoms x File configurations "
        "(ignoredExts (), ('.txt',), ('*',); indexNames default/custom) x GET/HEAD; distinct by "
        "(config, method, path), non-trivial = at least one hostile atom.")
ASSUMPTIONS = ["containment is decided lexically on normalised absolute paths; the scratch tree contains no symbolic links ('symbolic links aside')",
               "audit events open / os.listdir / os.scandir are what 'serving a file' can use; os.stat has no audit event, so mere existence probing outside the root is not observed",
               "trusted base: vf/engines/fsaudit.py (self-tested), the in-memory transport, reactor.iterate(0) pumping"]
SHARDS = {"quick": 4, "thorough": 16}
FLOORS = {"child_calls": 2000, "preauth_calls": 2000, "descendant_calls": 1000, "descendant_segment_lists": 1000, "chain_steps_checked": 500, "refused_insecure": 1000,
          "returned_paths_checked": 1000, "requests": 500, "audit_events_in_base": 500, "responses_200_inside": 100,
          "hostile_requests": 300}
READY = True

OUT = b"OUTSIDE-SENTINEL-"
INS = b"inside-content-"


# ------------------------------------------------------------------------------------ layout
def make_layout():
    base = os.path.realpath(tempfile.mkdtemp(prefix="vf_c26_"))
    def w(rel, data):
        p = os.path.join(base, rel)
        os.makedirs(os.path.dirname(p), exist_ok=True)
        with open(p, "wb") as f:
            f.write(data)
    for rel in ["root/a.txt", "root/sub/b.txt", "root/sub/deep/c.txt", "root/sub/index.html", "root/sp ace.txt",
                "root/.hidden", "root/dot.name.txt", "root/secret.txt"]:
        w(rel, INS + rel.encode() + b"\n")
    for rel in ["rootX/secret.txt", "rootX/a.txt", "root-secret/secret.txt", "root-secret/index.html", "root.txt", "secret.txt",
                "a.txt", "sub/b.txt", "index.html", "root2/sub/b.txt"]:
        w(rel, OUT + rel.encode() + b"\n")
    return base


# ------------------------------------------------------------------------- (a) FilePath names
ATOMS = ["..", ".", "", "/", "\\", "a", "a.txt", "secret.txt", "rootX", "root-secret", "root", "sub", "X", "-secret",
         "%2e%2e", "%2f", "\x00", "é", "\udcff", " ", "~", "C:", "..\\", "//", "...", "..;", "\n", "*"]
SUFFIXES = ["X", "-secret", "X/secret.txt", "-secret/secret.txt", "", "/", "2/sub/b.txt", ".txt", "Y", "\x00", "/../rootX", "X/../rootX/secret.txt"]


def gen_name(rng, parent_name):
    r = rng.random()
    if r < 0.25:  # prefix-sibling templates
        ups = rng.choice(["..", "../.", "./..", "a/../..", "sub/../..", "..//", "../../" + "x/.."])
        return ups + "/" + parent_name + rng.choice(SUFFIXES)
    if r < 0.35:
        return rng.choice(["{BASE}/secret.txt", "{BASE}/rootX/secret.txt", "/{BASE}/rootX", "{BASE}/root", "{BASE}/root/a.txt", "/", "//", "{BASE}"])
    if r < 0.45:
        return rng.choice(ATOMS)
    n = rng.randint(2, 5)
    sep = rng.choice(["/", "/", "", "\\"])
    return sep.join(rng.choice(ATOMS) for _ in range(n))


SIB = ["X", "-secret", "2", ".txt", "Y", "_", "\x00", "é"]


def gen_segments(rng, parent_name):
    """descendant() argument: separator-free segments, '..' / '.' / '' mixed with names that extend
    the parent's own name (the prefix siblings of the layout: rootX, root-secret, ...) at every position."""
    r = rng.random()
    sib = parent_name + rng.choice(SIB)
    if r < 0.35:  # templates: climb out, then step into a prefix sibling
        t = rng.choice([["..", sib], ["..", sib, "secret"], ["a", "..", "..", sib, "x"], [".", "..", sib], ["", "..", sib, ""],
                        ["a", "b", "..", "..", "..", sib], ["..", sib, "..", sib], ["..", ".", sib, "."], ["sub", "..", "..", sib, "secret.txt"],
                        ["..", parent_name], ["..", parent_name, "a.txt"], ["..", "..", "x", "..", sib], [sib, "..", "..", sib], ["..", "", sib]])
        return list(t)
    pool = ["..", "..", "..", ".", "", sib, sib, parent_name, parent_name + rng.choice(SIB), "a", "sub", "deep", "secret.txt", "x", "~", " "]
    return [rng.choice(pool) for _ in range(rng.randint(1, 6))]


def _text(p):
    return os.fsdecode(p) if isinstance(p, bytes) else p


def contained(result_path, parent_path, direct):
    r = os.path.normpath(_text(result_path))
    par = os.path.normpath(_text(parent_path))
    if r == par:
        return True
    if direct:
        return os.path.dirname(r) == par and os.path.basename(r) not in ("", ".", "..")
    return r.startswith(par.rstrip(os.sep) + os.sep)


def classify_escape(method, result_path, parent_path):
    r, par = os.path.normpath(_text(result_path)), os.path.normpath(_text(parent_path))
    shares_prefix = par != os.sep and r.startswith(par) and not r.startswith(par + os.sep)
    if method == "preauthChild" and shares_prefix:
        return "preauthchild-prefix-sibling"
    if shares_prefix:
        return "%s-prefix-sibling" % method.lower()
    return "%s-escape" % method.lower()


def child_chain_case(ctx, FilePath, InsecurePath, base, parent_rel, mode, names):
    """p.child(a).child(b)...: every step is judged against the object it was called on (results reused as parents)."""
    ptext = os.path.join(base, parent_rel) if parent_rel else base
    cur = FilePath(os.fsencode(ptext) if mode[0] == "b" else ptext)
    top = cur.path
    ctx.count("child_chains")
    ctx.evaluated()
    ctx.distinct(("chain", parent_rel, mode, tuple(names)))
    for depth, t in enumerate(names):
        s = t.replace("{BASE}", base)
        arg = os.fsencode(s) if mode[1] == "b" else s
        ctx.count("child_calls")
        try:
            res = cur.child(arg)
        except InsecurePath:
            ctx.count("refused_insecure")
            return
        except Exception as e:
            ctx.count("other_exceptions")
            ctx.seen("other_exception_types", type(e).__name__)
            return
        ctx.count("returned_paths_checked")
        ctx.count("chain_steps_checked")
        if not contained(res.path, cur.path, direct=True) or not contained(res.path, top, direct=False):
            ctx.violation(classify_escape("child", res.path, cur.path), "FilePath.child (step %d of a chain) returned a path outside the object it was called on" % depth,
                          {"method": "child-chain", "parent_rel": parent_rel, "mode": mode, "names": names, "step": depth,
                           "called_on": cur.path, "argument": arg, "returned": res.path, "chain_start": top})
            return
        cur = res


def filepath_case(ctx, FilePath, InsecurePath, base, parent_rel, mode, method, name_t, sample=False):
    """One call.  name_t is the name template (str, '{BASE}' placeholder); for descendant a list."""
    ptext = os.sep if parent_rel == "/" else os.path.join(base, parent_rel) if parent_rel else base
    parent = FilePath(os.fsencode(ptext) if mode[0] == "b" else ptext)
    def conv(t):
        s = t.replace("{BASE}", base)
        if mode[1] == "b":
            try:
                return os.fsencode(s)
            except (UnicodeEncodeError, ValueError):
                return s.encode("utf-8", "surrogatepass")
        return s
    arg = [conv(t) for t in name_t] if method == "descendant" else conv(name_t)
    ctx.count({"child": "child_calls", "preauthChild": "preauth_calls", "descendant": "descendant_calls"}[method])
    ctx.evaluated()
    plain = (method != "descendant" and name_t not in ("", ".", "..") and not any(c in name_t for c in "/\\\x00%{") and ".." not in name_t)
    if not plain:
        ctx.distinct((method, parent_rel, mode, repr(name_t)))
    try:
        res = getattr(parent, method)(arg)
    except InsecurePath:
        ctx.count("refused_insecure")
        outcome = "InsecurePath"
    except Exception as e:  # recorded, not a failure (ValueError for NUL, UnicodeError ...)
        ctx.count("other_exceptions")
        ctx.seen("other_exception_types", type(e).__name__)
        outcome = type(e).__name__
    else:
        ctx.count("returned_paths_checked")
        outcome = res.path
        if not contained(res.path, parent.path, direct=(method == "child")):
            key = classify_escape(method, res.path, parent.path)
            ctx.violation(key, "FilePath.%s returned a path outside %s" % (method, "the parent directory" if method == "child" else "the parent's subtree"),
                          {"method": method, "parent_rel": parent_rel, "mode": mode, "name_template": name_t,
                           "parent": parent.path, "argument": arg, "returned": res.path,
                           "expected": "InsecurePath, the parent itself, or a path %s" % ("directly inside it" if method == "child" else "below it")})
        elif res.path != parent.path:
            ctx.count("returned_inside")
    if sample:
        ctx.sample({"method": method, "parent": parent.path, "argument": arg, "outcome": outcome})


PARENTS = ["root", "root/sub", "rootX", "root-secret", "", "/", "root/sub/deep"]
MODES = ["ss", "sb", "bs", "bb"]  # parent mode, name mode


def run_filepaths(ctx, base):
    from twisted.python.filepath import FilePath, InsecurePath

    # directed corpus (every shard its share)
    k = 0
    directed = ["../rootX/secret", "a/../../rootY", "../root-secret", "../root", "..", ".", "", "a/..", "a/../..", "sub/../../root/a.txt",
                "../rootX", "..\\rootX", "%2e%2e/rootX", "{BASE}/rootX/secret.txt", "{BASE}/root", "/", "a\x00/../../rootX", "....//rootX"]
    for name in directed:
        for method in ("child", "preauthChild", "descendant"):
            for mode in MODES:
                for parent_rel in ("root", "root/sub", "/"):
                    k += 1
                    if ctx.owns(k):
                        pn = os.path.basename(parent_rel)
                        nm = name.replace("root", pn or "root") if parent_rel == "root/sub" else name
                        filepath_case(ctx, FilePath, InsecurePath, base, parent_rel, mode, method, [nm] if method == "descendant" else nm)
    # directed descendant() segment lists: '..' / '.' / '' with prefix siblings at every position, str and bytes
    for parent_rel in ("root", "root/sub", "root-secret"):
        pn = os.path.basename(parent_rel)
        for suffix in ("X", "-secret", "2"):
            sib = pn + suffix
            lists = [["..", sib], ["..", sib, "secret"], ["a", "..", "..", sib, "x"], [".", "..", sib], ["", "..", sib], [sib, "..", "..", sib],
                     ["..", sib, ".."], ["a", ".."], ["..", pn], ["..", pn, "a.txt"], ["a", "..", "..", pn + suffix], ["..", "..", "x"], [sib], [".."]]
            for segs in lists:
                for mode in MODES:
                    k += 1
                    if ctx.owns(k):
                        ctx.count("descendant_segment_lists")
                        filepath_case(ctx, FilePath, InsecurePath, base, parent_rel, mode, "descendant", segs)
    for i in ctx.cases(30000, 3000000):
        rng = ctx.case_rng("fp", i)
        parent_rel = rng.choice(PARENTS[:2]) if rng.random() < 0.6 else rng.choice(PARENTS)
        pn = os.path.basename(parent_rel) if parent_rel not in ("", "/") else os.path.basename(base) if parent_rel == "" else "tmp"
        mode = rng.choice(MODES)
        if rng.random() < 0.08:
            parent_rel2 = rng.choice(["root", "root/sub", "rootX"])
            pn2 = os.path.basename(parent_rel2)
            names = [rng.choice(["a", "sub", "deep", "..", ".", "", pn2 + "X", pn2, "x"]) if rng.random() < 0.7 else gen_name(rng, pn2) for _ in range(rng.randint(2, 4))]
            child_chain_case(ctx, FilePath, InsecurePath, base, parent_rel2, mode, names)
            continue
        method = rng.choice(["child", "preauthChild", "preauthChild", "descendant"])
        if method == "descendant":
            if rng.random() < 0.55:
                name_t = gen_segments(rng, pn)
                ctx.count("descendant_segment_lists")
            else:
                name_t = [gen_name(rng, pn) if rng.random() < 0.6 else rng.choice(["a", "sub", "deep", "x"]) for _ in range(rng.randint(0, 4))]
        else:
            name_t = gen_name(rng, pn)
        filepath_case(ctx, FilePath, InsecurePath, base, parent_rel, mode, method, name_t, sample=i < 2 * ctx.nshards)


# ----------------------------------------------------------------------- (b) static.File requests
INSIDE_SEGS = ["a.txt", "sub", "deep", "b.txt", "c.txt", "index.html", "a", "b", ".hidden", "sp%20ace.txt", "dot.name.txt", "dot.name", "secret.txt", "secret"]
HOSTILE_SEGS = ["..", ".", "", "%2e%2e", "%2E%2e", ".%2e", "%2e.", "%2e", "..%2f", "%2f..", "..%2frootX", "..%2frootX%2fsecret.txt", "..%2froot-secret",
                "..%2froot-secret%2fsecret.txt", "%2e%2e%2frootX%2fsecret.txt", "..%5crootX", "..%5c..%5csecret.txt", "%252e%252e", "%252e%252e%252frootX",
                "%c0%ae%c0%ae", "%c0%af", "%ff", "%00", "..%00", "a.txt%00", "%2e%2e%00", "rootX", "root-secret", "root", "root.txt", "....", "..;", "..%3b",
                "%2f{BASE}%2fsecret.txt", "{BASE}", "%2f{BASE}%2frootX%2fsecret.txt", "..%2f..%2f{BASENAME}%2fsecret.txt", "..%2fsecret.txt", "..%2fa.txt",
                "..%2fsub%2fb.txt", "..%2froot.txt", "..%2froot2%2fsub%2fb.txt", "%2e%2e%2findex.html", "..%2f", "%2f", "%5c", "~", "*", "..%2frootX%2f", "%2e%2e%2f%2e%2e",
                "sub%2f..%2f..%2fsecret.txt", "sub%2f..%2f..%2frootX%2fsecret.txt", ".%2f..%2frootX", "%2e%2e%2f%72ootX", "..%2Froot%2Fa.txt", "\xe9", "%e9", "%ef%bc%8f"]
CONFIGS = [{"ignoredExts": (), "index": None}, {"ignoredExts": (".txt",), "index": None}, {"ignoredExts": ("*",), "index": None},
           {"ignoredExts": (), "index": ["index.html"]}, {"ignoredExts": ("*",), "index": ["b.txt", "index.html"]}]


BENIGN = ["/a.txt", "/sub/b.txt", "/sub/deep/c.txt", "/sub/", "/", "/sub/deep/", "/secret.txt", "/a", "/sub/index.html", "/dot.name.txt", "/sp%20ace.txt"]


def gen_request(rng):
    if rng.random() < 0.12:  # plain requests: the audit must see the inside files being opened/listed
        return rng.choice(BENIGN), 0
    n = rng.randint(1, 5)
    segs = []
    hostile = 0
    for _ in range(n):
        if rng.random() < 0.45:
            segs.append(rng.choice(INSIDE_SEGS))
        else:
            segs.append(rng.choice(HOSTILE_SEGS))
            hostile += 1
    path = "/" + "/".join(segs)
    if rng.random() < 0.15:
        path += "/"
    if rng.random() < 0.05:
        path = "/" + path
    if rng.random() < 0.08:
        path += "?x=../../secret.txt"
    return path, hostile


_LOGGING_BEGUN = [False]


def _attach_log_observer(obs):
    """Make `obs` a global log observer.  The first call *begins* logging with it, which also switches off twisted's
    temporary stderr printer of critical events: a shard that prints a traceback per provoked failure fills its
    stdout pipe and then blocks until the runner gets round to reading it (shards would run one after the other)."""
    from twisted.logger import globalLogBeginner, globalLogPublisher

    if not _LOGGING_BEGUN[0]:
        _LOGGING_BEGUN[0] = True
        globalLogBeginner.beginLoggingTo([obs], redirectStandardIO=False, discardBuffer=True)
    else:
        globalLogPublisher.addObserver(obs)



class Web:
    def __init__(self, base):
        from twisted.internet import reactor
        from twisted.internet.task import Clock
        from twisted.logger import globalLogPublisher
        from twisted.web import server, static
        from vf.engines.logcap import LogCapture
        from vf.engines.netsim import SimTransport

        self.reactor, self.Clock, self.server, self.static, self.SimTransport = reactor, Clock, server, static, SimTransport
        self.base = base
        self.root = os.path.join(base, "root")
        self.sites = {}
        self.log = LogCapture()
        self.pub = globalLogPublisher
        _attach_log_observer(self.log)

    def close(self):
        try:
            self.pub.removeObserver(self.log)
        except ValueError:
            pass

    def request(self, cfg, method, path_t):
        path = path_t.replace("{BASENAME}", quote(os.path.basename(self.base))).replace("{BASE}", quote(self.base, safe="").replace("%2F", "%2f"))
        raw_path = path.encode("latin-1")
        key = (tuple(cfg["ignoredExts"]), None if cfg["index"] is None else tuple(cfg["index"]))
        site = self.sites.get(key)
        if site is None:
            # one long-lived Site / root File per configuration serves all requests (state left over between requests)
            f = self.static.File(self.root, ignoredExts=cfg["ignoredExts"])
            if cfg["index"] is not None:
                f.indexNames = list(cfg["index"])
            site = self.sites[key] = self.server.Site(f, reactor=self.Clock())
        ch = site.buildProtocol(None)
        t = self.SimTransport()
        ch.makeConnection(t)
        req = method + b" " + raw_path + b" HTTP/1.1\r\nHost: h\r\nConnection: close\r\n\r\n"
        del self.log.events[:]
        escaped = None
        fsaudit.start(events=fsaudit.READ_EVENTS)
        try:
            try:
                ch.dataReceived(req)
                n = idle = 0
                seen = len(t.written)
                while not t.disconnecting and n < 200 and idle < 12:
                    self.reactor.iterate(0)
                    n += 1
                    idle = idle + 1 if len(t.written) == seen else 0
                    seen = len(t.written)
            except Exception as e:
                escaped = "%s: %s" % (type(e).__name__, e)
        finally:
            events = fsaudit.stop()
        try:
            from twisted.internet import error
            from twisted.python import failure

            ch.connectionLost(failure.Failure(error.ConnectionDone()))
        except Exception as e:
            escaped = escaped or "connectionLost: %s" % (e,)
        return raw_path, bytes(t.written), events, escaped


def web_case(ctx, web, cfg_i, method, path_t, hostile, sample=False):
    cfg = CONFIGS[cfg_i]
    raw_path, raw, events, escaped = web.request(cfg, method, path_t)
    ctx.count("requests")
    ctx.evaluated()
    if hostile:
        ctx.count("hostile_requests")
        ctx.distinct(("web", cfg_i, method, path_t))
    status = raw[9:12].decode("latin-1") if raw.startswith(b"HTTP/1.") else "none"
    ctx.seen("statuses", status)
    wit = {"config": {"ignoredExts": list(cfg["ignoredExts"]), "indexNames": cfg["index"]}, "config_index": cfg_i, "method": method,
           "path_template": path_t, "request_path": raw_path, "status": status, "root": web.root}
    in_base = []
    for ev, paths in events:
        for p in paths:
            if fsaudit.inside(p, web.base):
                in_base.append((ev, fsaudit.norm(p)))
    ctx.count("audit_events_in_base", len(in_base))
    for ev, p in in_base:
        if not fsaudit.inside(p, web.root):
            shares = p.startswith(web.root)
            w = dict(wit)
            w.update({"event": ev, "path_opened": p, "events_in_base": in_base[:10]})
            ctx.violation("static-prefix-sibling-access" if shares else "static-outside-access",
                          "static.File %s a path outside its root while serving a request" % ("listed" if ev != "open" else "opened"), w)
            break
    if OUT in raw:
        i = raw.index(OUT)
        w = dict(wit)
        w.update({"leaked": raw[i:i + 60], "events_in_base": in_base[:10]})
        ctx.violation("static-outside-content-served", "the response contains the content of a file outside the root", w)
    elif status == "200" and INS in raw:
        ctx.count("responses_200_inside")
    if escaped:
        ctx.count("exceptions_escaping_channel")
        ctx.seen("escaped", escaped[:80])
    if web.log.failures():
        ctx.count("requests_with_logged_failure")
        ctx.seen("logged_failure_types", web.log.failures()[0][0])
    if sample:
        ctx.sample({"config_index": cfg_i, "method": method, "request_path": raw_path, "status": status, "audited_in_base": in_base[:6]})


def run_web(ctx, base):
    web = Web(base)
    try:
        k = 0
        for seg in HOSTILE_SEGS:  # directed: every hostile atom as first segment and below sub/, then a sensitive name
            for prefix, suffix in (("", ""), ("", "/secret.txt"), ("/sub", ""), ("/sub", "/secret.txt"), ("", "/rootX/secret.txt")):
                k += 1
                if ctx.owns(k):
                    web_case(ctx, web, k % len(CONFIGS), b"GET", prefix + "/" + seg + suffix, 1)
        for i in ctx.cases(5000, 300000):
            rng = ctx.case_rng("web", i)
            path_t, hostile = gen_request(rng)
            web_case(ctx, web, rng.randrange(len(CONFIGS)), b"HEAD" if rng.random() < 0.1 else b"GET", path_t, hostile, sample=i < 2 * ctx.nshards)
    finally:
        web.close()


def run(ctx):
    fsaudit.selftest()
    base = make_layout()
    try:
        run_filepaths(ctx, base)
        run_web(ctx, base)
    finally:
        shutil.rmtree(base, ignore_errors=True)


def replay(ctx, w):
    x = w["witness"]
    base = make_layout()
    try:
        if "path_template" in x:
            web = Web(base)
            try:
                m = x["method"]
                web_case(ctx, web, x["config_index"], (m[2:] if m.startswith("b:") else m).encode(), x["path_template"], 1, sample=True)
            finally:
                web.close()
        else:
            from twisted.python.filepath import FilePath, InsecurePath

            filepath_case(ctx, FilePath, InsecurePath, base, x["parent_rel"], x["mode"], x["method"], x["name_template"], sample=True)
    finally:
        shutil.rmtree(base, ignore_errors=True)
