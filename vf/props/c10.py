"""C10 LoopingCall keeps cadence without overlap and counts skipped intervals.

Monitored object: twisted.internet.task.LoopingCall (plain and withCount) on a task.Clock.
Events: every call of the user function (clock time seen inside it, count argument), completion of
each call (return / raise / firing of the returned Deferred), every firing of start()'s Deferred.
Oracle (exact integer ticks of 1/16 s; intervals are k/8 s <= 64 s):
  * overlap: the function is never entered while the previous call's Deferred is unfired;
  * cadence: with c = completion time of the previous call (or start time for now=False) and
    B = min{start + k*interval > c}, the next call happens during the first advance() whose end is
    >= B (never earlier, and that advance may not end without it), and sees seconds() == that end;
    with now=True the first call happens synchronously inside start();
  * withCount (histories without reset()): every count >= 1 and the running sum of counts equals
    floor((t_call - start)/interval) (+1 if now=True) = number of boundaries elapsed;
  * stop() or a failure (raise / failed Deferred / a twisted.python.failure.Failure object *returned* by the
    function, which is how a function reports an error without raising: maybeDeferred semantics) fires
    start()'s Deferred exactly once -- with the LoopingCall, or with a Failure wrapping the very exception
    instance -- by the end of the harness operation that completes it, never before; no call happens afterwards.
Blocking: some calls take time themselves (the clock advances while the function runs, possibly across
boundaries): completion is the time after blocking, and the boundaries that passed meanwhile are counted
at the next call (count sums are judged at call *start* times).
Restart: start() is called again after the loop ended (at top level, from a callback of the Deferred
the previous start() returned, and -- with stop() -- from inside the looped function, now=False): every
clause applies afresh to the new run (its own start time, interval, now flag, count sum), and the
Deferred of every earlier start() must have fired exactly once, with its own result, for good.
False-alarm guards: interval 0 is not generated ("positive interval"); reset() while a call is scheduled
restarts the boundary grid at the reset time, the count-sum rule is then not asserted (statement does not
define it); reset() while an invocation is in progress (from inside the function, or while its Deferred is
unfired) has no effect, as the code and docstring have it: the next call is scheduled from that call's
completion on the unchanged grid; stop() is only issued
while running (it asserts otherwise); a stop() while the function's Deferred is outstanding fires
start()'s Deferred when that Deferred fires (with its failure if it fails).
"""
import gc

LEVEL = "exploration"
ENGINE = "core"
TECHNIQUE = "runtime monitoring: exact-rational boundary-grid oracle for call times, count sums and start() Deferred firing"
RULE = ("random cases: interval k/8 s, random start offset, now flag, plain/withCount, a per-call behaviour schedule "
        "(return / raise / return a Failure object (built from the exception, or captured in an except block) / Deferred fired by the harness or by a clock timer after a latency, ok or failed / already-fired "
        "Deferred / stop() from inside), and 5-60 steps mixing sub-interval advances, exact-boundary advances, jumps of many "
        "intervals, advance(0), stop, reset, Deferred firings, calls that block (clock moves inside the call), and start() "
        "again after the loop ended: at top level, from a callback of start()'s Deferred, and (with stop()) from inside the function.  Distinct = the whole case; non-trivial = at least 2 calls "
        "were observed and at least one boundary was skipped, a Deferred was awaited, or a stop/failure/reset happened.")
ASSUMPTIONS = ["trusted base: task.Clock (property C09) delivers the timed calls; the boundary arithmetic of this module",
               "all times are multiples of 1/16 s, intervals multiples of 1/8 s: float arithmetic in LoopingCall is exact"]
SHARDS = {"quick": 4, "thorough": 16}
FLOORS = {"calls": 5000, "cadence_checks": 3000, "count_sum_checks": 1000, "counts_gt_1": 200, "deferred_awaited": 500,
          "final_by_stop": 300, "final_by_failure": 300, "stop_inside_call": 50, "stop_while_outstanding": 50,
          "resets": 100, "post_final_advances": 500, "exact_boundary_advances": 200,
          "restarts_at_top_level": 200, "restarts_from_deferred_callback": 200, "restarts_inside_call": 10, "blocking_calls": 500, "resets_while_call_in_flight": 300,
          "resets_inside_call": 300, "failures_returned_as_failure_object": 200}
READY = True
U = 16
MAX_CALLS = 300  # per case; legitimate cases make at most one call per advance (< 80)


class Boom(Exception):
    pass


def gen_case(rng):
    iv8 = rng.choice([1, 2, 3, 4, 5, 7, 8, 8, 12, 16, 24, 40, 64, 100, 512]) if rng.random() < 0.8 else rng.randrange(1, 513)
    iv = iv8 * 2  # ticks
    case = {"interval8": iv8, "t0": rng.randrange(0, 2000), "now": rng.random() < 0.5, "withCount": rng.random() < 0.5}
    fail_p = rng.choice([0.0, 0.0, 0.02, 0.1])
    beh = []
    for _ in range(rng.randrange(0, 30)):
        r = rng.random()
        ok = rng.random() >= fail_p * 2
        if r < 0.45:
            b = ["ret"]
        elif r < 0.45 + fail_p:
            b = ["raise"]
        elif r < 0.70:
            b = ["dman", ok]
        elif r < 0.88:
            lat = rng.choice([0, 1, iv // 2, iv - 1, iv, iv + 1, 2 * iv, 3 * iv + rng.randrange(iv), rng.randrange(1, 4 * iv + 1)])
            b = ["dclk", ok, max(0, lat)]
        elif r < 0.93:
            b = ["dnow", ok]
        elif r < 0.93 + fail_p / 2:
            b = ["retfail"]  # the function reports its error by returning a Failure object instead of raising
        else:
            b = ["ret"]
        if b[0] in ("ret", "raise") and rng.random() < 0.08:
            # the function itself takes time: the clock moves on while it runs (it "blocks", possibly across boundaries)
            b.append(["block", rng.choice([1, iv // 2 or 1, iv, iv + 1, 2 * iv + rng.randrange(iv), rng.randrange(1, 5 * iv)])])
        if rng.random() < 0.05:
            b.append("reset")  # reset() from inside the function, before it returns (no call is scheduled then: no effect)
        if rng.random() < 0.03:
            b.append("stop")
            if rng.random() < 0.35 and (b[0] == "ret" or (b[0] == "dnow" and b[1])):
                # stop() and start() again from inside the looped function.  Only for calls that return at once
                # without failing (a call still in flight next to a new run overlaps by the caller's own doing, and
                # which run a later failure of it would end is unspecified); now=False (now=True would re-enter it)
                b.append(["restart", rng.choice([1, 2, 3, 8, 16, 40])])
        beh.append(b)
    case["behaviours"] = beh
    steps = []
    for _ in range(rng.randrange(5, 60)):
        r = rng.random()
        if r < 0.62:
            m = rng.random()
            if m < 0.35:
                a = rng.randrange(1, iv) if iv > 1 else 1
            elif m < 0.55:
                a = iv * rng.randrange(1, 4)
            elif m < 0.60:
                a = -1  # advance exactly to the expected boundary (resolved at run time)
            elif m < 0.90:
                a = iv * rng.randrange(1, 12) + rng.randrange(0, iv)
            elif m < 0.95:
                a = 0
            else:
                a = iv * rng.randrange(20, 200) + rng.randrange(0, iv)
            steps.append(["adv", a])
        elif r < 0.90:
            steps.append(["fire", rng.random() >= fail_p * 2])
        elif r < 0.965:
            steps.append(["reset"])
        elif r < 0.98:
            steps.append(["stop"])
        else:
            steps.append(["restart", rng.choice([1, 2, 3, 5, 8, 16, 40, 64]), rng.random() < 0.5])  # start() again after the loop ended
    case["steps"] = steps
    # start() again from a callback of the Deferred the previous start() returned
    case["restart_in_callback"] = [[rng.choice([1, 2, 3, 5, 8, 16, 40]), rng.random() < 0.5] for _ in range(rng.choice([1, 1, 2]))] \
        if rng.random() < 0.25 else []
    return case


class Monitor:
    def __init__(self, ctx, case):
        from twisted.internet import task

        self.ctx, self.case = ctx, case
        self.iv = case["interval8"] * 2
        self.clock = task.Clock()
        self.now = 0
        self.events = []
        self.bad = False
        self.stats = {}
        self.calls = []
        self.sumcount = 0
        self.inflight = None
        self.expected_B = None
        self.running = False
        self.final = None  # None | ("lc",) | ("fail", exc)
        self.fired = []
        self.in_start = self.in_adv = False
        self.prev_now = 0
        self.reset_used = False
        self.cur_now = case["now"]
        self.run_index = 0
        self.run_first_idx = 0
        self.old_runs = []  # [(fired list, final)] of earlier start()s: each must have fired exactly once, for good
        self.cb_restarts = list(case.get("restart_in_callback", ()))
        self.restarted_inside = False
        self.returned_failure = False
        self.lc = task.LoopingCall.withCount(self.f) if case["withCount"] else task.LoopingCall(self.f)
        self.lc.clock = self.clock
        self.n_timers = 0
        real_callLater = self.clock.callLater

        def callLater(*a, **kw):  # bounds a broken loop that keeps re-scheduling itself without the clock moving
            self.n_timers += 1
            if self.n_timers > 2 * MAX_CALLS:
                self.fail("runaway-calls", "more than %d timers scheduled in one case" % (2 * MAX_CALLS))
                raise Boom("abort")
            return real_callLater(*a, **kw)

        self.clock.callLater = callLater

    def stat(self, k, n=1):
        self.stats[k] = self.stats.get(k, 0) + n

    def fail(self, key, what, **extra):
        if self.bad:
            return
        self.bad = True
        if self.restarted_inside:
            # causal signature: stop()+start() were called from inside the running function
            what, key = "after stop()+start() from inside the looped function: [%s] %s" % (key, what), "restart-inside-call-breaks-loop"
        elif self.returned_failure and key in ("start-deferred-not-fired-once", "start-deferred-wrong-result", "call-after-stop"):
            # causal signature: the run in question ended by the function returning a Failure object
            what, key = "the looped function returned a Failure object: [%s] %s" % (key, what), "returned-failure-object-not-a-failure"
        elif self.run_index > 0 and self.case["withCount"] and key in ("first-call-time", "count-sum-mismatch", "count-not-positive"):
            # causal signature: a withCount loop was started again and the count of the new run is off
            what, key = "withCount loop started again: [%s] %s" % (key, what), "withcount-restart-stale-last-time"
        w = {"case": self.case, "events": self.events[-50:], "start_ticks": getattr(self, "start", None), "interval_ticks": self.iv}
        w.update(extra)
        self.ctx.violation(key, what, w)

    def next_boundary(self, c):
        return self.start + ((c - self.start) // self.iv + 1) * self.iv

    # ---- the monitored user function
    def f(self, count=None):
        from twisted.internet import defer

        t = self.clock.seconds()
        idx = len(self.calls)
        self.calls.append((self.now, count))
        self.events.append(("call", idx, self.now, count))
        self.stat("calls")
        beh = self.case["behaviours"][idx] if idx < len(self.case["behaviours"]) else ["ret"]
        if not self.bad:
            self.check_call(t, idx, count)
        if idx > MAX_CALLS and not self.bad:
            self.fail("runaway-calls", "more than %d calls in one case (loop re-fires without the clock moving?)" % MAX_CALLS)
        if self.bad:
            raise Boom("abort")  # a failing function ends the loop: bounds a broken implementation that re-fires forever
        self.expected_B = None
        for x in beh[1:]:
            if isinstance(x, list) and x[0] == "block" and not self.bad:
                self.stat("blocking_calls")
                self.events.append(("blocks", idx, x[1]))
                self.now += x[1]
                self.clock.advance(x[1] / U)  # completion time of this call is the time after blocking
        if "reset" in beh[1:] and self.running and not self.bad:
            self.stat("resets_inside_call")
            self.events.append(("reset-inside", idx))
            try:
                self.lc.reset()  # model: nothing changes, the next call is scheduled from this call's completion as usual
            except BaseException as e:  # noqa: BLE001
                self.fail("unexpected-exception", "reset() inside the function raised %s: %s" % (type(e).__name__, e))
        if "stop" in beh[1:] and self.running and not self.bad:
            self.stat("stop_inside_call")
            self.events.append(("stop-inside", idx))
            self.running = False
            self.final = ("lc",)
            try:
                self.lc.stop()
            except BaseException as e:  # noqa: BLE001
                self.fail("unexpected-exception", "stop() inside the function raised %s: %s" % (type(e).__name__, e))
            rs = [x for x in beh[1:] if isinstance(x, list) and x[0] == "restart"]
            if rs and self.run_index < 4 and not self.bad:
                self.stat("restarts_inside_call")
                self.restarted_inside = True
                try:
                    self.do_restart(rs[0][1], False, "inside-call")
                except BaseException as e:  # noqa: BLE001
                    self.fail("unexpected-exception", "start() inside the function raised %s: %s" % (type(e).__name__, e))
        kind = beh[0]
        if kind in ("raise", "retfail") or (kind == "dnow" and not beh[1]):
            exc = Boom(idx)
            self.running = False
            self.final = ("fail", exc)
            self.events.append(("fails", idx, kind))
            if kind == "raise":
                raise exc
            if kind == "retfail":
                from twisted.python.failure import Failure

                self.stat("failures_returned_as_failure_object")
                self.returned_failure = True
                if idx % 2:
                    return Failure(exc)
                try:
                    raise exc
                except Boom:
                    return Failure()  # the usual idiom: "except: return Failure()"
            return defer.fail(exc)
        if kind in ("dman", "dclk"):
            d = defer.Deferred()
            self.inflight = d
            self.expected_B = None
            self.stat("deferred_awaited")
            if kind == "dclk":
                self.clock.callLater(beh[2] / U, self.fire, beh[1], "clk")
            return d
        self.complete_ok()
        return defer.succeed(None) if kind == "dnow" else None

    def check_call(self, t, idx, count):
        if t * U != self.now:
            return self.fail("call-sees-wrong-time", "seconds() inside the call is %r, clock should be at %s/16" % (t, self.now))
        if self.inflight is not None:
            return self.fail("overlap", "function called while the previous call's Deferred is unfired", call=idx)
        if not self.running:
            return self.fail("call-after-stop", "function called after stop()/failure", call=idx, final=repr(self.final))
        if self.in_start:
            if not self.cur_now or idx != self.run_first_idx:
                return self.fail("first-call-time", "function called inside start() although now=False", call=idx)
        else:
            B = self.expected_B
            if not self.in_adv:
                return self.fail("call-outside-advance", "function called outside Clock.advance()", call=idx)
            if B is None:
                return self.fail("call-not-expected", "function called with no boundary pending in the model", call=idx)
            if self.now < B:
                return self.fail("called-early", "call %d at %s/16, before the boundary %s/16" % (idx, self.now, B), call=idx, boundary=B)
            if self.prev_now >= B:
                return self.fail("called-late", "call %d at %s/16, boundary %s/16 was reached by an earlier advance" % (idx, self.now, B),
                                 call=idx, boundary=B)
            self.stat("cadence_checks")
            if self.now == B:
                self.stat("calls_exactly_on_boundary")
        if self.case["withCount"]:
            if not isinstance(count, int) or count < 1:
                return self.fail("count-not-positive", "count argument %r" % (count,), call=idx)
            self.sumcount += count
            if count > 1:
                self.stat("counts_gt_1")
            if not self.reset_used:
                want = (self.now - self.start) // self.iv + (1 if self.cur_now else 0)
                if self.sumcount != want:
                    return self.fail("count-sum-mismatch", "sum of counts %d != boundaries elapsed %d at call %d"
                                     % (self.sumcount, want, idx), call=idx, counts=[c for _, c in self.calls[self.run_first_idx:]])
                self.stat("count_sum_checks")
        elif count is not None:
            return self.fail("count-not-positive", "plain LoopingCall passed an argument %r" % (count,), call=idx)

    def complete_ok(self):
        if self.running:
            self.expected_B = self.next_boundary(self.now)

    def fire(self, ok, how="man"):
        d = self.inflight
        if d is None:
            return
        self.inflight = None
        self.events.append(("fire", ok, how, self.now))
        if ok:
            if self.running:
                self.complete_ok()
            else:
                self.final = ("lc",)
            d.callback(None)
        else:
            exc = Boom("deferred")
            self.running = False
            self.final = ("fail", exc)
            d.errback(exc)

    # ---- harness operations
    def guarded(self, name, fn, *a):
        try:
            fn(*a)
        except BaseException as e:  # noqa: BLE001
            if isinstance(e, KeyboardInterrupt):
                raise
            self.fail("unexpected-exception", "%s raised %s: %s" % (name, type(e).__name__, e))
        self.check_final(name)

    def check_final(self, after):
        if self.bad:
            return
        from twisted.python.failure import Failure as _F

        for n, (fired, final) in enumerate(self.old_runs):
            ok = len(fired) == 1 and (fired[0] is self.lc if final[0] == "lc" else isinstance(fired[0], _F) and fired[0].value is final[1])
            if not ok:
                return self.fail("start-deferred-not-fired-once", "the Deferred of start() number %d (loop ended: %r) has fired %d times "
                                 "after %s: %r" % (n, final, len(fired), after, fired), final=repr(final))
        if self.final is None or self.inflight is not None:
            if self.fired:
                self.fail("start-deferred-fired-early", "start()'s Deferred fired although the loop is neither stopped nor failed",
                          after=after, fired=repr(self.fired))
            return
        if len(self.fired) != 1:
            return self.fail("start-deferred-not-fired-once", "start()'s Deferred fired %d times after %s" % (len(self.fired), after),
                             final=repr(self.final), fired=repr(self.fired))
        r = self.fired[0]
        from twisted.python.failure import Failure

        if self.final[0] == "lc":
            if r is not self.lc:
                return self.fail("start-deferred-wrong-result", "after stop() start()'s Deferred fired with %r, not the LoopingCall" % (r,),
                                 got=repr(r))
        elif not (isinstance(r, Failure) and r.value is self.final[1]):
            return self.fail("start-deferred-wrong-result", "after a failure start()'s Deferred fired with %r" % (r,),
                             got=repr(r), expected=repr(self.final[1]))
        self.stat("final_checks")

    def advance(self, a):
        self.prev_now = self.now
        self.now += a
        self.in_adv = True
        self.events.append(("adv", a, self.now))
        try:
            self.clock.advance(a / U)
        finally:
            self.in_adv = False
        if self.expected_B is not None and self.expected_B <= self.now and not self.bad:
            self.fail("missed-boundary", "advance ended at %s/16 >= boundary %s/16 without a call" % (self.now, self.expected_B),
                      boundary=self.expected_B)
        if self.final is not None and self.inflight is None:
            self.stat("post_final_advances")

    def do_start(self):
        self.begin_run(self.iv, self.case["now"])

    def begin_run(self, iv, now):
        self.iv, self.cur_now = iv, now
        was_in_start, self.in_start = self.in_start, True
        self.running = True
        self.start = self.now
        first = self.run_first_idx = len(self.calls)
        self.expected_B = None if now else self.start + self.iv
        fired = self.fired
        try:
            d = self.lc.start(self.iv / U, now=now)
        finally:
            self.in_start = was_in_start
        if now and len(self.calls) == first and not self.bad:
            self.fail("first-call-time", "now=True but the function was not called inside start()")
        d.addBoth(self.on_start_deferred, fired)  # (may fire at once and start the loop again from the callback)

    def on_start_deferred(self, result, fired):
        fired.append(result)
        if fired is self.fired and self.cb_restarts and self.run_index < 4 and not self.bad and self.final is not None \
                and self.inflight is None and not self.restarted_inside:
            iv8, now = self.cb_restarts.pop(0)
            self.stat("restarts_from_deferred_callback")
            self.do_restart(iv8, now, "callback")

    def do_restart(self, iv8, now, where):
        """start() again: the previous run's Deferred stays under observation, a new run of the property begins."""
        self.events.append(("restart", where, iv8, now, self.now))
        self.old_runs.append((self.fired, self.final if self.final is not None else ("lc",)))
        self.fired = []
        self.final = None
        self.run_index += 1
        self.reset_used = False
        self.returned_failure = False
        self.sumcount = 0
        self.stat("restarts")
        self.begin_run(iv8 * 2, now)

    def run(self):
        c = self.case
        if c["t0"]:
            self.advance(c["t0"])
        self.guarded("start", self.do_start)
        for s in c["steps"]:
            if self.bad:
                break
            self.step(s)
        # drain: complete what is outstanding, let it run a little, stop, then make sure nothing runs any more
        if not self.bad and self.inflight is not None:
            self.guarded("fire", self.fire, True)
        if not self.bad and self.running:
            self.guarded("advance", self.advance, 2 * self.iv + 1)
        if not self.bad and self.inflight is not None:
            self.guarded("fire", self.fire, True)
        for _ in range(6):  # (a callback of start()'s Deferred may start the loop again)
            if not self.bad and self.inflight is not None:
                self.guarded("fire", self.fire, True)
            if not self.bad and self.running:
                self.step(["stop"])
        for a in (1, self.iv, 3 * self.iv + 1):
            if not self.bad:
                self.guarded("advance", self.advance, a)
        if not self.bad and self.final is None:
            self.fail("harness-did-not-finish", "model not final after drain")
        return self

    def step(self, s):
        k = s[0]
        if k == "adv":
            a = s[1]
            if a < 0:
                if self.expected_B is None:
                    return
                a = self.expected_B - self.now
                self.stat("exact_boundary_advances")
            self.guarded("advance", self.advance, a)
        elif k == "fire":
            if self.inflight is not None:
                self.guarded("fire", self.fire, s[1])
        elif k == "stop":
            if not self.running:
                return
            self.running = False
            self.events.append(("stop", self.now))
            if self.inflight is None:
                self.final = ("lc",)
                self.expected_B = None
            else:
                self.stat("stop_while_outstanding")
            self.guarded("stop", self.lc.stop)
        elif k == "restart":
            if self.final is None or self.inflight is not None or self.run_index >= 4:
                return
            self.stat("restarts_at_top_level")
            self.guarded("restart", self.do_restart, s[1], s[2], "top")
        elif k == "reset":
            if self.running and self.inflight is not None:
                # reset() while the function's Deferred is unfired: no call is scheduled, so it has no effect on the
                # running call; the next call is scheduled from the call's completion as usual (model unchanged)
                self.events.append(("reset-in-flight", self.now))
                self.stat("resets_while_call_in_flight")
                return self.guarded("reset", self.lc.reset)
            if not self.running or self.inflight is not None or self.expected_B is None:
                return
            self.events.append(("reset", self.now))
            self.start = self.now
            self.expected_B = self.now + self.iv
            self.reset_used = True
            self.stat("resets")
            self.guarded("reset", self.lc.reset)

    def nontrivial(self):
        s = self.stats
        return len(self.calls) >= 2 and (s.get("counts_gt_1", 0) + s.get("deferred_awaited", 0) + s.get("resets", 0)
                                         + s.get("post_final_advances", 0)) >= 1


def run_case(ctx, case, cap=None):
    n0 = len(cap.events) if cap is not None else 0
    m = Monitor(ctx, case).run()
    for k, v in m.stats.items():
        ctx.count(k, v)
    if m.final is not None and not m.bad:
        ctx.count("final_by_stop" if m.final[0] == "lc" else "final_by_failure")
    ctx.evaluated()
    if m.nontrivial():
        ctx.distinct(repr(case))
    if cap is not None and len(cap.events) > n0:
        fl = [e for e in cap.events[n0:] if e.get("log_failure") is not None]
        if fl and not m.bad:
            f = fl[0]["log_failure"]
            m.fail("logged-failure", "a failure was logged during the case: %s: %s" % (getattr(f.type, "__name__", "?"), f.getErrorMessage()[:200]))
    return m


def run(ctx):
    from vf.engines.logcap import LogCapture

    with LogCapture() as cap:
        for n, i in enumerate(ctx.cases(20000, 1000000)):
            case = gen_case(ctx.case_rng("case", i))
            m = run_case(ctx, case, cap)
            if i < 2 * ctx.nshards:
                ctx.sample({"case": case, "events": m.events[:40]})
            del m
            if n % 100 == 99:
                gc.collect()
                fl = [e for e in cap.events if e.get("log_failure") is not None]
                if fl:
                    f = fl[0]["log_failure"]
                    ctx.violation("logged-failure-late", "a failure was logged (found at GC) during the last 100 cases: %s"
                                  % f.getErrorMessage()[:200], {"around_case_index": i, "traceback": f.getTraceback()[-1500:]})
                del cap.events[:]


def replay(ctx, w):
    run_case(ctx, w["witness"]["case"])
