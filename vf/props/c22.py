"""C22 Chunked transfer coding: round trip over generated encodings/splits, rejection of malformed input.

Monitored: twisted.web.http._ChunkedTransferDecoder alone (dataCallback / finishCallback / exceptions
/ noMoreData recorded) and http.toChunk as encoder.  The harness behaves like HTTPChannel: once
finishCallback ran it stops feeding the decoder and keeps the remaining bytes itself.

Oracle: the spec-derived reference reader vf.engines.refchunked (RFC 9112 7.1) classifies every
byte string:
  must-accept  complete, grammatical, size lines <= 1023 bytes, trailers <= 65536 bytes, no
               backslash in extensions -> body == reference body, finishCallback exactly once,
               finish argument + undelivered remainder == reference extra bytes, noMoreData silent,
               later dataReceived refused with RuntimeError; for the whole delivery and every split;
  must-reject  first malformed element is a size token that is not 1*HEXDIG, chunk-data not followed
               by CRLF, or an extension containing CTL/DEL/backslash (the decoder's documented
               character set) -> _MalformedChunkedDataError, no finish, only a prefix of the body;
  incomplete   bytes ran out -> no finish, noMoreData raises _DataLoss (or the decoder already
               raised _MalformedChunkedDataError), only a prefix of the body delivered;
  don't-care   everything else (extension bytes allowed but not matching the ABNF, BWS before the
               first ';', malformed trailer fields, size line >= 1024 bytes, trailers > 65536 bytes):
               executed and counted, never judged.
Guards: chunking of dataCallback is not compared (concatenation only); for malformed/incomplete
input eager delivery is not required (prefix check); the exception message is used only to name
the mechanism of a violation, never to decide one.
"""
from vf.engines import refchunked
from vf.engines.netsim import random_split

LEVEL = "exploration"
ENGINE = "E2-netsim"
TECHNIQUE = "runtime monitoring: round trip against an RFC 9112 reference reader, whole-vs-split delivery"
RULE = ("random chunk lists (1..5 chunks, sizes around 1/15/16/17/255/256, data biased to CR/LF/';'/hex) "
        "encoded by toChunk or by the harness encoder (hex case and leading zeros, extensions ;n ;n=t "
        ";n=\"q\" with BWS, last-chunk variants, trailer fields) followed by extra bytes; size lines "
        "of 1021..1025 bytes and trailer sections of 65534..65537 bytes; byte-level and targeted "
        "mutations classified by the reference; every 1-cut split <= 260 bytes, every 2-cut split <= 44 "
        "bytes, cuts around every CRLF and random splits otherwise; the limit cases (size line as extensions or as leading "
        "zeros, 1..2000 trailer lines) are cut at every offset (size line) / every offset of head and tail + samples (trailers).  A case is distinct by its byte "
        "string; non-trivial = it has chunk data, extra bytes or is a mutation.")
ASSUMPTIONS = ["trusted base: vf/engines/refchunked.py (selftested against hand-written vectors)",
               "documented limits read as: size line (without CRLF) < 1024 bytes, trailer lines incl. their CRLFs <= 65536 bytes",
               "backslash in a chunk extension is treated as must-reject because the decoder documents its allowed character set without it (twisted test_extensionsMalformed)"]
SHARDS = {"quick": 4, "thorough": 16}
FLOORS = {"decoder_runs": 20000, "must_accept_runs": 10000, "must_reject_runs": 2000, "incomplete_runs": 2000,
          "reject_size_not_hex": 200, "reject_data_not_crlf": 200, "reject_ext_byte": 200,
          "tochunk_streams": 100, "extra_bytes_streams": 200, "trailer_streams": 100, "late_data_refused": 100,
          "trailer_limit_streams": 8, "sizeline_limit_streams": 8, "final_crlf_split_at_limit": 4, "limit_case_split_runs": 5000}
READY = True

MAX_LINE = 1023
MAX_TRAILERS = 65536
TOKEN = b"abcXYZ019!#$%&'*+-.^_`|~"
QD = bytes([9, 32, 0x21]) + bytes(range(0x23, 0x5C)) + bytes(range(0x5D, 0x7F)) + bytes(range(0x80, 0x100))
DATA_BIASED = b"\r\n;0aF \x00\xff"


def _tok(rng, n=None):
    return bytes(rng.choice(TOKEN) for _ in range(n or rng.randint(1, 5)))


def gen_ext(rng, target_len=None):
    """One or more grammatical chunk extensions without backslash; optionally padded to a total length."""
    out = []
    for _ in range(rng.randint(1, 3)):
        bws = rng.random() < 0.2
        sp = (lambda: rng.choice([b" ", b"\t", b"  "])) if bws else (lambda: b"")
        e = b";" + sp() + _tok(rng)
        r = rng.random()
        if r < 0.35:
            e += sp() + b"=" + sp() + _tok(rng)
        elif r < 0.7:
            e += sp() + b"=" + sp() + b'"' + bytes(rng.choice(QD) for _ in range(rng.randint(0, 6))) + b'"'
        out.append(e)
    ext = b"".join(out)
    if target_len is not None:
        if len(ext) + 2 > target_len:
            ext = b""
        pad = target_len - len(ext) - 2
        if pad >= 0:
            ext += b";p" + b"x" * pad
    return ext


def hexsize(rng, n):
    s = b"%x" % n
    r = rng.random()
    if r < 0.3:
        s = s.upper()
    elif r < 0.45:
        s = bytes(c - 32 if 97 <= c <= 102 and rng.random() < 0.5 else c for c in s)
    if rng.random() < 0.25:
        s = b"0" * rng.choice([1, 2, 3, 8]) + s
    return s


def gen_chunks(rng):
    n = rng.choice([0, 1, 1, 2, 2, 3, 4, 5])
    chunks = []
    for _ in range(n):
        size = rng.choice([1, 2, 3, 9, 10, 15, 16, 17]) if rng.random() < 0.8 else rng.choice([255, 256, 31, 32, rng.randint(1, 60)])
        alpha = DATA_BIASED if rng.random() < 0.6 else bytes(range(256))
        chunks.append(bytes(rng.choice(alpha) for _ in range(size)))
    return chunks


def gen_extra(rng):
    r = rng.random()
    if r < 0.4:
        return b""
    if r < 0.55:
        return rng.choice([b"GET / HTTP/1.1\r\n", b"0\r\n\r\n", b"\r\n", b"\r", b"\n", b"5\r\nhello\r\n0\r\n\r\n", b"\x00"])
    return bytes(rng.choice(DATA_BIASED + b"xyz") for _ in range(rng.randint(1, 12)))


def gen_trailers(rng):
    out = []
    for _ in range(rng.randint(1, 3)):
        v = bytes(rng.choice(b"abc ,;=\t\"\xe9:") for _ in range(rng.randint(0, 8)))
        out.append(b"X-" + _tok(rng) + b":" + rng.choice([b"", b" "]) + v)
    return out


def gen_valid(rng, http):
    """-> (encoding bytes, meta)"""
    chunks = gen_chunks(rng)
    meta = {"mode": "harness"}
    r = rng.random()
    if r < 0.2:
        meta["mode"] = "toChunk"
        enc = b"".join(b"".join(http.toChunk(c)) for c in chunks) + b"0\r\n\r\n"
    else:
        exts = [gen_ext(rng) if rng.random() < 0.35 else b"" for _ in chunks]
        sizes = [hexsize(rng, len(c)) for c in chunks]
        last = rng.choice([b"0", b"0", b"0", b"00", b"0000000"])
        last_ext = gen_ext(rng) if rng.random() < 0.2 else b""
        trailers = gen_trailers(rng) if rng.random() < 0.3 else []
        enc = refchunked.encode(chunks, exts=exts, last_ext=last_ext, trailers=trailers, sizes=sizes, last_size=last)
    extra = gen_extra(rng)
    meta["body"] = b"".join(chunks)
    meta["extra"] = extra
    return enc + extra, meta


def gen_limit_line(rng):
    """A size line (without CRLF) of 1021..1025 bytes, on a data chunk or on the last chunk."""
    L = rng.choice([1021, 1022, 1023, 1023, 1024, 1025])
    data = b"hello"
    r = rng.random()
    if r < 0.35:
        line = b"5" + gen_ext(rng, L - 1)
        enc = line + b"\r\n" + data + b"\r\n0\r\n\r\n"
    elif r < 0.7:
        line = b"0" + gen_ext(rng, L - 1)
        enc = b"5\r\n" + data + b"\r\n" + line + b"\r\n\r\n"
    elif r < 0.85:  # the whole line is the size: leading zeros up to the limit
        line = b"0" * (L - 1) + b"5"
        enc = line + b"\r\n" + data + b"\r\n0\r\n\r\n"
    else:
        line = b"0" * L
        enc = b"5\r\n" + data + b"\r\n" + line + b"\r\n\r\n"
    assert len(line) == L, (len(line), L)
    return enc + gen_extra(rng), {"mode": "limit-line", "line": L, "body": data}


def gen_limit_trailers(rng):
    """Trailer section (lines incl. CRLFs) of 65534..65537 bytes, as one or several field lines."""
    T = rng.choice([65534, 65535, 65536, 65535, 65536, 65537])
    lines = []
    left = T
    nlines = rng.choice([1, 1, 2, 5, 2000])
    for k in range(nlines):
        size = left if k == nlines - 1 else (rng.randint(6, 40) if nlines > 100 else rng.randint(6, max(6, left // 2)))
        if left - size < 6 and k != nlines - 1:
            size = left
        lines.append(b"X-T:" + b"v" * (size - 6))
        left -= size
        if left == 0:
            break
    assert sum(len(l) + 2 for l in lines) == T
    enc = b"3\r\nabc\r\n0\r\n" + b"".join(l + b"\r\n" for l in lines) + b"\r\n"
    return enc + gen_extra(rng), {"mode": "limit-trailers", "trailer_bytes": T, "body": b"abc"}


BAD_SIZES = [b"0x5", b"+5", b"-5", b" 5", b"5 ", b"", b"5g", b"g", b"5_0", b"\t5", b"5\n", b"0X5", b"5.", b"\xef\xbc\x95", b"1e1x", b"5\r", b"5h"]
BAD_ENDS = [b"\n\r", b"\r\r", b"\n\n", b"xx", b"\r\x00", b"\x00\n", b"\r ", b" \n", b"0\r"]
BAD_EXT_BYTES = [0, 1, 8, 10, 11, 12, 13, 14, 27, 31, 127, 0x5C]


def gen_targeted(rng, http):
    """A valid harness encoding with one targeted defect that the statement says must be rejected."""
    chunks = gen_chunks(rng) or [b"hello"]
    k = rng.randrange(len(chunks))
    exts = [gen_ext(rng) if rng.random() < 0.3 else b"" for _ in chunks]
    sizes = [b"%x" % len(c) for c in chunks]
    parts = []
    kind = rng.choice(["size", "end", "ext"])
    for i, c in enumerate(chunks):
        size, ext, end = sizes[i], exts[i], b"\r\n"
        if i == k:
            if kind == "size":
                bad = rng.choice(BAD_SIZES)
                size = bad if rng.random() < 0.5 else bad.replace(b"5", sizes[i])
            elif kind == "end":
                end = rng.choice(BAD_ENDS)
            else:
                ext = ext or b";a=b"
                pos = rng.randint(1, len(ext))
                ext = ext[:pos] + bytes([rng.choice(BAD_EXT_BYTES)]) + ext[pos:]
        parts += [size, ext, b"\r\n", c, end]
    parts += [b"0\r\n\r\n"]
    return b"".join(parts) + gen_extra(rng), {"mode": "targeted-" + kind}


MUT_BYTES = b"\r\n;g0 \x00\x7f\\\"x+-=:\t"


def mutate(rng, enc):
    n = len(enc)
    pos = rng.randrange(n)
    r = rng.random()
    if r < 0.6:
        return enc[:pos] + bytes([rng.choice(MUT_BYTES)]) + enc[pos + 1:]
    if r < 0.8:
        return enc[:pos] + enc[pos + 1:]
    return enc[:pos] + bytes([rng.choice(MUT_BYTES)]) + enc[pos:]


# ------------------------------------------------------------------------------------------------
def classify_stream(r):
    if r.ext_backslash is not None:
        return "must-reject"
    if r.status == "complete":
        if r.max_size_line <= MAX_LINE and r.trailer_bytes <= MAX_TRAILERS:
            return "must-accept"
        return "dont-care"
    if r.status == "incomplete":
        return "incomplete"
    if r.error in ("size-not-hex", "ext-ctl", "data-not-crlf"):
        return "must-reject"
    return "dont-care"


def run_decoder(http, pieces, probe_late=False):
    """-> dict(kind=finished|malformed|open|exception, body, extra, nfin, dataloss, msg, late)"""
    data, fin = [], []
    d = http._ChunkedTransferDecoder(data.append, fin.append)
    kind, msg = "open", None
    rest_from = len(pieces)
    for k, piece in enumerate(pieces):
        try:
            d.dataReceived(piece)
        except http._MalformedChunkedDataError as e:
            kind, msg = "malformed", str(e)
            break
        except Exception as e:
            kind, msg = "exception", "%s: %s" % (type(e).__name__, e)
            break
        if fin:
            kind = "finished"
            rest_from = k + 1
            break
    out = {"kind": kind, "msg": msg, "body": b"".join(data), "nfin": len(fin), "late": None}
    out["extra"] = (fin[0] if fin else b"") + b"".join(pieces[rest_from:])
    try:
        d.noMoreData()
        out["dataloss"] = False
    except http._DataLoss:
        out["dataloss"] = True
    if probe_late and kind == "finished":
        try:
            d.dataReceived(b"x")
            out["late"] = "accepted"
        except RuntimeError:
            out["late"] = "refused"
        except Exception as e:
            out["late"] = type(e).__name__
        out["nfin"] = len(fin)
        out["body"] = b"".join(data)
    return out


def judge(cls, r, o):
    """-> None or (key, what)"""
    if o["kind"] == "exception":
        return "decoder-raises-unexpected-exception", "the decoder raised %s" % (o["msg"],)
    if cls == "must-accept":
        if o["kind"] == "malformed":
            return "valid-encoding-rejected", "a valid encoding within the documented limits was rejected: %s" % (o["msg"],)
        if o["kind"] != "finished" or o["nfin"] != 1:
            return "completion-not-signalled-once", "finishCallback ran %d times for a complete encoding" % o["nfin"]
        if o["body"] != r.body:
            return "body-mismatch", "delivered body differs from the encoded chunks"
        if o["extra"] != r.extra:
            return "extra-bytes-mismatch", "finish argument (+ bytes never fed) differs from the bytes after the final CRLF"
        if o["dataloss"]:
            return "dataloss-after-completion", "noMoreData raised _DataLoss after completion"
        if o["late"] not in (None, "refused"):
            return "late-data-not-refused", "dataReceived after completion: %s" % o["late"]
        return None
    if o["nfin"]:
        return ("malformed-accepted-" + (r.error or "ext-backslash")) if cls == "must-reject" else "incomplete-stream-finished", \
            "finishCallback ran although the stream is %s" % ("malformed (%s)" % (r.error or "backslash in extension") if cls == "must-reject" else "incomplete")
    if not r.body.startswith(o["body"]):
        return "wrong-bytes-before-error", "bytes delivered before the error/end are not a prefix of the decodable body"
    if cls == "must-reject":
        if o["kind"] != "malformed":
            return "malformed-accepted-" + (r.error or "ext-backslash"), "no _MalformedChunkedDataError for a stream whose first defect is %s" % (r.error or "a backslash in an extension")
        return None
    # incomplete
    if o["kind"] == "open" and not o["dataloss"]:
        return "dataloss-not-reported", "noMoreData did not raise _DataLoss although the last chunk was not complete"
    return None


def cuts_for(rng, enc, quick, dense=False):
    n = len(enc)
    seen = set()
    if dense and n > 260:
        # limit cases: every offset of a ~1 KiB size-line encoding; for the 64 KiB trailer encodings every
        # offset in the structural head and tail plus a sample of the middle
        if n <= 1300:
            positions = range(1, n)
        else:
            end = enc.rfind(b"\r\n\r\n") + 4
            positions = sorted(set(list(range(1, 40)) + list(range(max(1, end - 60), min(n, end + 8))) + [rng.randrange(1, n) for _ in range(120)]))
        for p in positions:
            if 0 < p < n and (p,) not in seen:
                seen.add((p,))
                yield (p,)

    def emit(c):
        c = tuple(c)
        if c in seen or not c:
            return None
        seen.add(c)
        return c

    if n <= 260:
        for p in range(1, n):
            yield emit((p,))
    if n <= (36 if quick else 44):
        for a in range(1, n):
            for b in range(a + 1, n):
                yield emit((a, b))
    else:
        offs = set()
        j = enc.find(b"\r\n")
        while j >= 0 and len(offs) < 80:
            offs.update((j, j + 1, j + 2))
            j = enc.find(b"\r\n", j + 1)
        offs.update((1, n - 1))
        offs = sorted(o for o in offs if 0 < o < n)
        if n > 260:
            for p in offs:
                yield emit((p,))
        pairs = [(a, b) for i, a in enumerate(offs) for b in offs[i + 1:]]
        if len(pairs) > 60:
            pairs = rng.sample(pairs, 60)
        for pr in pairs:
            yield emit(pr)
    for _ in range(4):
        if n > 3000:  # long streams: a handful of random cuts (byte-wise delivery would be quadratic)
            yield emit(sorted(set(rng.randrange(1, n) for _ in range(rng.randint(1, 6)))))
            continue
        pieces = random_split(rng, enc, 32)
        pos, acc = [], 0
        for pc in pieces[:-1]:
            acc += len(pc)
            pos.append(acc)
        yield emit(pos)


def cut_pieces(enc, cuts):
    prev, out = 0, []
    for c in cuts:
        out.append(enc[prev:c])
        prev = c
    out.append(enc[prev:])
    return out


def witness(enc, cuts, cls, r, o, whole=None, meta=None):
    w = {"stream_hex": enc.hex(), "stream": enc, "cuts": list(cuts), "class": cls, "reference": repr(r),
         "expected_body": r.body, "expected_extra": r.extra if r.status == "complete" else None,
         "observed": o}
    if whole is not None:
        w["observed_whole_delivery"] = {k: whole[k] for k in ("kind", "msg", "nfin", "dataloss")}
    if meta:
        w["generator"] = meta.get("mode")
    return w


def refine_key(key, enc, cuts, r, o, whole):
    """Narrow mechanism key for the known trailer-limit defect; everything else keeps its key."""
    if (key == "valid-encoding-rejected" and r.status == "complete" and whole is not None and whole["kind"] == "finished"
            and o["msg"] == "Trailer headers data is too long." and r.trailer_bytes + 2 > MAX_TRAILERS >= r.trailer_bytes
            and (r.end - 1) in cuts):
        return ("chunked-trailer-limit-split-crlf",
                "trailers of %d bytes (<= 65536, accepted when delivered whole) are rejected when a delivery ends between "
                "the CR and LF of the final CRLF" % r.trailer_bytes)
    return key, None


def check_stream(ctx, http, rng, enc, meta, only_cuts=None, dense=False):
    r = refchunked.read(enc)
    cls = classify_stream(r)
    ctx.count("streams_" + cls)
    ctx.evaluated()
    if meta.get("body") or meta.get("extra") or meta.get("mode", "").startswith(("mut", "targeted", "replay")):
        ctx.distinct(enc)
    if cls == "must-accept" and "body" in meta and (r.body != meta["body"] or ("extra" in meta and r.extra != meta["extra"])):
        ctx.inconclusive("reference reader disagrees with the generator about a valid encoding: %r" % (enc[:80],))
        return
    if cls == "dont-care":
        run_decoder(http, [enc])
        ctx.count("dontcare_runs")
        ctx.seen("dontcare_reasons", r.error or ("limits line=%d trailers=%d" % (r.max_size_line, r.trailer_bytes)))
        if only_cuts is None:
            return
    whole = run_decoder(http, [enc], probe_late=True)
    runs = [((), whole)]
    if whole["late"] == "refused":
        ctx.count("late_data_refused")
    cut_list = [tuple(only_cuts)] if only_cuts is not None else cuts_for(rng, enc, ctx.quick, dense)
    for cuts in cut_list:
        if cuts:
            runs.append((cuts, None))
    at_limit = r.status == "complete" and r.trailer_bytes + 2 > MAX_TRAILERS >= r.trailer_bytes
    for cuts, o in runs:
        if o is None:
            o = run_decoder(http, cut_pieces(enc, cuts))
        ctx.count("decoder_runs")
        ctx.count(cls.replace("-", "_") + "_runs")
        if at_limit and (r.end - 1) in cuts:
            ctx.count("final_crlf_split_at_limit")
        if cls == "dont-care":
            continue
        v = judge(cls, r, o)
        if v:
            key, what = v
            k2, w2 = refine_key(key, enc, cuts, r, o, whole)
            if w2:
                key, what = k2, w2
            ctx.violation(key, what + (" (split delivery; whole delivery: %s)" % whole["kind"] if cuts else " (whole delivery)"),
                          witness(enc, cuts, cls, r, o, whole if cuts else None, meta))
    ctx.evaluated(len(runs) - 1)
    if cls == "must-reject":
        ctx.count({"size-not-hex": "reject_size_not_hex", "data-not-crlf": "reject_data_not_crlf"}.get(r.error, "reject_ext_byte"))
    if cls == "must-accept":
        if r.extra:
            ctx.count("extra_bytes_streams")
        if r.trailers:
            ctx.count("trailer_streams")
        if meta.get("mode") == "toChunk":
            ctx.count("tochunk_streams")
        ctx.seen("grammar_features", ",".join(sorted(r.notes)) or "plain")
    return cls, r, whole, len(runs)


def run(ctx):
    from twisted.web import http

    refchunked.selftest()
    samples = 0
    # the limit cases are few and big: spread them over the shards, a fixed number per tier
    nlimit = 24 if ctx.quick else 400
    for j in range(nlimit):
        if not ctx.owns(j):
            continue
        rng = ctx.case_rng("limit", j)
        enc, meta = gen_limit_trailers(rng) if j % 2 == 0 else gen_limit_line(rng)
        res = check_stream(ctx, http, rng, enc, meta, dense=True)
        if res:
            ctx.count("limit_case_split_runs", res[3] - 1)
        ctx.count("trailer_limit_streams" if j % 2 == 0 else "sizeline_limit_streams")
        ctx.seen("limit_cases", "%s line=%s trailers=%s -> %s" % (meta["mode"], meta.get("line"), meta.get("trailer_bytes"), res and res[0]))
    for i in ctx.cases(5000, 500000):
        rng = ctx.case_rng("enc", i)
        m = i % 10
        if m < 5:
            enc, meta = gen_valid(rng, http)
        elif m < 7:
            enc, meta = gen_targeted(rng, http)
        else:
            base, meta = gen_valid(rng, http)
            enc = mutate(rng, base)
            if rng.random() < 0.3:
                enc = mutate(rng, enc)
            meta = {"mode": "mutation-of-" + meta["mode"]}
        if rng.random() < 0.08:
            enc = enc[: rng.randint(0, len(enc))]  # truncated stream
            meta = {"mode": "truncated-" + meta["mode"]}
        if not enc:
            continue
        res = check_stream(ctx, http, rng, enc, meta)
        if res and samples < 3 and res[0] != "dont-care" and len(enc) < 80 and (samples or res[0] == "must-accept"):
            samples += 1
            cls, r, whole, nruns = res
            ctx.sample({"stream": enc, "class": cls, "reference": repr(r), "whole_delivery": {k: whole[k] for k in ("kind", "body", "extra", "nfin", "dataloss", "late", "msg")}, "deliveries_run": nruns})


def replay(ctx, w):
    from twisted.web import http

    x = w["witness"]
    enc = bytes.fromhex(x["stream_hex"])
    check_stream(ctx, http, ctx.case_rng("replay"), enc, {"mode": "replay"}, only_cuts=x.get("cuts") or ())
    for k, v in ctx.violations.items():
        print("replayed: %s: %s" % (k, v["what"]))
