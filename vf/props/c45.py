"""C45 Jelly enforces its security policy; jelly/unjelly round-trips allowed object graphs.

SAFETY (the check runs as root, also against deliberately broken trees): generated s-expressions
name only (a) harness-made modules/classes/functions that have no side effects and (b) dangerous
callables from the fixed list CANARY_TARGETS, each of which is replaced — for the whole run, restored
in `finally` — by a canary that, while a case is *armed*, records the call and raises without executing
anything.  The harness module that the policies allow re-exports those canaries, never the real
objects.  `builtins.__import__` is wrapped: while armed it records imports coming from
twisted.spread.jelly / twisted.python.reflect and refuses (ModuleNotFoundError) any module that is not
already in sys.modules, so no new module code can run.  A `sys.addaudithook` guard (installed once per
process, active only while armed) raises on process creation, file removal/creation/rename/chmod,
shutil.* and open-for-writing and records the event.  A self-test at the start of every run proves that
the canaries trip and that the audit guard blocks (counters `canary_selftest_trips`,
`audit_selftest_blocks`).

Monitors: every `namedAny`/`namedObject` call made through the names bound in twisted.spread.jelly
(wrapped, restored in finally) and every `__import__` issued from jelly/reflect frames, with its
argument; canary calls; audit blocks; after unjelly returns, a bounded walk of the result collecting
every instance's class and every module / class / function object reached.

Oracle (policy = the harness's OWN record, kept per policy object, of the types / modules / classes it
allowed on that object through the public allow* methods (`Policy`), following their documented effect
— never the taster's attributes or methods, so neither a broken method nor corrupted / shared policy
state can hide itself).  Eight kinds of policy objects live in the process at the same time (a pool
configured permissive-first, incl. the default `SecurityOptions()` with nothing allowed, a policy that
allows only the *other* harness module, and `jelly.globalSecurity`); cases alternate at random between
the pooled objects and fresh objects created after all the others were configured:
* a resolved dotted name must have an allowed module part (namedAny/namedObject: everything before the
  last dot; direct `__import__` from jelly: the whole name) — also when unjelly then raises;
* no canary is ever called, no audit guard event happens;
* if unjelly returns: every object reached is a basic value whose jelly type the policy allows, one of
  jelly's own placeholders (Unpersistable, NotKnown family), a module with an allowed name, a class in
  allowedClasses (or registered with setUnjellyableForClass), a function whose `__module__` is allowed,
  a bound method of those, an instance of an allowed / registered class, or a member of an allowed
  class's *own* namespace (`vars(cls)`); whatever a class merely inherits is judged by its own
  `__module__` / class (functions, classes, descriptors, `__func__`/`__self__` of methods).
* the classes of the non-allowed harness module record every `__new__`/`__init__`/method call: none of
  them may be constructed or called (checked also when unjelly raises).
* round trip: unjelly(jelly(g)) is isomorphic to g (types, values, shared mutable nodes shared, cycles
  closed) for graphs of allowed instances, lists, tuples, dicts, sets, frozensets, dates, decimals,
  bound methods.

Round-trip families: random graphs; a directed family with cycles through immutable nodes; many instances
with distinct state of a class whose `__getstate__` builds a fresh tuple/list/dict on every call (temporaries
during jelly()); a policy object grown between calls.

Guards: any exception out of unjelly is "raises an error"; tuples/frozensets need not keep identity;
Decimal compared by value; dict/set members are matched by value (primitives) or by the `uid` the
harness gives every instance.

Classification: `jelly-function-atom-any-attribute` only when every offending object (disallowed
object returned, disallowed class instantiated, canary called) is exactly what a `[function, name]`
atom of the s-expression with an *allowed* module part resolves to (resolved by the harness with
getattr on sys.modules, no import).  Everything else keeps generic keys.
"""
import builtins
import datetime
import decimal
import os
import pickle
import shutil
import subprocess
import sys
import tempfile
import types
import warnings

LEVEL = "exploration"
ENGINE = "core"
TECHNIQUE = "runtime monitoring: name-resolution/import instrumentation + canaries + result-graph walk against the configured policy; isomorphism check for round trips"
RULE = ("grammar-based s-expressions (depth <= 4) over every _unjelly_* tag, dotted type names, unknown tags and "
        "malformed shapes, naming harness modules/classes/functions, the allowed module's re-exports and the fixed list "
        "of canaried dangerous callables; 8 kinds of policy objects alive together (default, basic, allowInstancesOf, modules+function/"
        "method/class/module/instance, instances+function+method, instances+method, a policy allowing only the other module, "
        "jelly.globalSecurity), pooled and fresh, used in interleaved order.  Round trip: random graphs (<= 25 nodes) with "
        "shared and cyclic references; every third graph comes from a directed family whose cycles run THROUGH tuples / "
        "frozensets / bound methods that are referenced from inside their own members and again after all ancestors closed.  Distinct = (policy, s-expression) resp. graph shape; non-trivial = the "
        "s-expression names a module/class/function/instance/method/dotted type, resp. the graph has a shared or "
        "cyclic reference.")
ASSUMPTIONS = ["trusted base: the per-object policy record kept by the harness (documented effect of allowBasicTypes/allowInstancesOf/allowModules/allowTypes and the default type list), the result walker and the isomorphism checker in this module",
               "dangerous callables are represented by canaries (record + raise); the real ones are never reachable from a generated name",
               "only SecurityOptions-based policies are used (bytes/int/float atoms are always allowed by them)"]
SHARDS = {"quick": 4, "thorough": 16}
FLOORS = {"fresh_state_roundtrips": 1500, "fresh_state_instances": 8000, "growing_policy_cases": 1500, "roundtrips_after_policy_growth": 1500, "persistentLoad_calls": 200, "directed_roundtrips": 3000, "immutable_nodes_in_cycles_rereferenced": 5000, "pooled_policy_cases": 10000, "fresh_policy_cases": 10000, "nothing_allowed_policy_cases": 8000, "method_atoms_generated": 3000, "inherited_or_dunder_method_names": 2000, "method_atom_cases_returned": 150, "unjelly_calls": 20000, "unjelly_returned": 3000, "unjelly_raised": 3000, "resolution_events": 1000, "objects_walked": 10000,
          "canary_selftest_trips": 10, "audit_selftest_blocks": 2, "roundtrips": 500, "roundtrip_shared_or_cyclic": 200,
          "instances_returned": 100, "dangerous_names_generated": 2000}
READY = True

AMOD, OMOD = "vf_c45_allowed", "vf_c45_other"
CANARY_TARGETS = [(os, "system"), (os, "popen"), (os, "remove"), (os, "unlink"), (os, "rmdir"), (os, "rename"), (os, "kill"), (os, "fork"),
                  (os, "execv"), (os, "execve"), (os, "execvp"), (shutil, "rmtree"), (subprocess, "Popen"), (subprocess, "call"),
                  (subprocess, "run"), (subprocess, "check_output"), (builtins, "eval"), (builtins, "exec"), (builtins, "compile"),
                  (builtins, "open"), (pickle, "loads")]
DANGEROUS_NAMES = ["%s.%s" % (m.__name__, a) for m, a in CANARY_TARGETS] + ["builtins.__import__"]
PREIMPORTED = ["os", "os.path", "subprocess", "shutil", "pickle", "builtins", "fractions", "collections", "decimal", "datetime",
               "twisted.spread.jelly", AMOD, OMOD]


class CanaryTripped(Exception):
    pass


class AuditBlocked(RuntimeError):
    pass


class Guard:
    armed = False
    hook_installed = False
    canary_calls = []
    audit_events = []
    events = []  # name resolutions of the current case
    depth = 0  # inside a wrapped namedAny/namedObject

    @classmethod
    def reset(cls):
        cls.canary_calls, cls.audit_events, cls.events, cls.depth = [], [], [], 0


_BLOCKED_PREFIXES = ("os.system", "subprocess.Popen", "os.exec", "os.posix_spawn", "os.fork", "os.forkpty", "os.spawn", "os.remove",
                     "os.rename", "os.rmdir", "os.mkdir", "os.chmod", "os.chown", "os.truncate", "os.kill", "os.killpg", "os.symlink",
                     "os.link", "os.startfile", "shutil.", "pty.spawn", "os.putenv", "os.unsetenv")
_WRITE_FLAGS = os.O_WRONLY | os.O_RDWR | os.O_CREAT | os.O_TRUNC | os.O_APPEND


def _audit(event, args):
    if not Guard.armed:
        return
    bad = event.startswith(_BLOCKED_PREFIXES)
    if event == "open" and not bad:
        mode, flags = (args[1], args[2]) if len(args) >= 3 else (None, 0)
        bad = (isinstance(mode, str) and any(c in mode for c in "wax+")) or (isinstance(flags, int) and flags & _WRITE_FLAGS)
    if bad:
        Guard.audit_events.append((event, repr(args)[:120]))
        raise AuditBlocked("C45 guard: audit event %s blocked" % event)


def make_canary(name, real):
    def canary(*a, **kw):
        if Guard.armed and not (name in ("builtins.exec", "builtins.compile") and sys._getframe(1).f_globals.get("__name__", "").startswith("importlib")):
            Guard.canary_calls.append((name, repr(a)[:80]))
            raise CanaryTripped("C45 canary for %s was called" % name)
        return real(*a, **kw)
    canary.__vf_canary__ = name
    canary.__name__ = name.rsplit(".", 1)[1]
    canary.__module__ = name.rsplit(".", 1)[0]
    return canary


def guarded_import(real):
    def __import__(name, globals=None, locals=None, fromlist=(), level=0):
        if Guard.armed:
            caller = sys._getframe(1).f_globals.get("__name__", "")
            if caller in ("twisted.spread.jelly", "twisted.python.reflect"):
                Guard.events.append(("import" if Guard.depth == 0 else "import-nested", name))
                if level == 0 and name not in sys.modules:
                    raise ModuleNotFoundError("C45 guard: %r is not loaded and will not be imported" % (name,), name=name)
        return real(name, globals, locals, fromlist, level)
    __import__.__vf_canary__ = "builtins.__import__"
    return __import__


# ------------------------------------------------------------------ harness modules (no side effects anywhere)
def build_modules(canaries):
    a, o = types.ModuleType(AMOD), types.ModuleType(OMOD)

    def cls(mod, name, body=None):
        c = type(name, (), dict(body or {}, __module__=mod.__name__, __qualname__=name))
        setattr(mod, name, c)
        return c

    def method_for(mod):
        f = types.FunctionType((lambda self: "meth").__code__, {}, "meth")
        f.__module__ = mod.__name__
        return f

    cls(a, "Allowed", {"meth": method_for(a)})
    cls(a, "Other", {"meth": method_for(a)})
    log = []

    def __setstate__(self, state):
        log.append(("setstate", type(self).__name__))
        self.__dict__.update(state if isinstance(state, dict) else {})

    cls(a, "WithSetstate", {"__setstate__": __setstate__})
    # classes of the NON-allowed module record every construction (harmless: a list append)
    clog = []

    def named(mod, qualname, f):
        f.__module__, f.__qualname__, f.__name__ = mod.__name__, qualname, qualname.rsplit(".", 1)[-1]
        return f

    def recording_new(clsname):
        def __new__(cls, *args, **kwargs):
            clog.append(("new", clsname, cls.__name__))
            return object.__new__(cls)
        return named(o, clsname + ".__new__", __new__)

    def base_init(self, *args, **kwargs):
        clog.append(("init", "Base", type(self).__name__))

    def helper(self=None):
        clog.append(("helper-called", "Base", None))
        return "forbidden helper"

    base = cls(o, "Base", {"__new__": recording_new("Base"), "__init__": named(o, "Base.__init__", base_init), "helper": named(o, "Base.helper", helper),
                           "cm": classmethod(named(o, "Base.cm", lambda c: "cm")), "sm": staticmethod(named(o, "Base.sm", lambda: "sm"))})
    cls(o, "Secret", {"meth": method_for(o), "__new__": recording_new("Secret")})
    derived = type("Derived", (base,), {"own": named(a, "Derived.own", lambda self: "own"), "__module__": AMOD, "__qualname__": "Derived"})
    a.Derived = derived

    # an allowed class whose __getstate__ builds a FRESH state object on every call (a temporary that lives
    # only while it is being jellied) and whose __setstate__ takes it back
    def fresh_getstate(self):
        vals = (self.uid, self.kind, self.a, self.b)
        if self.kind == "tuple":
            return tuple(vals)
        if self.kind == "list":
            return list(vals)
        if self.kind == "nested":
            return (self.uid, self.kind, [self.a], {"b": self.b})
        return {"uid": self.uid, "kind": self.kind, "a": self.a, "b": self.b}

    def fresh_setstate(self, state):
        if isinstance(state, dict):
            self.__dict__.update(state)
        else:
            self.uid, self.kind, a, b = state
            self.a, self.b = (a[0], b["b"]) if self.kind == "nested" else (a, b)

    cls(a, "Fresh", {"__getstate__": named(a, "Fresh.__getstate__", fresh_getstate), "__setstate__": named(a, "Fresh.__setstate__", fresh_setstate)})
    a.construct_log = clog
    for mod, fname in ((a, "plain_function"), (o, "hidden")):
        f = types.FunctionType((lambda: "called").__code__, {}, fname)
        f.__module__, f.__qualname__ = mod.__name__, fname
        setattr(mod, fname, f)
    # what a real application module typically has at top level: imported modules and names
    a.os, a.subprocess = os, subprocess
    for short, full in (("system", "os.system"), ("fork", "os.fork"), ("popen", "os.popen"), ("remove", "os.remove"), ("Popen", "subprocess.Popen"),
                        ("loads", "pickle.loads"), ("eval", "builtins.eval"), ("exec", "builtins.exec"), ("rmtree", "shutil.rmtree")):
        setattr(a, short, canaries[full])
    import fractions
    a.Fraction = fractions.Fraction
    a.other = o
    a.setstate_log = log
    return a, o


class Env:
    """Installs/restores everything process-global the check touches."""

    def __enter__(self):
        from twisted.spread import jelly
        for n in PREIMPORTED[:-2]:
            __import__(n)
        self.jelly = jelly
        self.saved = []
        self.canaries = {}
        if not Guard.hook_installed:
            sys.addaudithook(_audit)
            Guard.hook_installed = True
        for mod, attr in CANARY_TARGETS:
            real = getattr(mod, attr)
            c = make_canary("%s.%s" % (mod.__name__, attr), real)
            self.saved.append((mod, attr, real))
            setattr(mod, attr, c)
            self.canaries["%s.%s" % (mod.__name__, attr)] = c
        real_import = builtins.__import__
        self.saved.append((builtins, "__import__", real_import))
        builtins.__import__ = guarded_import(real_import)
        self.canaries["builtins.__import__"] = builtins.__import__
        self.amod, self.omod = build_modules(self.canaries)
        sys.modules[AMOD], sys.modules[OMOD] = self.amod, self.omod
        for fn in ("namedAny", "namedObject", "namedModule", "namedClass"):
            real = getattr(jelly, fn, None)
            if real is not None:
                self.saved.append((jelly, fn, real))
                setattr(jelly, fn, self._wrap_named(fn, real))

        class Registered(jelly.Unjellyable):
            pass

        Registered.__module__, Registered.__qualname__ = AMOD, "Registered"
        self.registered = Registered
        self.regtag = b"vf_c45.registered.Tag"
        self.types_before = dict(jelly.globalSecurity.allowedTypes)
        jelly.setUnjellyableForClass(self.regtag, Registered)
        self.pool = {}
        for k in POOL_ORDER:
            self.pool[k] = make_policy(self, k)
        return self

    @staticmethod
    def _wrap_named(fn, real):
        def wrapper(name):
            Guard.events.append((fn, name))
            Guard.depth += 1
            try:
                return real(name)
            finally:
                Guard.depth -= 1
        return wrapper

    def __exit__(self, *exc):
        Guard.armed = False
        for mod, attr, real in reversed(self.saved):
            setattr(mod, attr, real)
        sys.modules.pop(AMOD, None)
        sys.modules.pop(OMOD, None)
        self.jelly.unjellyableRegistry.pop(self.regtag, None)
        self.jelly.globalSecurity.allowedTypes.clear()
        self.jelly.globalSecurity.allowedTypes.update(self.types_before)
        return False


class armed:
    def __enter__(self):
        Guard.reset()
        Guard.armed = True

    def __exit__(self, *exc):
        Guard.armed = False
        return False


def selftest(ctx, env):
    """Prove that canaries trip and the audit guard blocks, without executing anything."""
    d = tempfile.mkdtemp(prefix="vf_c45_")
    try:
        with armed():
            for name, c in env.canaries.items():
                if name == "builtins.__import__":
                    continue
                try:
                    c("true")
                    ctx.inconclusive("canary for %s did not raise" % name)
                except CanaryTripped:
                    ctx.count("canary_selftest_trips")
                except BaseException as e:
                    ctx.inconclusive("canary for %s raised %r" % (name, e))
            trips = len(Guard.canary_calls)
            for what in (lambda: os.mkdir(os.path.join(d, "x")), lambda: os.open(os.path.join(d, "f"), os.O_WRONLY | os.O_CREAT),
                         lambda: os.chmod(d, 0o700), lambda: os.posix_spawn("/bin/true", ["true"], {})):
                try:
                    what()
                    ctx.inconclusive("audit guard did not block")
                except AuditBlocked:
                    ctx.count("audit_selftest_blocks")
        if os.listdir(d) or trips != len(env.canaries) - 1:
            ctx.inconclusive("self-test: side effect observed or canary not recorded")
    finally:
        shutil.rmtree(d, ignore_errors=True)


# ------------------------------------------------------------------ policies and their model
DEFAULT_TYPES = {b"None", b"bool", b"boolean", b"string", b"str", b"int", b"float", b"datetime", b"time", b"date", b"timedelta", b"NoneType",
                 b"unicode", b"decimal", b"set", b"frozenset"}
BASIC_TYPES = {b"dictionary", b"list", b"tuple", b"reference", b"dereference", b"unpersistable", b"persistent", b"long_int", b"long", b"dict"}


class Policy:
    """A SecurityOptions plus the harness's OWN record of what was allowed on that object.  The record is
    built by construction from the calls the harness makes (following the documented effect of each
    allow* method) and is the only thing the oracle consults — never the taster's attributes or methods."""

    def __init__(self, env, kind, taster=None):
        self.kind = kind
        self.taster = taster if taster is not None else env.jelly.SecurityOptions()
        self.types, self.modules, self.classes, self.registered = set(DEFAULT_TYPES), set(), set(), {env.registered}

    def allow_basic(self):
        self.taster.allowBasicTypes()
        self.types |= BASIC_TYPES

    def allow_instances(self, *classes):
        self.taster.allowInstancesOf(*classes)
        self.types |= BASIC_TYPES | {b"instance", b"class", b"classobj", b"module"}
        for c in classes:
            self.types.add(("%s.%s" % (c.__module__, c.__qualname__)).encode())
            self.modules.add(c.__module__.encode())
            self.classes.add(c)

    def allow_modules(self, *names):
        self.taster.allowModules(*names)
        self.modules |= {n.encode() for n in names}

    def allow_types(self, *names):
        self.taster.allowTypes(*names)
        self.types |= {n.encode() for n in names}

    def module_ok(self, name):
        return name.encode("utf-8", "replace") in self.modules

    def type_ok(self, name):
        return name in self.types


def make_policy(env, k):
    A = (env.amod.Allowed, env.amod.Derived, env.amod.Fresh)
    if k == 7:  # the process-wide policy object of jelly itself (basic types + what setUnjellyableForClass registered)
        pol = Policy(env, k, env.jelly.globalSecurity)
        pol.types |= BASIC_TYPES | {env.regtag}
        return pol
    pol = Policy(env, k)
    if k == 1:
        pol.allow_basic()
    elif k == 2:
        pol.allow_instances(*A)
    elif k == 3:
        pol.allow_basic()
        pol.allow_modules(AMOD)
        pol.allow_types("function", "method", "class", "module", "instance")
    elif k == 4:
        pol.allow_instances(*A)
        pol.allow_types("function", "method")
    elif k == 5:
        pol.allow_instances(*A)
        pol.allow_types("method")
    elif k == 6:  # an unrelated, looser policy elsewhere in the process: it allows the OTHER module's classes
        pol.allow_instances(env.omod.Secret, env.omod.Base)
        pol.allow_types("function", "method")
    return pol


POLICY_NAMES = ["default (nothing allowed)", "basic", "instancesOf(Allowed,Derived,Fresh)", "modules(allowed)+function/method/class/module/instance",
                "instancesOf(Allowed,Derived)+function+method", "instancesOf(Allowed,Derived)+method",
                "instancesOf(other.Secret,other.Base)+function+method", "jelly.globalSecurity",
                "one object grown in steps (mutated between unjelly calls)"]
POOL_ORDER = [6, 4, 3, 2, 5, 1, 0, 7]  # permissive ones are configured first, strict ones afterwards


BASIC = {type(None): b"None", bool: b"boolean", str: b"unicode", decimal.Decimal: b"decimal", datetime.datetime: b"datetime",
         datetime.date: b"date", datetime.time: b"time", datetime.timedelta: b"timedelta", list: b"list", tuple: b"tuple",
         dict: b"dictionary", set: b"set", frozenset: b"frozenset"}


def walk(ctx, env, model, root):
    """-> list of (kind, description, object) for everything the policy does not allow."""
    from twisted.persisted.crefutil import NotKnown

    bad, seen, todo, n = [], set(), [root], 0
    permitted = list(model.classes | model.registered)
    # members of an allowed class's OWN namespace are part of that class (what the method atom may hand out);
    # anything merely inherited is judged by where it is defined
    own = {id(v) for c in permitted for v in vars(c).values()}
    while todo and n < 400:
        o = todo.pop()
        if id(o) in seen:
            continue
        seen.add(id(o))
        n += 1
        t = type(o)
        if id(o) in own or (t is types.MappingProxyType and any(o == vars(c) for c in permitted)):
            continue
        if t in (bytes, int, float):
            continue
        if t in BASIC:
            if not model.type_ok(BASIC[t]):
                bad.append(("type-not-allowed", "%s value returned but jelly type %r is not allowed" % (t.__name__, BASIC[t]), o))
            if t in (list, tuple, set, frozenset):
                todo.extend(o)
            elif t is dict:
                for k, v in o.items():
                    todo.extend((k, v))
            continue
        if isinstance(o, (env.jelly.Unpersistable, NotKnown)):
            continue
        if getattr(o, "__vf_canary__", None):
            bad.append(("dangerous-callable-returned", "canary for %s" % o.__vf_canary__, o))
        elif isinstance(o, types.ModuleType):
            if not model.module_ok(o.__name__):
                bad.append(("module-not-allowed", "module %s" % o.__name__, o))
        elif isinstance(o, type):
            if o not in model.classes and o not in model.registered:
                bad.append(("class-not-allowed", "class %s.%s" % (o.__module__, o.__qualname__), o))
        elif isinstance(o, (types.FunctionType, types.BuiltinFunctionType)):
            if not model.module_ok(str(getattr(o, "__module__", None))):
                bad.append(("function-from-disallowed-module", "function %s.%s" % (o.__module__, o.__name__), o))
        elif isinstance(o, types.MethodType):
            todo.extend((o.__self__, o.__func__))
        else:
            ctx.count("instances_returned")
            if t not in model.classes and t not in model.registered:
                bad.append(("instance-of-disallowed-class", "instance of %s.%s" % (t.__module__, t.__qualname__), t))
            d = getattr(o, "__dict__", None)
            if isinstance(d, dict):
                todo.extend(d.values())
    ctx.count("objects_walked", n)
    return bad


def function_atom_targets(sexp, model):
    """Objects that [function, name] atoms with an allowed module part resolve to (getattr only)."""
    out, todo = [], [sexp]
    while todo:
        s = todo.pop()
        if type(s) is not list:
            continue
        if len(s) == 2 and s[0] == b"function" and isinstance(s[1], bytes):
            try:
                name = s[1].decode("utf-8")
            except UnicodeDecodeError:
                name = ""
            modpart, _, attr = name.rpartition(".")
            if modpart in sys.modules and model.module_ok(modpart) and hasattr(sys.modules[modpart], attr):
                out.append(getattr(sys.modules[modpart], attr))
        todo.extend(x for x in s if type(x) is list)
    return out


# ------------------------------------------------------------------ s-expression grammar
METHOD_NAMES = ["meth", "own", "helper", "helper", "cm", "sm", "__base__", "__base__", "__class__", "__mro__", "__dict__", "__subclasses__", "__init_subclass__",
                "__new__", "__reduce__", "__init__", "__bases__", "mro", "__module__", "__getattribute__", "__setattr__", "__weakref__", "nonexistent",
                b"meth", b"helper", b"__base__"]
CLASS_NAMES = [AMOD + ".Allowed", AMOD + ".Derived", AMOD + ".Derived", OMOD + ".Base", AMOD + ".Other", AMOD + ".WithSetstate", OMOD + ".Secret", "fractions.Fraction", "collections.OrderedDict",
               AMOD + ".Fraction", AMOD + ".Registered", AMOD + ".other.Secret"]
MODULE_NAMES = ["os", "subprocess", "shutil", "pickle", "builtins", AMOD, OMOD, "fractions", "os.path", "twisted.spread.jelly", AMOD + ".os", AMOD + ".other"]
REEXPORTS = [AMOD + "." + x for x in ("os", "subprocess", "system", "fork", "popen", "remove", "Popen", "loads", "eval", "exec", "rmtree", "Fraction",
                                       "other", "plain_function", "Allowed", "Other", "WithSetstate")]
FUNCTION_NAMES = REEXPORTS + [OMOD + ".hidden", AMOD + ".os.system", AMOD + ".other.hidden", AMOD + ".nonexistent", "", ".", AMOD + ".", "." + AMOD, "x"]
LEAVES = [b"", b"abc", b"postUnjelly", 0, 1, -5, 2 ** 70, 1.5, b"\xff\xfe"]


def plausible(rng, env, depth, stats):
    """Shapes a cooperating peer would send (most of them pass the matching policy)."""
    stats["naming"] = True
    val = lambda: rng.choice([1, b"v", [b"unicode", b"text"], [b"list", 1, 2], [b"None"], [b"boolean", b"true"], [b"tuple", 1, [b"unicode", b"t"]],
                              [b"dictionary", [[b"unicode", b"k"], 2]], [b"function", (AMOD + ".plain_function").encode()],
                              [b"function", rng.choice(REEXPORTS).encode()], [b"class", (AMOD + ".Allowed").encode()], [b"module", AMOD.encode()]])
    inst = lambda: [rng.choice([AMOD + ".Allowed", AMOD + ".Allowed", AMOD + ".Derived"]).encode(), [b"dictionary"] + [[[b"unicode", rng.choice([b"x", b"y", b"postUnjelly"])], val() if depth < 2 or rng.random() < 0.7 else plausible(rng, env, depth - 1, stats)]
                                                                  for _ in range(rng.randrange(0, 3))]]
    r = rng.random()
    if r < 0.45:
        return inst()
    if r < 0.6:
        m = method_atom(rng, env, depth, stats, True)
        q = rng.random()
        if q < 0.5:
            return m
        if q < 0.65:
            return [b"list", m, val()]
        if q < 0.8:
            return [b"instance", m, [b"dictionary"]]
        if q < 0.9:
            return [b"method", rng.choice(METHOD_NAMES), m, [b"class", (AMOD + ".Derived").encode()]]
        return [b"method", rng.choice(METHOD_NAMES), [b"None"], m]
    if r < 0.7:
        return [b"instance", [b"class", rng.choice([AMOD + ".Allowed", AMOD + ".Derived"]).encode()], [b"dictionary", [[b"unicode", b"x"], val()]]]
    if r < 0.8:
        return [b"list", inst(), val(), [b"reference", 1, inst()], [b"dereference", 1]]
    if r < 0.9:
        return [env.regtag, [b"dictionary", [[b"unicode", b"x"], val()]]]
    return val()


def gen(rng, env, depth, stats):
    r = rng.random()
    if depth >= 2 and r < 0.12:
        return plausible(rng, env, depth, stats)
    r = rng.random()
    if depth <= 0 or r < 0.18:
        if rng.random() < 0.3:
            return rng.choice(LEAVES)
        return [rng.choice([b"None", b"unicode", b"boolean"]), rng.choice([b"x", b"true", b"false", b"postUnjelly", b"\xe9"])]
    sub = lambda: gen(rng, env, depth - 1, stats)
    if r < 0.30:
        return [rng.choice([b"list", b"tuple", b"set", b"frozenset"])] + [sub() for _ in range(rng.randrange(0, 4))]
    if r < 0.37:
        return [b"dictionary"] + [[sub(), sub()] for _ in range(rng.randrange(0, 3))]
    if r < 0.42:
        return rng.choice([[b"reference", rng.randrange(1, 4), sub()], [b"dereference", rng.randrange(1, 4)]])
    if r < 0.47:
        return rng.choice([[b"decimal", rng.randrange(-50, 50), rng.randrange(-3, 3)], [b"datetime", b"2020 1 2 3 4 5 6"], [b"date", b"2020 1 2"],
                           [b"time", b"1 2 3 4"], [b"timedelta", b"1 2 3"], [b"date", b"not a date"], [b"persistent", b"pid"], [b"unpersistable", b"why"]])
    dangerous = lambda: (stats.__setitem__("dangerous", stats["dangerous"] + 1), rng.choice(DANGEROUS_NAMES))[1]
    stats["naming"] = True
    if r < 0.55:
        name = rng.choice(MODULE_NAMES)
        return [b"module", name.encode()]
    if r < 0.65:
        name = rng.choice(CLASS_NAMES) if rng.random() < 0.7 else dangerous()
        return [b"class", name.encode()]
    if r < 0.80:
        name = rng.choice(FUNCTION_NAMES) if rng.random() < 0.6 else dangerous()
        return [b"function", name.encode()]
    if r < 0.86:
        cls = rng.choice([[b"class", rng.choice(CLASS_NAMES).encode()], [b"function", rng.choice(REEXPORTS).encode()], method_atom(rng, env, depth, stats, True), sub()])
        return [b"instance", cls, state(rng, env, depth, stats)]
    if r < 0.91:
        return method_atom(rng, env, depth, stats)
    if r < 0.97:
        name = rng.choice(CLASS_NAMES + REEXPORTS) if rng.random() < 0.65 else dangerous()
        return [name.encode(), state(rng, env, depth, stats)]
    return rng.choice([[env.regtag, state(rng, env, depth, stats)], [b"foo", sub()], [b"long_int", 5], [b"classobj", b"x"], [b"instance"], [b"method", b"meth"],
                       [b"function"], [b"module", 5], [b"class", b"\xff.\xfe"], [], [5, 6], [[b"list"], 1], [b"__init__", 1]])


def method_atom(rng, env, depth, stats, friendly=False):
    """[method, name, self, class]: own, inherited and dunder names; self None / an instance / anything."""
    stats["naming"] = True
    stats["methods"] += 1
    name = rng.choice(METHOD_NAMES)
    if name not in ("meth", "own", b"meth"):
        stats["inherited_or_dunder"] += 1
    cname = rng.choice([AMOD + ".Derived", AMOD + ".Derived", AMOD + ".Allowed"]) if friendly or rng.random() < 0.7 else rng.choice(CLASS_NAMES)
    klass = [b"class", cname.encode()] if friendly or rng.random() < 0.85 else gen(rng, env, depth - 1, stats)
    r = rng.random()
    if r < 0.45:
        me = [b"None"]
    elif r < 0.8 or friendly:
        me = [rng.choice([AMOD + ".Derived", AMOD + ".Allowed"]).encode(), [b"dictionary"] + ([[[b"unicode", b"x"], 1]] if rng.random() < 0.5 else [])]
    else:
        me = gen(rng, env, depth - 1, stats)
    return [b"method", name, me, klass]


def state(rng, env, depth, stats):
    r = rng.random()
    if r < 0.5:
        items = []
        for _ in range(rng.randrange(0, 3)):
            key = rng.choice([b"x", b"y", b"postUnjelly", b"postUnjelly", b"__class__"])
            items.append([[b"unicode", key], gen(rng, env, depth - 1, stats)])
        return [b"dictionary"] + items
    return gen(rng, env, depth - 1, stats)


# ------------------------------------------------------------------ one security case
class HarnessAbort(BaseException):
    """Application code that fails with a BaseException-only class."""


def run_case(ctx, env, i, forced=None, sub=None):
    rng = ctx.case_rng(i) if sub is None else ctx.case_rng(i, sub)
    k = rng.randrange(8)
    if forced is not None:  # the growing family: one object, mutated between unjelly calls
        model, k = forced, 8
    elif rng.random() < 0.5:  # a long-lived policy object shared by many interleaved cases
        model = env.pool[k]
        ctx.count("pooled_policy_cases")
    else:  # a fresh object, created after every other policy of the process was configured
        model = make_policy(env, k)
        ctx.count("fresh_policy_cases")
    if not model.modules:
        ctx.count("nothing_allowed_policy_cases")
    taster = model.taster
    stats = {"dangerous": 0, "naming": False, "methods": 0, "inherited_or_dunder": 0}
    nlog = len(env.amod.construct_log)
    sexp = gen(rng, env, 4, stats)
    ctx.count("dangerous_names_generated", stats["dangerous"])
    ctx.count("method_atoms_generated", stats["methods"])
    ctx.count("inherited_or_dunder_method_names", stats["inherited_or_dunder"])
    ctx.evaluated()
    if stats["naming"]:
        ctx.distinct((k, repr(sexp)))
    ctx.count("unjelly_calls")
    ctx.seen("policies", POLICY_NAMES[k])
    result, error = None, None
    pmode = rng.choice(["ok", "ok", "raise", "abort"])

    def persistent_load(pid, unj):  # application call-out: may fail, also with a BaseException-only class
        ctx.count("persistentLoad_calls")
        if pmode == "raise":
            raise KeyError(pid)
        if pmode == "abort":
            raise HarnessAbort(pid)
        return env.jelly.Unpersistable("harness persistent")

    with armed(), warnings.catch_warnings():
        warnings.simplefilter("ignore")
        try:
            result = env.jelly.unjelly(sexp, taster, persistentLoad=persistent_load)
        except (Exception, HarnessAbort) as e:
            error = e
        events, canary_calls, audit_events = list(Guard.events), list(Guard.canary_calls), list(Guard.audit_events)
        bad = walk(ctx, env, model, result) if error is None else []
    ctx.count("resolution_events", len(events))
    if error is None:
        ctx.count("unjelly_returned")
    else:
        ctx.count("unjelly_raised")
        ctx.seen("errors", type(error).__name__)
    wit = {"case": i, "growing_step": sub, "policy": POLICY_NAMES[k], "sexp": sexp, "resolution_events": events[:20], "outcome": "returned %r" % (result,) if error is None else "raised %s: %s" % (type(error).__name__, str(error)[:150])}
    # 1. name resolution
    for kind, name in events:
        if kind == "import-nested":
            continue
        modpart = name if kind in ("import", "namedModule") else name.rpartition(".")[0]
        if not model.module_ok(modpart):
            ctx.violation("resolved-name-in-disallowed-module", "jelly resolved a name whose module part the policy does not allow",
                          dict(wit, offending_event=[kind, name], allowed_modules=sorted(m.decode() for m in model.modules)))
            break
    # 2. canaries / audit, 3. returned graph
    targets = None
    problems = [("dangerous-callable-called", "%s%s" % c, env.canaries.get(c[0])) for c in canary_calls]
    ctx.count("canary_calls_during_unjelly", len(canary_calls))
    ctx.count("audit_blocks_during_unjelly", len(audit_events))
    problems += [("audit-guard-blocked", "%s %s" % a, None) for a in audit_events]
    # constructions / calls recorded by the classes of the non-allowed harness module (also when unjelly raised)
    for what, owner, actual in env.amod.construct_log[nlog:]:
        if what == "new" and getattr(env.omod, actual, None) is not None and getattr(env.omod, actual) not in model.classes:
            problems.append(("disallowed-class-constructed", "%s.%s.__new__ ran for %s" % (OMOD, owner, actual), getattr(env.omod, actual)))
        elif what == "helper-called" and not model.module_ok(OMOD):
            problems.append(("disallowed-function-called", "%s.Base.helper was called" % OMOD, env.omod.Base.helper))
        else:
            ctx.count("allowed_subclass_constructions")
    if error is None and stats["methods"]:
        ctx.count("method_atom_cases_returned")
    problems += bad
    if problems:
        targets = function_atom_targets(sexp, model)
        explained = all(any(obj is t for t in targets) for _, _, obj in problems)
        key = "jelly-function-atom-any-attribute" if explained and targets else problems[0][0]
        ctx.count("known_mechanism_hits" if key.startswith("jelly-function") else "generic_problem_hits")
        ctx.violation(key, "unjelly under a restrictive policy returned / instantiated / called something the policy does not allow",
                      dict(wit, problems=[[p[0], p[1]] for p in problems[:6]], allowed_modules=sorted(m.decode() for m in model.modules),
                           allowed_classes=sorted(c.__qualname__ for c in model.classes), allowed_types=sorted(t.decode("latin-1") for t in model.types)))
    if i < 3 * ctx.nshards and stats["naming"] and len(ctx.samples) < 4:
        ctx.sample({"policy": POLICY_NAMES[k], "sexp": sexp, "events": events[:10], "outcome": wit["outcome"][:200], "disallowed": [[p[0], p[1]] for p in problems[:3]]})


# ------------------------------------------------------------------ round trip
def gen_graph(rng, env):
    A = env.amod.Allowed
    nodes = []

    def leaf():
        r = rng.random()
        if r < 0.25:
            return rng.choice([0, 1, -7, 2 ** 65, 3.25, -0.5, True, False, None])
        if r < 0.45:
            return rng.choice([b"", b"bytes", "text", "é中", ""])
        if r < 0.6:
            return rng.choice([datetime.datetime(2020, 1, 2, 3, 4, 5, 6), datetime.date(1999, 12, 31), datetime.time(1, 2, 3, 4), datetime.timedelta(1, 2, 3),
                               decimal.Decimal("1.50"), decimal.Decimal("-3"), decimal.Decimal("1E+5"), decimal.Decimal("0.001")])
        if r < 0.7:
            return (rng.randrange(5), "t")
        if r < 0.8:
            return frozenset([rng.randrange(5), b"f"])
        return rng.randrange(100)

    n = rng.randrange(2, 9)
    for uid in range(n):
        kind = rng.choice(["list", "dict", "inst", "inst", "set", "set", "list"])
        if kind == "inst":
            o = A()
            o.uid = uid
        else:
            o = {"list": list, "dict": dict, "set": set}[kind]()
        nodes.append(o)
    shared = False
    for o in nodes:
        for _ in range(rng.randrange(0, 4)):
            if rng.random() < 0.55:
                v = rng.choice(nodes)
                shared = True
                r = rng.random()
                if r < 0.22 and not isinstance(o, set):
                    v = (v, rng.randrange(3))  # a tuple on the path of a possible cycle
                elif r < 0.36 and isinstance(v, A):
                    v = v.meth  # bound method
            else:
                v = leaf()
            if isinstance(o, list):
                o.append(v)
            elif isinstance(o, dict):
                key = rng.choice(["k%d" % rng.randrange(4), rng.randrange(4), (1, "t"), b"kb"])
                o[key] = v
            elif isinstance(o, set):
                o.add(v if isinstance(v, A) else leaf())
            else:
                setattr(o, "a%d" % rng.randrange(4), v)
    return nodes[0], shared


def gen_fresh(rng, env):
    """Many instances, each with DIFFERENT state, of a class whose __getstate__ returns a freshly built
    tuple / list / dict / nested state: the state objects are temporaries during jelly()."""
    F, A = env.amod.Fresh, env.amod.Allowed
    n = rng.randrange(3, 14)
    kind = rng.choice(["tuple", "list", "dict", "nested", "mixed"])
    objs = []
    for uid in range(n):
        f = F()
        f.uid, f.kind = uid, (kind if kind != "mixed" else rng.choice(["tuple", "list", "dict", "nested"]))
        f.a, f.b = uid * 7 + rng.randrange(3), -uid
        objs.append(f)
    shape = rng.random()
    if shape < 0.4:
        return list(objs), n
    if shape < 0.7:
        holder = A()
        holder.uid = 1000
        holder.items = objs
        holder.again = objs[rng.randrange(n)]  # one of them referenced twice: that one must stay shared
        return [holder, objs[0]], n
    return {"k%d" % j: o for j, o in enumerate(objs)}, n


def gen_directed(rng, env):
    """Directed family: cycles THROUGH immutable nodes that are re-referenced later.  A small program:
    make mutable containers; make immutable nodes (tuple / frozenset / bound method of an allowed
    instance) from references to them — including containers that will be their ancestors and children
    that later get a reference back to the immutable node; wire the mutables (extra references to the
    immutables from inside their own members); finally reference the immutables again from the root,
    after every ancestor has been closed."""
    A = env.amod.Allowed
    prim = lambda: rng.choice([0, 1, "s", b"b", None, 2.5, True])
    mut = []
    for uid in range(rng.randrange(2, 6)):
        kind = rng.choice(["list", "list", "dict", "inst", "inst"])
        if kind == "inst":
            o = A()
            o.uid = uid
        else:
            o = [] if kind == "list" else {}
        mut.append(o)
    insts = [o for o in mut if isinstance(o, A)]
    imm = []
    for _ in range(rng.randrange(1, 4)):
        kind = rng.choice(["tuple", "tuple", "tuple", "frozenset", "method"])
        if kind == "method" and insts:
            imm.append(rng.choice(insts).meth)
        elif kind == "frozenset" and insts:
            imm.append(frozenset(rng.sample(insts, rng.randrange(1, len(insts) + 1)) + [prim() for _ in range(rng.randrange(0, 2))]))
        else:
            members = [rng.choice(mut) for _ in range(rng.randrange(1, 4))]
            if imm and rng.random() < 0.4:
                members.append(rng.choice(imm))
            if rng.random() < 0.4:
                members.insert(rng.randrange(len(members) + 1), prim())
            imm.append(tuple(members))

    def put(o, v):
        if isinstance(o, list):
            o.append(v)
        elif isinstance(o, dict):
            o["k%d" % len(o)] = v
        else:
            setattr(o, "a%d" % len(o.__dict__), v)

    def members(t):
        return [t.__self__] if isinstance(t, types.MethodType) else [x for x in t if any(x is m for m in mut)]

    for t in imm:  # references back to the immutable node from inside its own members (and from elsewhere)
        inside = members(t)
        for _ in range(rng.randrange(1, 3)):
            put(rng.choice(inside) if inside and rng.random() < 0.75 else rng.choice(mut), t)
    for o in mut:  # ordinary wiring between the mutables
        for _ in range(rng.randrange(0, 3)):
            put(o, rng.choice(mut) if rng.random() < 0.6 else prim())
    root = list(rng.sample(mut, rng.randrange(1, len(mut) + 1)))
    rng.shuffle(imm)
    root.extend(imm)  # ... and once more after every ancestor has been closed
    if rng.random() < 0.3:
        root.insert(0, rng.choice(imm))
    return root, len(imm)


class Diff(Exception):
    def __init__(self, text, placeholder_inside_own_container=False):
        Exception.__init__(self, text)
        self.placeholder = placeholder_inside_own_container


def iso(a, b, m, path="root", anc=()):
    """Raises Diff at the first difference.  `anc`: ids of the original's ancestors on this path."""
    from twisted.persisted.crefutil import NotKnown, _Dereference

    if type(a) is not type(b):
        # causal signature of the placeholder leak: the copy holds a compound NotKnown (never a bare
        # _Dereference) where the original refers to an immutable container / method that encloses this position
        # ... or that directly contains such an enclosing container (it waited for a placeholder of a placeholder)
        members = [a.__self__] if isinstance(a, types.MethodType) else list(a) if isinstance(a, (set, frozenset, tuple)) else []
        leak = isinstance(b, NotKnown) and not isinstance(b, _Dereference) and isinstance(a, (set, frozenset, tuple, types.MethodType)) \
            and (id(a) in anc or any(id(x) in anc and (isinstance(a, types.MethodType) or isinstance(x, (set, frozenset, tuple))) for x in members))
        raise Diff("%s: type %s vs %s" % (path, type(a).__name__, type(b).__name__), leak)
    if isinstance(a, (list, dict, set)) or hasattr(a, "uid"):
        if id(a) in m:
            if m[id(a)] != id(b):
                raise Diff("%s: sharing differs" % path)
            return
        if id(b) in m.values():
            raise Diff("%s: two originals map to one copy" % path)
        m[id(a)] = id(b)
    anc = anc + (id(a),)
    if isinstance(a, (list, tuple)):
        if len(a) != len(b):
            raise Diff("%s: length %d vs %d" % (path, len(a), len(b)))
        for i, (x, y) in enumerate(zip(a, b)):
            iso(x, y, m, "%s[%d]" % (path, i), anc)
    elif isinstance(a, dict):
        if set(map(repr, a)) != set(map(repr, b)):
            raise Diff("%s: keys differ" % path)
        for k in a:
            iso(a[k], b[k], m, "%s[%r]" % (path, k), anc)
    elif isinstance(a, (set, frozenset)):
        ka = {(("uid", x.uid) if hasattr(x, "uid") else ("val", x)): x for x in a}
        kb = {(("uid", x.uid) if hasattr(x, "uid") else ("val", x)): x for x in b}
        if set(ka) != set(kb):
            raise Diff("%s: members differ" % path)
        for k in ka:
            iso(ka[k], kb[k], m, "%s{%r}" % (path, k), anc)
    elif isinstance(a, types.MethodType):
        if a.__func__ is not b.__func__:
            raise Diff("%s: method function differs" % path)
        iso(a.__self__, b.__self__, m, path + ".__self__", anc)
    elif hasattr(a, "uid"):
        if set(a.__dict__) != set(b.__dict__):
            raise Diff("%s: attributes differ" % path)
        iso(a.__dict__, b.__dict__, m, path + ".__dict__", anc)
    elif a != b:
        raise Diff("%s: %r != %r" % (path, a, b))


def deref_of_compound(s):
    """Does the jelly contain a dereference to a reference whose body is a tuple/set/frozenset/method atom?"""
    refs, derefs, todo = {}, set(), [s]
    while todo:
        x = todo.pop()
        if type(x) is not list or not x:
            continue
        if x[0] == b"reference" and len(x) == 3 and type(x[2]) is list and x[2]:
            refs[x[1]] = x[2][0]
        elif x[0] == b"dereference" and len(x) == 2:
            derefs.add(x[1])
        todo.extend(y for y in x if type(y) is list)
    return any(refs.get(d) in (b"tuple", b"set", b"frozenset", b"method") for d in derefs)


def run_roundtrip(ctx, env, i):
    from twisted.persisted.crefutil import NotKnown

    rng = ctx.case_rng("rt", i)
    if i % 6 == 4:
        g, nf = gen_fresh(rng, env)
        shared = True
        ctx.count("fresh_state_roundtrips")
        ctx.count("fresh_state_instances", nf)
    elif i % 3 == 2:
        g, nimm = gen_directed(rng, env)
        shared = True
        ctx.count("directed_roundtrips")
        ctx.count("immutable_nodes_in_cycles_rereferenced", nimm)
    else:
        g, shared = gen_graph(rng, env)
    use_taster = rng.random() < 0.6
    taster = (env.pool[5] if rng.random() < 0.5 else make_policy(env, 5)).taster if use_taster else env.jelly.DummySecurityOptions()
    ctx.evaluated()
    ctx.count("roundtrips")
    s, diff, key = None, None, None
    with armed(), warnings.catch_warnings():
        warnings.simplefilter("ignore")
        try:
            s = env.jelly.jelly(g, taster)
            back = env.jelly.unjelly(s, taster)
            iso(g, back, {})
        except Diff as d:
            diff = str(d)
            key = "jelly-cyclic-container-placeholder-leaks" if d.placeholder else "roundtrip-not-isomorphic"
        except Exception as e:
            diff = "raised %s: %s" % (type(e).__name__, str(e)[:200])
            key = "roundtrip-raises"
            tb = e.__traceback__
            while tb.tb_next:
                tb = tb.tb_next
            if isinstance(e, AssertionError) and tb.tb_frame.f_code.co_name == "addDependant" and s is not None and deref_of_compound(s):
                key = "jelly-dereference-of-resolved-container-asserts"
    if shared:
        ctx.count("roundtrip_shared_or_cyclic")
        ctx.distinct(("rt", repr(s)))
    if diff:
        ctx.violation(key, "unjelly(jelly(g)) is not isomorphic to g", {"roundtrip_case": i, "jelly": s, "difference": diff, "taster": "instancesOf(Allowed)+method" if use_taster else "Dummy"})


def run_growing(ctx, env, i):
    """One SecurityOptions object used before and after the harness allows more on it: the hostile
    s-expression of each step is judged against the record of THAT moment; afterwards a graph of the newly
    allowed classes must round-trip with the same object."""
    pol = Policy(env, 8)
    ctx.count("growing_policy_cases")
    run_case(ctx, env, i, forced=pol, sub="g0")
    pol.allow_instances(env.amod.Allowed, env.amod.Derived, env.amod.Fresh)
    run_case(ctx, env, i, forced=pol, sub="g1")
    pol.allow_types("method", "function")
    run_case(ctx, env, i, forced=pol, sub="g2")
    rng = ctx.case_rng(i, "g-rt")
    g, _ = gen_directed(rng, env) if rng.random() < 0.3 else gen_graph(rng, env)
    diff = None
    with armed(), warnings.catch_warnings():
        warnings.simplefilter("ignore")
        try:
            s = env.jelly.jelly(g, pol.taster)
            iso(g, env.jelly.unjelly(s, pol.taster), {})
        except Diff as d:
            diff = str(d)
        except Exception as e:
            s, diff = None, "raised %s: %s" % (type(e).__name__, str(e)[:200])
    ctx.evaluated()
    ctx.count("roundtrips_after_policy_growth")
    if diff:
        ctx.violation("roundtrip-after-policy-growth", "a graph of classes allowed on the policy object after earlier unjelly calls does not round-trip with it",
                      {"growing_case": i, "difference": diff})


def run(ctx):
    with Env() as env:
        selftest(ctx, env)
        for i in ctx.cases(50000, 2000000):
            run_case(ctx, env, i)
        for i in ctx.cases(12000, 400000):
            run_roundtrip(ctx, env, i)
        for i in ctx.cases(2000, 60000):
            run_growing(ctx, env, i)
        ctx.count("setstate_calls_on_harness_class", len(env.amod.setstate_log))


def replay(ctx, w):
    with Env() as env:
        x = w["witness"]
        if x.get("growing_case") is not None or x.get("growing_step"):
            run_growing(ctx, env, x.get("growing_case", x.get("case")))
        elif "roundtrip_case" in x:
            run_roundtrip(ctx, env, x["roundtrip_case"])
        else:
            run_case(ctx, env, x["case"])
