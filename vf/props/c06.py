"""C06 DeferredLock / DeferredSemaphore are safe, fair and lose no capacity.

Monitor (API boundary): the firing of every acquire() Deferred (granted / CancelledError), every
invocation of a run() function, every run() result, every release() call (observed through a
subclass that overrides the public release(); calls not issued by the harness are "release-by-run"),
cancel() reaching the Deferred returned by a run() function, exceptions from release().

Oracle: reference model = free-capacity counter + FIFO of pending request ids, executed on the same
history; after EVERY step the real event sequence (grants in order, cancellations, function starts,
releases by run(), run results) must equal the model's.  Independently of the model, two invariants
are evaluated directly on the observed events: holders <= limit at every grant, and "a request is
pending => no capacity is free" after every step.

Guards: release without holding is misuse and never generated; cancel() of an already granted
acquisition must be a no-op (capacity unchanged) and is generated once per holder; operations
issued from inside a grant callback (release at once, acquire again) are part of the history and
the model performs them at the same point; transient states inside callbacks are not judged except
holders <= limit.  `waiting` / `locked` / `tokens` are read only for the pruning hash.

"f fails" includes failing synchronously with a BaseException that is not an Exception (run kind "bexc":
asyncio.CancelledError, GeneratorExit, a harness BaseException subclass; never SystemExit /
KeyboardInterrupt, so nothing can take the harness down).  The statement makes no exception for them:
run() must still release exactly once, hand the capacity to the next pending request, and report the very
failure to its caller; the exception must not come out of run() / release() / callback() of the harness
(that would be an ("error", ...) event).  Verified on the unchanged tree before the rule was added.
"""
from vf.engines import explore

LEVEL = "exploration"
ENGINE = "E1-explore"
TECHNIQUE = "runtime monitoring: capacity-counter + FIFO reference model compared event-by-event after every step"
RULE = ("E1: all histories over {acquire (hold | release inside the grant callback | acquire again inside the "
        "grant callback), release by holder h, cancel acquisition a (pending, or granted once), run(f succeeds | "
        "f raises | f raises a BaseException that is not an Exception | f returns an unfired Deferred | a fired Deferred whose chain waits on a pending one | a fired-and-"
        "paused Deferred), fire f's Deferred ok/fail, cancel a run Deferred (pending or "
        "waiting on f's Deferred)} for DeferredLock and DeferredSemaphore(1..3) to depth 10 (quick) / 11 (thorough) "
        "with at most 4 (quick) / 5 (thorough) live requests, pruned by hashing (model state, real waiting length, locked/tokens); plus "
        "random histories of 2000 steps with up to 8 live requests, and biased grow/churn/drain histories of 1500 steps "
        "with up to 40 live requests (pending queues of 10..40, limits up to 8, cancellations anywhere in the queue); all random "
        "histories draw from every run kind, and a third exhaustive pass (depth 7 / 8) uses {ok, non-Exception raise, unfired "
        "Deferred} so that such a failure occurs as first holder, queued behind holders and with requests queued behind it.  A case is one history (primitive, action "
        "list); non-trivial = at least two actions.")
ASSUMPTIONS = ["trusted base: the 50-line reference model in this module",
               "release() is observed by subclassing the primitive and overriding the public release()",
               "the exhaustive part bounds the number of simultaneously live requests (4 quick / 5 thorough); "
               "longer queues are reached only by the random histories (up to 40 live requests)"]
SHARDS = {"quick": 4, "thorough": 16}
FLOORS = {"step_comparisons": 5000, "grants": 2000, "queued_then_granted": 300, "cancelled_pending": 200,
          "cancel_of_granted": 100, "run_releases": 500, "run_cancel_reached_function_deferred": 50,
          "reentrant_ops": 200, "no_wait_checks": 5000, "steps_with_more_than_5_pending": 3000,
          "grants_out_of_a_queue_longer_than_5": 500, "cancellations_deep_in_a_long_queue": 300,
          "run_functions_returning_fired_but_unfinished_deferred": 2000,
          "run_functions_raising_non_exception_baseexception": 2000,
          "non_exception_failures_with_a_request_pending_behind": 500}
READY = True

CONFIGS = [("lock", 1), ("sem", 1), ("sem", 2), ("sem", 3)]
_CLS = {}


def _classes():
    if not _CLS:
        from twisted.internet import defer

        class MonLock(defer.DeferredLock):
            def release(self):
                self.mon()
                return defer.DeferredLock.release(self)

        class MonSem(defer.DeferredSemaphore):
            def release(self):
                self.mon()
                return defer.DeferredSemaphore.release(self)

        _CLS.update(lock=MonLock, sem=MonSem, defer=defer)
    return _CLS


class Boom(Exception):
    pass


class HarnessBaseException(BaseException):
    """Not an Exception; harmless if it ever escaped (the harness catches BaseException around every call)."""


def _non_exceptions():
    import asyncio
    return (asyncio.CancelledError, GeneratorExit, HarnessBaseException)


class World:
    def __init__(self, ctx, prim, limit, cap=4, run_kinds=("ok", "raise", "bexc", "dfr", "chn", "psd")):
        self.run_kinds = run_kinds
        c = _classes()
        self.defer = c["defer"]
        self.ctx = ctx
        self.prim, self.limit, self.cap = prim, limit, cap
        self.p = c["lock"]() if prim == "lock" else c["sem"](limit)
        self.p.mon = self.on_release
        # model: free capacity, FIFO of ("a"|"r", id), holders
        self.m_free = limit
        self.m_queue = []
        self.m_holders = []          # ("a", id) holding acquisitions, ("r", id) runs waiting on f's Deferred
        self.m_kind = {}             # ("a", id) -> hold/relnow/reacq ; ("r", id) -> ok/raise/dfr
        self.m_ids = {"a": 0, "r": 0}
        self.m_cancelled_once = set()
        self.mlog = []
        # real
        self.r_ids = {"a": 0, "r": 0}
        self.acq_d = {}              # a -> acquire Deferred
        self.run_d = {}              # r -> run Deferred
        self.f_d = {}                # r -> Deferred the harness fires / unpauses to make f's result available
        self.psd = set()             # runs whose function returned a fired-and-paused Deferred
        self.psd_fail = set()
        self.r_pending = set()       # requests whose Deferred has neither fired nor started
        self.r_holding = 0
        self.expect_direct = False
        self.log = []
        self.ptr = 0
        self.dead = False
        self.hist = []

    # ---- reference model ------------------------------------------------------------------
    def m_new(self, typ, kind):
        i = self.m_ids[typ]
        self.m_ids[typ] += 1
        self.m_kind[(typ, i)] = kind
        return (typ, i)

    def m_request(self, typ, kind):
        x = self.m_new(typ, kind)
        if self.m_free > 0:
            self.m_free -= 1
            self.m_grant(x)
        else:
            self.m_queue.append(x)

    def m_grant(self, x):
        kind = self.m_kind[x]
        if x[0] == "a":
            self.mlog.append(("grant", x[1]))
            if kind == "relnow":
                self.m_release()
            else:
                self.m_holders.append(x)
                if kind == "reacq":
                    self.m_request("a", "hold")
        else:
            self.mlog.append(("start", x[1]))
            if kind in ("dfr", "chn", "psd"):
                self.m_holders.append(x)          # the function's result is not available yet
            else:
                self.mlog.append(("release-by-run",))
                self.m_release()
                self.mlog.append(("done", x[1], {"ok": "ok", "raise": "boom", "bexc": "bboom"}[kind]))

    def m_release(self):
        if self.m_queue:
            self.m_grant(self.m_queue.pop(0))   # capacity handed over
        else:
            self.m_free += 1

    def m_finish_run(self, r, outcome):
        self.m_holders.remove(("r", r))
        self.mlog.append(("release-by-run",))
        self.m_release()
        self.mlog.append(("done", r, outcome))

    def m_apply(self, a):
        op = a[0]
        if op == "acq":
            self.m_request("a", a[1])
        elif op == "run":
            self.m_request("r", a[1])
        elif op == "rel":
            self.m_holders.remove(("a", a[1]))
            self.m_release()
        elif op == "cancel":
            x = ("a", a[1])
            if x in self.m_queue:
                self.m_queue.remove(x)
                self.mlog.append(("cancelled", a[1]))
            else:
                self.m_cancelled_once.add(x)   # granted: no effect at all
        elif op == "fire":
            self.m_finish_run(a[1], "dv" if a[2] else "dboom")
        elif op == "cancelrun":
            x = ("r", a[1])
            if x in self.m_queue:
                self.m_queue.remove(x)
                self.mlog.append(("done", a[1], "CANCELLED"))
            elif self.m_kind[x] == "psd":
                self.m_cancelled_once.add(x)       # f's Deferred has fired (it is only paused): cancel() is a no-op
            else:
                self.mlog.append(("fcancel", a[1]))
                self.m_finish_run(a[1], "CANCELLED")

    # ---- real primitive -----------------------------------------------------------------------
    def on_release(self):
        if self.expect_direct:
            self.expect_direct = False
        else:
            self.log.append(("release-by-run",))
            self.ctx.count("run_releases")
            self.r_holding -= 1

    def holder_added(self, what):
        self.r_holding += 1
        if self.r_holding > self.limit and not self.dead:
            self.dead = True
            self.ctx.violation("holders-exceed-limit", "more holders than the limit at a grant",
                               self.witness({"at": what, "holders": self.r_holding}))

    def r_release(self):
        self.r_holding -= 1
        self.expect_direct = True
        try:
            self.p.release()
        except BaseException as e:  # noqa
            self.log.append(("error", "release", type(e).__name__, str(e)[:80]))
        self.expect_direct = False

    def r_acquire(self, kind):
        a = self.r_ids["a"]
        self.r_ids["a"] += 1
        self.r_pending.add(("a", a))

        def granted(_):
            self.r_pending.discard(("a", a))
            self.log.append(("grant", a))
            self.holder_added(("grant", a))
            if kind == "relnow":
                self.ctx.count("reentrant_ops")
                self.r_release()
            elif kind == "reacq":
                self.ctx.count("reentrant_ops")
                self.r_acquire("hold")

        def failed(f):
            self.r_pending.discard(("a", a))
            if f.check(self.defer.CancelledError):
                self.log.append(("cancelled", a))
            else:
                self.log.append(("error", "acquire-failed", f.type.__name__, f.getErrorMessage()[:80]))

        try:
            d = self.p.acquire()
        except BaseException as e:  # noqa
            self.log.append(("error", "acquire", type(e).__name__, str(e)[:80]))
            return
        self.acq_d[a] = d
        d.addCallbacks(granted, failed)

    def r_run(self, kind):
        r = self.r_ids["r"]
        self.r_ids["r"] += 1
        self.r_pending.add(("r", r))

        def f():
            self.r_pending.discard(("r", r))
            self.log.append(("start", r))
            self.holder_added(("start", r))
            if kind == "ok":
                return ("value", r)
            if kind == "raise":
                raise Boom(r)
            if kind == "bexc":
                self.ctx.count("run_functions_raising_non_exception_baseexception")
                exc = _non_exceptions()[r % 3]
                self.ctx.seen("non_exception_types_raised", exc.__name__)
                raise exc("b", r)
            if kind == "psd":
                # fired-and-paused: `called` is true, but the result is only available after unpause()
                self.ctx.count("run_functions_returning_fired_but_unfinished_deferred")
                o = self.defer.succeed(("dvalue", r))
                o.pause()
                o.addCallback(lambda v: self.raise_(Boom("d", r)) if r in self.psd_fail else v)   # decided at unpause time
                self.f_d[r] = o
                self.psd.add(r)
                return o
            fd = self.defer.Deferred(lambda _: (self.log.append(("fcancel", r)), self.ctx.count("run_cancel_reached_function_deferred")))
            self.f_d[r] = fd
            if kind == "chn":
                # fired-but-chained: `called` is true, its callback chain waits on the pending fd
                self.ctx.count("run_functions_returning_fired_but_unfinished_deferred")
                o = self.defer.succeed(None)
                o.addCallback(lambda _: fd)
                return o
            return fd

        def done(v):
            self.r_pending.discard(("r", r))
            if v == ("value", r):
                self.log.append(("done", r, "ok"))
            elif v == ("dvalue", r):
                self.log.append(("done", r, "dv"))
            else:
                self.log.append(("done", r, ("unexpected-value", repr(v)[:60])))

        def failed(f):
            self.r_pending.discard(("r", r))
            if f.type is _non_exceptions()[r % 3] and f.value.args == ("b", r):
                self.log.append(("done", r, "bboom"))
            elif f.check(self.defer.CancelledError):
                self.log.append(("done", r, "CANCELLED"))
            elif f.check(Boom) and f.value.args == (r,):
                self.log.append(("done", r, "boom"))
            elif f.check(Boom) and f.value.args == ("d", r):
                self.log.append(("done", r, "dboom"))
            else:
                self.log.append(("done", r, ("unexpected-failure", f.type.__name__, f.getErrorMessage()[:60])))

        try:
            d = self.p.run(f)
        except BaseException as e:  # noqa
            self.log.append(("error", "run", type(e).__name__, str(e)[:80]))
            return
        self.run_d[r] = d
        d.addCallbacks(done, failed)

    def r_apply(self, a):
        op = a[0]
        try:
            if op == "acq":
                self.r_acquire(a[1])
            elif op == "run":
                self.r_run(a[1])
            elif op == "rel":
                self.r_release()
            elif op == "cancel":
                self.acq_d[a[1]].cancel()
            elif op == "fire":
                if a[1] in self.psd:
                    if not a[2]:
                        self.psd_fail.add(a[1])
                    self.f_d[a[1]].unpause()
                elif a[2]:
                    self.f_d[a[1]].callback(("dvalue", a[1]))
                else:
                    self.f_d[a[1]].errback(Boom("d", a[1]))
            elif op == "cancelrun":
                self.run_d[a[1]].cancel()
        except BaseException as e:  # noqa
            self.log.append(("error", op, type(e).__name__, str(e)[:80]))

    def raise_(self, e):
        raise e

    # ---- E1 interface -------------------------------------------------------------------------
    def actions(self):
        if self.dead:
            return []
        acts = []
        if len(self.m_queue) + len(self.m_holders) < self.cap:
            acts += [("acq", "hold"), ("acq", "relnow"), ("acq", "reacq")] + [("run", k) for k in self.run_kinds]
        for x in self.m_holders:
            if x[0] == "a":
                acts.append(("rel", x[1]))
                if x not in self.m_cancelled_once:
                    acts.append(("cancel", x[1]))
            else:
                acts += [("fire", x[1], True), ("fire", x[1], False)]
                if x not in self.m_cancelled_once:
                    acts.append(("cancelrun", x[1]))
        for x in self.m_queue:
            acts.append(("cancel", x[1]) if x[0] == "a" else ("cancelrun", x[1]))
        return acts

    def apply(self, a):
        if self.dead:
            return
        a = tuple(a)
        self.hist.append(a)
        ctx = self.ctx
        queued_before = list(self.m_queue)
        if a[0] == "cancel":
            ctx.count("cancelled_pending" if ("a", a[1]) in self.m_queue else "cancel_of_granted")
        if len(queued_before) > 5:
            ctx.count("steps_with_more_than_5_pending")
            if a[0] in ("cancel", "cancelrun") and (("a" if a[0] == "cancel" else "r"), a[1]) in queued_before[3:]:
                ctx.count("cancellations_deep_in_a_long_queue")
            ctx.maxi("pending_queue_length", len(queued_before))
        self.m_apply(a)
        self.r_apply(a)
        if self.dead:
            return
        # compare the new suffix of the event sequences
        ctx.count("step_comparisons")
        new_m, new_r = self.mlog[self.ptr:], self.log[self.ptr:]
        if new_m != new_r:
            self.dead = True
            i = 0
            while i < len(new_m) and i < len(new_r) and new_m[i] == new_r[i]:
                i += 1
            exp = new_m[i] if i < len(new_m) else None
            got = new_r[i] if i < len(new_r) else None
            ctx.violation(classify(a, exp, got, queued_before), "lock/semaphore events differ from the capacity+FIFO reference model",
                          self.witness({"first_difference": {"expected": exp, "observed": got}}))
            return
        for e in new_r:
            if e[0] in ("grant", "start"):
                ctx.count("grants")
                if (("a" if e[0] == "grant" else "r"), e[1]) in queued_before:
                    ctx.count("queued_then_granted")
                    if len(queued_before) > 5:
                        ctx.count("grants_out_of_a_queue_longer_than_5")
            elif e[0] == "done" and e[2] == "bboom" and queued_before and queued_before != [("r", e[1])]:
                ctx.count("non_exception_failures_with_a_request_pending_behind")
        self.ptr = len(self.log)
        # model-independent: a pending request implies no free capacity
        ctx.count("no_wait_checks")
        if self.r_pending and self.r_holding < self.limit:
            self.dead = True
            ctx.violation("pending-while-capacity-free", "a request is pending although capacity is free",
                          self.witness({"pending": sorted(self.r_pending), "holders": self.r_holding}))

    def witness(self, extra):
        w = {"primitive": self.prim, "limit": self.limit, "history": list(self.hist),
             "expected_events": list(self.mlog), "observed_events": list(self.log)}
        w.update(extra)
        return w

    def state(self):
        hold = tuple(sorted((x[1], x[0], self.m_kind[x], x in self.m_cancelled_once) for x in self.m_holders))
        hold = tuple(h[1:] for h in hold)
        real = (len(self.p.waiting), self.p.locked if self.prim == "lock" else self.p.tokens)
        return (self.m_free, tuple((x[0], self.m_kind[x]) for x in self.m_queue), hold, real, self.dead)


def classify(action, exp, got, queued_before):
    """Mechanism key from the action and the first differing event."""
    e0, g0 = (exp or ("nothing",))[0], (got or ("nothing",))[0]
    if g0 == "error":
        return "unexpected-exception-from-%s" % got[1]
    if e0 == "release-by-run" and g0 != "release-by-run":
        return "run-did-not-release-when-result-available"
    if g0 == "release-by-run":
        return "run-released-early-or-twice"
    if e0 in ("grant", "start") and g0 in ("grant", "start"):
        return "grant-out-of-request-order"
    if e0 in ("grant", "start"):
        return "pending-request-not-granted-when-capacity-freed"
    if g0 in ("grant", "start"):
        if action[0] in ("cancel", "cancelrun"):
            return "grant-caused-by-cancellation"
        return "grant-without-free-capacity-or-of-cancelled-request"
    if e0 == "cancelled" or g0 == "cancelled":
        return "cancelled-acquisition-outcome-mismatch"
    if e0 == "fcancel" or g0 == "fcancel":
        return "run-cancellation-did-not-reach-function-deferred"
    if e0 == "done" or g0 == "done":
        return "run-result-mismatch"
    return "trace-mismatch"


def run(ctx):
    depth = 10 if ctx.quick else 11
    # three exhaustive passes: the full depth with f returning an un-fired Deferred, and 4 levels less with f returning
    # a fired-but-unfinished Deferred (chained on a pending one / paused) instead, and 3 levels less with f raising a
    # BaseException that is not an Exception instead of an Exception
    for ci, (prim, limit, kinds, depth) in enumerate([c + (("ok", "raise", "dfr"), depth) for c in CONFIGS] +
                                                     [c + (("ok", "chn", "psd"), depth - 4) for c in CONFIGS] +
                                                     [c + (("ok", "bexc", "dfr"), depth - 3) for c in CONFIGS]):
        def mk(prim=prim, limit=limit, kinds=kinds):
            return World(ctx, prim, limit, cap=4 if ctx.quick else 5, run_kinds=kinds)

        def on_node(w, history, ci=ci, depth=depth):
            ctx.evaluated()
            if len(history) >= 2 and ctx.n_distinct < 40000:   # every DFS node is a different history; keep the hash set small
                ctx.distinct((ci, tuple(history)))
            if len(history) == depth and len(w.log) > 10:
                ctx.sample({"primitive": w.prim, "limit": w.limit, "history": list(w.hist), "events": list(w.log)}, limit=3)

        explore.dfs(ctx, mk, depth, shard_depth=2, on_node=on_node)
        ctx.seen("configs", "%s limit=%d" % (prim, limit))
    for i in ctx.cases(40, 2000):
        prim, limit = CONFIGS[i % len(CONFIGS)]

        def on_end(w, hist):
            ctx.distinct(("walk", w.prim, w.limit, tuple(hist)))
            ctx.count("walk_steps", len(hist))

        explore.random_walks(ctx, lambda: World(ctx, prim, limit, cap=5 + i % 4), [i], 2000, rng_key="walk", on_end=on_end)
    # long queues: biased walks that grow the pending queue to 10..40 requests, churn (cancellations anywhere in the
    # queue, releases, run results) and drain it again; limits up to 8
    for i in ctx.cases(48, 1200):
        rng = ctx.case_rng("longq", i)
        prim, limit = (CONFIGS + [("sem", 5), ("sem", 8)])[i % 6]
        w = World(ctx, prim, limit, cap=rng.choice((12, 20, 40)))
        for step in range(1500):
            acts = w.actions()
            if not acts:
                break
            create = [a for a in acts if a[0] in ("acq", "run")]
            other = [a for a in acts if a[0] not in ("acq", "run")]
            phase = (step // 150) % 3            # grow / churn / drain
            pc = (0.8, 0.45, 0.15)[phase]
            pool = create if (create and (not other or rng.random() < pc)) else other
            w.apply(rng.choice(pool))
        ctx.evaluated()
        ctx.distinct(("longq", prim, limit, tuple(w.hist)))
        ctx.count("long_queue_walk_steps", len(w.hist))


def replay(ctx, w):
    x = w["witness"]
    world = World(ctx, x["primitive"], x["limit"], cap=10 ** 9)
    for a in x["history"]:
        world.apply(tuple(a))
