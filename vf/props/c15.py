"""C15 every reactor delivers TCP byte streams intact and reports connection loss exactly once.

Engine E6: one subprocess per real reactor class (select, poll, epoll, asyncio).  Inside, S
concurrent REAL loopback TCP connections (own listening port each) with SO_SNDBUF/SO_RCVBUF shrunk
(4-16 KiB, forces partial writes and user-space buffering; a quarter keep the kernel defaults) and receivers that pause/resume reading.
The same generated connection specs are run on every reactor.

Scenario kinds - chosen so that an orderly close can never legitimately become a reset (a closing
side never has unread or still-arriving data):
  a  one side streams its ops then loseConnection(); the other side never writes;
  b  both sides write known totals, each loseWriteConnection() when done (IHalfCloseableProtocol);
     loseConnection() once both halves are reported closed;
  c  both sides write; the designated closer calls loseConnection() only after its own ops are done
     AND it has received the peer's announced total;
  d  the aborting side calls abortConnection() after a generated number of write ops.
  e  like a, but the sender asks for a half close and a full close back to back while its writes are
     still buffered: loseWriteConnection(); loseConnection() (variant 1: one more write between
     the two; variant 2: the two calls in the other order) - the peer must still get every byte.
  f  request/ack: one side streams a request larger than one recv(65536) quickly; the other side's
     protocol is IHalfCloseableProtocol, acknowledges every dataReceived with a short write and, when
     the announced byte count is complete, writes a final reply and calls loseConnection() - all
     from inside dataReceived, so the transport is readable and writable in the same reactor event.
     Nobody half-closes here: a read/writeConnectionLost delivered while the peer has neither
     closed nor half-closed is reported (`halfclose-notification-without-half-close`).
  g  application errors and re-entrancy: one side's dataReceived RAISES once it has received a
     generated number of bytes (plain raise / abortConnection() then raise / loseConnection() then
     raise); both sides, from inside connectionLost, call write, writeSequence, loseConnection,
     abortConnection, pause/resumeProducing on the dying transport.  Oracle as for d: prefixes,
     exactly one connectionLost per side, nothing after it; the reasons are not judged.
  h  cross-connection groups: two connection pairs T and V on the same reactor.  V's server has a
     large output queued (its client is not reading yet); in one reactor turn T's client sends a
     message and V's client makes V's server readable (a bare FIN: it half-closes but keeps reading -
     or a message).  T's server, inside dataReceived, acts on V's server transport:
     loseConnection() / write+writeSequence+loseConnection() / abortConnection() /
     pauseProducing()+later resume.  Both accept orders and both send orders are generated.  Oracle
     per connection, unchanged: an orderly close delivers every byte written before it and gives
     ConnectionDone on both sides, an abort gives a prefix, connectionLost exactly once.
12 % of the payload sizes are recv-buffer / SEND_LIMIT boundary values (65536, 131072, ... +-1).
Some kind-a specs use the "bigtail" pattern: one write of 256 KiB..1 MiB (a multiple of SEND_LIMIT),
a short trailer one reactor turn later, then loseConnection(), default socket buffers.
Write ops: write(n) incl. n=0, writeSequence([..]) incl. empty chunks/empty list, delays (writes
issued from callLater), single writes up to the whole payload.

Monitor (per protocol, at the application boundary): every dataReceived (running SHA-256, length,
incremental comparison with the peer's generated payload -> first differing offset), every
connectionLost(reason), anything delivered after connectionLost.  Oracle (decided in the parent,
which regenerates the payloads and re-checks the digests independently):
  a-c,e,f  received == sent (both directions; in f "sent" by the acknowledging side is what it issued); exactly one connectionLost per protocol, reason
       ConnectionDone, nothing after it;
  d    received is a prefix of sent (both directions); exactly one connectionLost per protocol; the
       aborting side's reason is ConnectionAborted (documented meaning of error.ConnectionAborted; DESIGN C15); the
       peer's reason is not constrained; nothing after connectionLost.
connectionLost "exactly once" also means "not zero times".  On real sockets only time can tell, so
there is ONE generous wall-clock verdict (like C13's idle bound): when the exchange is logically
complete - one side got its connectionLost, each side received every byte the other had to send and
both finished their writes - and the reactor provably kept iterating (>= 40 ticks of a 0.25 s
ticker), a side whose connectionLost has still not been called 20 s later is reported as
`connectionlost-never-called`.  With the same bound and the same ticker evidence, a connection of kind
a/b/c/e/f on which both sides are connected, nobody was told connectionLost, no side ever paused reading,
one side has issued all its writes, the peer has not received all of them and nothing at all moved for
20 s is reported as `written-bytes-never-delivered` (the byte stream is not delivered: e.g. a reactor that
drops the writer registration when it reads the peer's half-close).  Every other time-out stays inconclusive.
Guards: a connection that does not finish before the in-child watchdog, a failed connect, or a
subprocess timeout are INCONCLUSIVE (no verdict depends on time).
"""
import hashlib
import random

LEVEL = "exploration"
ENGINE = "E6-reactorproc"
TECHNIQUE = "runtime monitoring: received-stream == generated payload (digest + incremental compare) and connectionLost exactly-once/reason checks on real loopback sockets per reactor"
RULE = ("one case = (reactor class, connection spec); a spec = scenario kind a/b/c/d/e/f/g (+ cross-connection groups h), closing/aborting role, per-direction "
        "payload (0..256 KiB quick, 0..4 MiB thorough) cut into generated write/writeSequence/delay ops, socket buffer "
        "sizes, receiver pause plans; the same specs run on all four reactors; distinct by (reactor, spec); "
        "non-trivial = at least one byte sent in some direction")
ASSUMPTIONS = [
    "loopback TCP of this kernel only; partial writes are forced by small socket buffers, not enumerated",
    "payloads are regenerated from the seed in the parent and the child's digests re-checked there",
    "trusted base: vf.engines.reactorproc, hashlib, random.Random.randbytes",
]
SHARDS = {"quick": 4, "thorough": 16}
FLOORS = {
    "quick": {"conns_decided": 40, "connectionlost_observed": 80, "bytes_received": 1000000, "decided_select": 10, "decided_poll": 10,
              "decided_epoll": 10, "decided_asyncio": 10, "kind_a": 4, "kind_b": 4, "kind_c": 4, "kind_d": 4, "kind_e": 4, "kind_f": 4, "kind_g": 4, "kind_h": 64, "h_acted_on_conn_with_pending_fin": 8, "boundary_totals": 4, "acks_written": 8, "conns_exceeding_socket_buffers": 12},
    "thorough": {"conns_decided": 100, "connectionlost_observed": 200, "bytes_received": 10000000, "decided_select": 25, "decided_poll": 25,
                 "decided_epoll": 25, "decided_asyncio": 25, "kind_a": 8, "kind_b": 8, "kind_c": 8, "kind_d": 8, "kind_e": 8, "kind_f": 8, "kind_g": 8, "kind_h": 200, "h_acted_on_conn_with_pending_fin": 40, "boundary_totals": 16, "acks_written": 30, "conns_exceeding_socket_buffers": 30},
}
WATCHDOG_S = {"quick": 600, "thorough": 3000}
READY = True

class PlannedAppError(Exception):
    """Raised on purpose by a protocol's dataReceived (kind g)."""


CONCURRENCY = 8
NEVER_LOST_BOUND_S = 20.0
NEVER_LOST_MIN_TICKS = 40


def gen_data(seed, role, total):
    return random.Random("c15:%s:%s" % (seed, role)).randbytes(total)


# ------------------------------------------------------------------------------------------ child
def scenario(reactor, inp):
    import socket
    import time

    from twisted.internet import protocol
    from twisted.internet.interfaces import IHalfCloseableProtocol
    from zope.interface import implementer

    specs = list(inp["conns"])
    groups = {}
    state = {"next": 0, "active": 0, "done": [], "problems": [], "finishing": False}
    conns = {}

    class Side(protocol.Protocol):
        def __init__(self, conn, role):
            spec = conn.spec
            self.conn, self.spec, self.role = conn, spec, role
            self.kind = spec["kind"]
            peer = "server" if role == "client" else "client"
            mine = spec["c2s"] if role == "client" else spec["s2c"]
            theirs = spec["s2c"] if role == "client" else spec["c2s"]
            self.ops = list(mine["ops"])
            self.out = gen_data(spec["seed"], role, mine["total"])
            self.out_pos = 0
            self.expect = gen_data(spec["seed"], peer, theirs["total"])
            self.rx = 0
            self.sha = hashlib.sha256()
            self.first_diff = None
            self.n_data = 0
            self.made = 0
            self.lost = []
            self.after_lost = {"dataReceived": 0, "bytes": 0, "readConnectionLost": 0, "writeConnectionLost": 0}
            self.ops_done = False
            self.ops_issued = 0
            self.read_closed = self.write_closed = False
            self.closing = False
            self.aborted = False
            self.half_requested = False
            self.raised = False
            self.pauses = [list(p) for p in spec["pauses"][role]]
            self.n_pauses = 0

        # ---- lifecycle
        def connectionMade(self):
            self.made += 1
            sock = self.transport.getHandle()
            if self.spec["sndbuf"]:  # 0 = kernel default (large): whole-buffer sends, full 64 KiB reads
                sock.setsockopt(socket.SOL_SOCKET, socket.SO_SNDBUF, self.spec["sndbuf"])
            if self.spec["rcvbuf"]:
                sock.setsockopt(socket.SOL_SOCKET, socket.SO_RCVBUF, self.spec["rcvbuf"])
            if self.kind == "h":
                if not self.ops:
                    self.ops_done = True
                g = groups.setdefault(self.spec["group"], {"members": {}, "armed": False})
                g["members"][(self.spec["h_role"], self.role)] = self
                if self.spec["h_role"] == "V" and self.role == "client":
                    self.transport.pauseProducing()  # V's big output piles up in the server's user-space buffer
                if self.spec["h_role"] == "V" and self.role == "server":
                    self.run_ops()
                maybe_arm(g)
                return
            self.run_ops()

        def take(self, n):
            b = self.out[self.out_pos:self.out_pos + n]
            self.out_pos += n
            return b

        def run_ops(self):
            if self.lost or self.aborted:
                return
            if self.kind == "h" and self.spec["h_role"] == "T" and self.role == "client" and not groups[self.spec["group"]]["armed"]:
                return  # T's client only speaks at the trigger
            while self.ops:
                if self.kind == "d" and self.role == self.spec["closer"] and self.ops_issued >= self.spec["abort_after_ops"]:
                    self.aborted = True
                    self.transport.abortConnection()
                    return
                op = self.ops.pop(0)
                if (self.kind == "e" and self.role == self.spec["closer"] and self.spec["e_variant"] == 1 and op[0] != "d"
                        and not any(o[0] != "d" for o in self.ops) and not self.half_requested):
                    self.half_requested = True  # last write op: half close requested just before it
                    self.transport.loseWriteConnection()
                if op[0] == "d":
                    reactor.callLater(op[1] / 1000.0, self.run_ops)
                    return
                self.ops_issued += 1
                if op[0] == "w":
                    self.transport.write(self.take(op[1]))
                else:
                    self.transport.writeSequence([self.take(n) for n in op[1]])
            self.ops_done = True
            k = self.kind
            if k == "a":
                if self.role == self.spec["closer"]:
                    self.closing = True
                    self.transport.loseConnection()
            elif k == "e":
                if self.role == self.spec["closer"]:
                    self.closing = True
                    v = self.spec["e_variant"]
                    if v == 2:
                        self.transport.loseConnection()
                        self.transport.loseWriteConnection()
                    else:
                        if not self.half_requested:
                            self.transport.loseWriteConnection()
                        self.transport.loseConnection()
            elif k == "b":
                self.transport.loseWriteConnection()
            elif k == "c":
                self.maybe_close()
            elif k == "d" and self.role == self.spec["closer"]:
                self.aborted = True
                self.transport.abortConnection()
            elif k == "h" and self.spec["h_role"] == "T" and self.role == "server":
                self.closing = True
                self.transport.loseConnection()
            elif k == "h" and self.spec["h_role"] == "V" and self.role == "server":
                maybe_arm(groups.get(self.spec["group"], {"members": {}, "armed": True}))

        def maybe_close(self):
            if (self.role == self.spec["closer"] and self.ops_done and self.rx >= len(self.expect)
                    and not self.closing and not self.lost):
                self.closing = True
                self.transport.loseConnection()

        # ---- monitor
        def dataReceived(self, data):
            if self.lost:
                self.after_lost["dataReceived"] += 1
                self.after_lost["bytes"] += len(data)
                return
            self.n_data += 1
            if self.first_diff is None:
                want = self.expect[self.rx:self.rx + len(data)]
                if want != data:
                    i = next((j for j in range(min(len(want), len(data))) if want[j] != data[j]), min(len(want), len(data)))
                    off = self.rx + i
                    got = data[i:i + 48]
                    probe = got[:16]
                    where = self.expect.find(probe, max(0, off - 2 ** 21), off + 2 ** 21) if len(probe) == 16 else -1
                    self.first_diff = {"offset": off, "got": got.hex(), "want": self.expect[off:off + 48].hex(),
                                       "got_found_in_payload_at": where}
            self.sha.update(data)
            self.rx += len(data)
            if self.pauses and self.rx >= self.pauses[0][0] and not self.closing:
                _, dur = self.pauses.pop(0)
                self.n_pauses += 1
                self.transport.pauseProducing()
                reactor.callLater(dur / 1000.0, self.resume)
            if self.kind == "h":
                if self.spec["h_role"] == "T" and self.role == "server" and not self.closing and self.rx >= len(self.expect):
                    h_act(self)
                    self.run_ops()  # its own small reply, then its own loseConnection (see run_ops)
                elif (self.spec["h_role"] == "V" and self.role == "server" and self.spec["h_action"] == "pause-resume"
                      and not self.closing and self.rx >= len(self.expect)):
                    self.closing = True
                    self.transport.loseConnection()
            elif self.kind == "c":
                self.maybe_close()
            elif self.kind == "f" and self.role == self.spec["closer"] and not self.closing:
                # request/ack: acknowledge every chunk; when the announced request is complete send
                # the final reply and close - all from inside dataReceived, with acks still queued
                if self.rx < len(self.expect):
                    if self.out_pos + self.spec["ack_len"] + self.spec["final_len"] <= len(self.out):
                        self.transport.write(self.take(self.spec["ack_len"]))
                else:
                    self.transport.write(self.take(self.spec["final_len"]))
                    self.closing = True
                    self.transport.loseConnection()
            elif self.kind == "g" and self.role == self.spec["closer"] and not self.raised and self.rx >= self.spec["raise_at"]:
                self.raised = True
                v = self.spec["g_variant"]
                if v == "abort-then-raise":
                    self.aborted = True
                    self.transport.abortConnection()
                elif v == "lose-then-raise":
                    self.closing = True
                    self.transport.loseConnection()
                raise PlannedAppError("dataReceived of conn %s" % self.spec["id"])  # application bug: the reactor must drop the connection, once
            elif self.kind == "d" and self.role != self.spec["closer"]:
                thr = self.spec.get("abort_when_peer_rx")
                other = self.conn.sides[self.spec["closer"]]
                if thr is not None and self.rx >= thr and not other.aborted and not other.lost:
                    other.aborted = True  # mid-stream abort: the peer has provably received a non-empty prefix
                    other.transport.abortConnection()

        def resume(self):
            if not self.lost and not self.closing:
                self.transport.resumeProducing()

        def connectionLost(self, reason):
            self.lost.append([reason.type.__name__ if reason.type else "?", str(reason.value)[:120]])
            if self.kind == "h" and self.spec["h_role"] == "V" and self.role == "server" and not groups[self.spec["group"]].get("acted"):
                # V's own input was handled before T got to act (dispatch order / timing): reading a
                # peer's FIN legitimately closes a non-half-closeable connection at once, so this
                # attempt says nothing about the cross-connection case
                self.conn.h_unordered = True
            if self.kind == "g" and len(self.lost) == 1:
                # application code re-entering the dying transport from connectionLost: all no-ops
                t = self.transport
                t.write(b"late")
                t.writeSequence([b"la", b"te"])
                t.loseConnection()
                t.abortConnection()
                t.pauseProducing()
                t.resumeProducing()
            self.conn.side_lost(self)

        def sent_len(self):
            return self.out_pos if (self.kind == "f" and self.role == self.spec["closer"]) else len(self.out)

        def half(self, which):
            if self.lost:
                self.after_lost[which] += 1
                return
            if self.kind == "f":
                # nobody half-closes in this scenario: the peer only streams and waits for the close
                peer = self.conn.sides["server" if self.role == "client" else "client"]
                if not (peer.lost or peer.closing or peer.aborted or peer.half_requested) and self.conn.spurious is None:
                    self.conn.spurious = {"side": self.role, "notification": which, "rx": self.rx, "closing": self.closing,
                                          "peer_tx_issued": peer.out_pos}
                    for x in self.conn.sides.values():  # tidy up so the run can end; the verdict is already fixed
                        if not x.lost:
                            x.aborted = True
                            x.transport.abortConnection()
                return
            if which == "readConnectionLost":
                self.read_closed = True
            else:
                self.write_closed = True
            if self.read_closed and self.write_closed and not self.closing:
                self.closing = True
                self.transport.loseConnection()

        def report(self):
            return {"made": self.made, "rx": self.rx, "sha256": self.sha.hexdigest(), "first_diff": self.first_diff,
                    "n_dataReceived": self.n_data, "lost": self.lost, "after_lost": self.after_lost, "tx_total": len(self.out),
                    "tx_issued": self.out_pos, "ops_done": self.ops_done, "aborted": self.aborted, "pauses": self.n_pauses,
                    "read_closed": self.read_closed, "write_closed": self.write_closed}

    @implementer(IHalfCloseableProtocol)
    class HalfSide(Side):
        def readConnectionLost(self):
            self.half("readConnectionLost")

        def writeConnectionLost(self):
            self.half("writeConnectionLost")

    def maybe_arm(g):
        m = g["members"]
        if g["armed"] or len(m) < 4 or not m[("V", "server")].ops_done:
            return
        g["armed"] = True
        reactor.callLater(0.05, trigger, g)

    def trigger(g):
        """One reactor turn: T's client sends its message and V's client makes V's server readable
        (a bare FIN, or a message) - both become pending on the server side at the same time."""
        m = g["members"]
        vc, tc = m[("V", "client")], m[("T", "client")]
        if vc.lost or tc.lost:
            return
        order = [vc, tc] if vc.spec["h_first"] == "V" else [tc, vc]
        for side in order:
            if side is tc:
                tc.run_ops()
            elif vc.spec["h_action"] == "pause-resume":
                vc.run_ops()  # a message (no FIN)
            else:
                vc.half_requested = True
                vc.transport.loseWriteConnection()  # half close, keeps reading
        reactor.callLater(0.15, lambda: (not vc.lost) and vc.transport.resumeProducing())

    def h_act(t_server):
        """Runs inside T-server's dataReceived: acts on ANOTHER connection (V's server transport)
        whose own input is pending in the same reactor iteration."""
        g = groups[t_server.spec["group"]]
        v = g["members"][("V", "server")]
        action = t_server.spec["h_action"]
        g["acted"] = action
        if v.lost:
            return
        tr = v.transport
        if action == "lose":
            v.closing = True
            tr.loseConnection()
        elif action == "write-lose":
            tr.write(v.take(v.spec["h_trailer"]))
            tr.writeSequence([v.take(1), v.take(len(v.out) - v.out_pos)])
            v.closing = True
            tr.loseConnection()
        elif action == "abort":
            v.aborted = True
            tr.abortConnection()
        else:  # pause-resume: V's pending message is read only after the resume; then V closes itself
            tr.pauseProducing()
            reactor.callLater(0.05, lambda: (not v.lost) and tr.resumeProducing())

    class Conn:
        def __init__(self, spec):
            self.spec = spec
            self.spurious = None
            self.sides = {r: (HalfSide if spec["kind"] == "b" or (spec["kind"] == "f" and r == spec["closer"]) else Side)(self, r)
                          for r in ("client", "server")}
            self.finished = False
            self.failed = None
            self.never_lost = None
            self.h_unordered = False
            self.complete_since = None
            self.stall_since = None
            self.stalled = None
            sf = protocol.ServerFactory()
            sf.buildProtocol = lambda addr: self.accept()
            self.port = reactor.listenTCP(0, sf, interface="127.0.0.1", backlog=5)
            if spec["rcvbuf"]:
                self.port.socket.setsockopt(socket.SOL_SOCKET, socket.SO_RCVBUF, spec["rcvbuf"])
            cf = protocol.ClientFactory()
            cf.buildProtocol = lambda addr: self.sides["client"]
            cf.clientConnectionFailed = lambda connector, reason: self.connect_failed(reason)
            cf.noisy = sf.noisy = False
            self.accepted = 0
            reactor.connectTCP("127.0.0.1", self.port.getHost().port, cf, timeout=30)

        def accept(self):
            self.accepted += 1
            if self.accepted > 1:
                return None
            self.port.stopListening()
            return self.sides["server"]

        def connect_failed(self, reason):
            self.failed = str(reason.value)[:200]
            try:
                self.port.stopListening()
            except Exception:
                pass
            self.finish()

        def side_lost(self, side):
            if not self.finished and all(s.lost for s in self.sides.values()):
                self.finish()

        def finish(self):
            self.finished = True
            state["active"] -= 1
            state["done"].append(self)
            pump()

        def check_never_lost(self, now, ticks):
            """The one wall-clock verdict of C15 (see module docstring)."""
            if self.finished or self.failed:
                return
            a = [x for x in self.sides.values() if x.lost]
            b = [x for x in self.sides.values() if not x.lost]
            if len(a) != 1 or not b[0].made:
                return
            a, b = a[0], b[0]
            complete = a.rx == b.sent_len() and b.rx == a.sent_len() and b.ops_done and a.ops_done
            if self.spec["kind"] == "f" and not self.sides[self.spec["closer"]].closing:
                complete = False
            if not complete:
                return
            if self.complete_since is None:
                self.complete_since = (now, ticks)
            elif now - self.complete_since[0] >= NEVER_LOST_BOUND_S and ticks - self.complete_since[1] >= NEVER_LOST_MIN_TICKS:
                self.never_lost = {"side": b.role, "waited_s": round(now - self.complete_since[0], 1), "reactor_ticks_meanwhile": ticks - self.complete_since[1]}
                self.finish()

        def check_stalled(self, now, ticks):
            """Second (and last) wall-clock verdict, with the same generous bound and the same ticker
            evidence: both sides are connected, nobody has been told connectionLost, no side ever
            paused or plans to pause reading (kinds a, b, c, e, f only), some side has issued all its
            writes and the peer has not received all of them - and NOTHING at all has moved on the
            connection (bytes received, bytes issued, notifications) for 20 s and >= 40 reactor ticks."""
            if self.finished or self.failed or self.spec["kind"] not in "abcef":
                return
            ss = list(self.sides.values())
            if any(x.lost or not x.made or x.pauses or x.n_pauses or x.aborted for x in ss):
                return
            owed = [(x.role, x.sent_len() - y.rx) for x, y in (ss, ss[::-1]) if x.ops_done and y.rx < x.sent_len()]
            if not owed:
                self.stall_since = None
                return
            sig = tuple((x.rx, x.out_pos, x.ops_done, x.closing, len(getattr(x, "halves", ()))) for x in ss)
            if self.stall_since is None or self.stall_since[2] != sig:
                self.stall_since = (now, ticks, sig)
            elif now - self.stall_since[0] >= NEVER_LOST_BOUND_S and ticks - self.stall_since[1] >= NEVER_LOST_MIN_TICKS:
                self.stalled = {"owed": owed, "waited_s": round(now - self.stall_since[0], 1), "reactor_ticks_meanwhile": ticks - self.stall_since[1]}
                self.finish()

        def report(self, stuck=False):
            return {"id": self.spec["id"], "finished": self.finished and not stuck, "failed": self.failed, "never_lost": self.never_lost, "stalled": self.stalled, "spurious": self.spurious, "h_unordered": self.h_unordered,
                    "client": self.sides["client"].report(), "server": self.sides["server"].report()}

    def pump():
        while state["active"] < inp["concurrency"] and state["next"] < len(specs):
            spec = specs[state["next"]]
            state["next"] += 1
            state["active"] += 1
            conns[spec["id"]] = Conn(spec)
            while spec.get("group") is not None and state["next"] < len(specs) and specs[state["next"]].get("group") == spec["group"]:
                spec = specs[state["next"]]  # members of a cross-connection group start together
                state["next"] += 1
                state["active"] += 1
                conns[spec["id"]] = Conn(spec)
        if state["active"] == 0 and state["next"] >= len(specs) and not state["finishing"]:
            state["finishing"] = True
            # grace: lets late (duplicate) notifications of already finished connections show up
            reactor.callLater(0.3, stop, False)

    out = {}

    def stop(watchdog):
        if out:
            return
        out["watchdog_fired"] = watchdog
        out["conns"] = [c.report(stuck=False) for c in conns.values()]
        out["not_started"] = len(specs) - state["next"]
        out["problems"] = state["problems"]
        reactor.stop()

    ticks = {"n": 0}

    def tick():
        # evidence that the reactor keeps iterating + the exchange-complete-but-never-notified check
        ticks["n"] += 1
        now = time.monotonic()
        for c in list(conns.values()):
            c.check_never_lost(now, ticks["n"])
            c.check_stalled(now, ticks["n"])
        if not out:
            reactor.callLater(0.25, tick)

    reactor.callLater(0.25, tick)
    reactor.callLater(inp["watchdog"], stop, True)
    reactor.callWhenRunning(pump)
    reactor.run()
    return out


# ----------------------------------------------------------------------------------------- parent
def gen_ops(rng, total):
    """Cut `total` bytes into write / writeSequence / delay ops."""
    nops = rng.choice([1, 1, 2, 3, 5, 8, 13])
    cuts = sorted(rng.randint(0, total) for _ in range(nops - 1))
    sizes = [b - a for a, b in zip([0] + cuts, cuts + [total])]
    style = rng.random()
    if style < 0.25:
        sizes.sort()  # tail-heavy: the burst right before the close is the big one
    elif style < 0.35:
        sizes.sort(reverse=True)
    for _ in range(rng.choice([0, 0, 1, 2])):
        sizes.insert(rng.randint(0, len(sizes)), 0)  # zero-length writes
    ops = []
    if rng.random() < 0.25:
        ops.append(["d", rng.choice([0, 1, 5, 20])])  # first write issued from a callLater
    for i, n in enumerate(sizes):
        if rng.random() < 0.3:
            parts = []
            m = n
            for _ in range(rng.randint(0, 5)):
                k = rng.choice([0, rng.randint(0, m)])
                parts.append(k)
                m -= k
            parts.append(m)
            rng.shuffle(parts)
            if n == 0 and rng.random() < 0.5:
                parts = []
            ops.append(["ws", parts])
        else:
            ops.append(["w", n])
        if i < len(sizes) - 1 and rng.random() < 0.3:
            ops.append(["d", rng.choice([0, 1, 3, 10, 30])])
    assert sum(o[1] if o[0] == "w" else sum(o[1]) for o in ops if o[0] != "d") == total
    return ops


BOUNDARY_TOTALS = [65535, 65536, 65537, 131071, 131072, 131073, 196608, 262144, 262145]  # recv bufferSize / SEND_LIMIT multiples +-1


def gen_total(rng, quick):
    if rng.random() < 0.12:
        return rng.choice(BOUNDARY_TOTALS)
    r = rng.random()
    if r < 0.08:
        return 0
    if r < 0.25:
        return rng.randint(1, 200)
    if r < 0.55:
        return rng.randint(200, 40000)
    if quick or r < 0.90:
        return rng.randint(40000, 262144)
    if r < 0.97:
        return rng.randint(262144, 1048576)
    return rng.randint(1048576, 4194304)


def gen_pauses(rng, total):
    if total == 0 or rng.random() < 0.4:
        return []
    pts = sorted(rng.randint(0, total) for _ in range(rng.randint(1, 3)))
    return [[p, rng.choice([1, 3, 10, 40])] for p in pts]


def gen_spec(rng, cid, quick):
    kind = "abcdefg"[cid % 7] if rng.random() < 0.8 else rng.choice("abcdefg")
    closer = rng.choice(["client", "server"])
    spec = {"id": cid, "kind": kind, "closer": closer, "seed": rng.randrange(2 ** 40),
            "sndbuf": rng.choice([4096, 8192, 16384]), "rcvbuf": rng.choice([4096, 8192, 16384])}
    if rng.random() < 0.25:
        spec["sndbuf"] = spec["rcvbuf"] = 0  # kernel defaults
    tot = {"client": gen_total(rng, quick), "server": gen_total(rng, quick)}
    if kind in "ae":
        tot["server" if closer == "client" else "client"] = 0
    if kind == "e":
        spec["e_variant"] = rng.choice([0, 0, 1, 2])
        if rng.random() < 0.7:
            tot[closer] = max(tot[closer], rng.randint(40000, 262144))  # a large write still pending at the close
    if kind == "d" and rng.random() < 0.5:
        tot["server" if closer == "client" else "client"] = 0
    if kind == "g":
        # `closer` is the side whose dataReceived raises once it has received `raise_at` bytes
        o = "server" if closer == "client" else "client"
        tot[o] = max(1, tot[o])
        spec["raise_at"] = rng.randint(1, tot[o])
        spec["g_variant"] = rng.choice(["raise", "abort-then-raise", "lose-then-raise"])
    other = "server" if closer == "client" else "client"
    custom = {}
    if kind == "f":
        # request/ack: `closer` is the acknowledging, half-closeable side; the other side streams a
        # request larger than one recv(65536) quickly (few writes, no delays, mostly default buffers)
        # mostly two recv()s worth: the final chunk then tends to arrive in the event in which the
        # acknowledgement of the first chunk is still waiting to be written (readable AND writable)
        tot[other] = rng.randint(66000, 131000) if rng.random() < 0.65 else rng.randint(131000, 400000)
        tot[closer] = 32768  # tape the acknowledgements and the final reply are cut from
        spec["ack_len"], spec["final_len"] = rng.randint(4, 64), rng.randint(1, 200)
        cuts = sorted(rng.randint(0, tot[other]) for _ in range(rng.choice([0, 0, 1, 2])))
        custom[other] = [["w", b - a] for a, b in zip([0] + cuts, cuts + [tot[other]])]
        custom[closer] = []
        if rng.random() < 0.8:
            spec["sndbuf"] = spec["rcvbuf"] = 0
    if kind == "a" and ((cid // 7) % 2 == 0 or rng.random() < 0.3):
        # one whole-SEND_LIMIT-multiple write, a short trailer one reactor turn later, then the close
        big, trailer = rng.choice([262144, 262144, 262144, 524288, 1048576]), rng.randint(1, 2000)
        tot[closer] = big + trailer
        custom[closer] = [["w", big], ["d", 0], ["w", trailer]]
        spec["sndbuf"] = spec["rcvbuf"] = 0
        spec["bigtail"] = True
    spec["c2s"] = {"total": tot["client"], "ops": custom.get("client") if "client" in custom else gen_ops(rng, tot["client"])}
    spec["s2c"] = {"total": tot["server"], "ops": custom.get("server") if "server" in custom else gen_ops(rng, tot["server"])}
    if kind == "d":
        mine = spec["c2s"] if closer == "client" else spec["s2c"]
        nw = len([o for o in mine["ops"] if o[0] != "d"])
        spec["abort_after_ops"] = rng.randint(0, nw)
        if mine["total"] > 0 and rng.random() < 0.6:
            # abort when the receiver has got this many bytes (or after the last op, whichever is first)
            spec["abort_after_ops"] = nw
            spec["abort_when_peer_rx"] = rng.randint(1, mine["total"])
    spec["pauses"] = {"client": gen_pauses(rng, tot["server"]), "server": gen_pauses(rng, tot["client"])}
    if kind == "f" or spec.get("bigtail"):
        spec["pauses"] = {"client": [], "server": []}
    return spec


H_ACTIONS = ["lose", "lose", "write-lose", "abort", "pause-resume"]


def gen_group(rng, gid, first_id, quick):
    """Two connection pairs T and V on one reactor: a handler of T acts on V's transport while V's
    own input (its peer's bare FIN, or a message) is pending in the same reactor iteration."""
    action = H_ACTIONS[gid % len(H_ACTIONS)]
    big = rng.randint(300000, 600000 if quick else 3000000)
    trailer, rest = rng.randint(1, 3000), rng.randint(0, 3000)
    v_total = big + (trailer + 1 + rest if action == "write-lose" else 0)
    cuts = sorted(rng.randint(0, big) for _ in range(rng.choice([0, 1, 2])))
    v_ops = [["w", b - a] for a, b in zip([0] + cuts, cuts + [big])]
    v_msg = rng.randint(1, 2000) if action == "pause-resume" else 0
    t_msg, t_reply = rng.randint(1, 1200), rng.randint(0, 5000)
    base = {"kind": "h", "group": gid, "closer": "server", "h_action": action, "h_first": ("V", "T")[(gid // 2) % 2], "pauses": {"client": [], "server": []}}
    v = dict(base, h_role="V", seed=rng.randrange(2 ** 40), sndbuf=32768, rcvbuf=32768, h_trailer=trailer,
             c2s={"total": v_msg, "ops": [["w", v_msg]] if v_msg else []}, s2c={"total": v_total, "ops": v_ops})
    t = dict(base, h_role="T", seed=rng.randrange(2 ** 40), sndbuf=0, rcvbuf=0,
             c2s={"total": t_msg, "ops": [["w", t_msg]]}, s2c={"total": t_reply, "ops": gen_ops(rng, t_reply)})
    pair = [t, v] if gid % 2 == 0 else [v, t]  # which of the two is accepted (registered for reading) first
    for k, sp in enumerate(pair):
        sp["id"] = first_id + k
    return pair


def plan(ctx):
    """[(job index, reactor, [spec,...])]; the same spec batches go to every reactor."""
    from vf.engines.reactorproc import REACTORS

    nconn = ctx.size(36, 416)
    per_batch = 36 if ctx.quick else 52
    specs = [gen_spec(ctx.case_rng("conn", i), i, ctx.quick) for i in range(nconn)]
    batches = [specs[i:i + per_batch] for i in range(0, nconn, per_batch)]
    gid = 0
    for bi, batch in enumerate(batches):  # every batch also gets cross-connection groups (kind h)
        for _ in range(10 if ctx.quick else 10):
            batch.extend(gen_group(ctx.case_rng("group", gid), gid, 100000 + 2 * gid, ctx.quick))
            gid += 1
    jobs = []
    for bi, batch in enumerate(batches):
        for ri, name in enumerate(REACTORS):
            jobs.append((bi * len(REACTORS) + ri, name, batch))
    return jobs


def _strip(spec):
    return {k: v for k, v in spec.items() if k != "id"}


def judge_conn(ctx, name, spec, rep):
    kind = spec["kind"]
    if kind == "h":
        ctx.count("h_" + spec["h_action"].replace("-", "_") + "_" + spec["h_role"])
        # judged like an abort (prefix) when T aborted V, otherwise like an orderly close
        kind = "d" if (spec["h_action"] == "abort" and spec["h_role"] == "V") else "a"
        if rep.get("h_unordered"):
            ctx.count("h_v_handled_before_t_acted")
            kind = "g"  # only prefixes / exactly-once are judged
        elif spec["h_role"] == "V" and spec["h_action"] != "pause-resume":
            ctx.count("h_acted_on_conn_with_pending_fin")
        ctx.count("kind_h")
    wit0 = {"reactor": name, "spec": spec}
    nontrivial = spec["c2s"]["total"] + spec["s2c"]["total"] > 0
    ctx.evaluated()
    ctx.count("conns_decided")
    ctx.count("decided_" + name)
    if spec["kind"] != "h":
        ctx.count("kind_" + kind)
    ctx.seen("reactors", name)
    if nontrivial:
        ctx.distinct((name, _strip(spec)))
    if spec["sndbuf"] == 0:
        ctx.count("conns_default_socket_buffers")
    elif max(spec["c2s"]["total"], spec["s2c"]["total"]) > 4 * spec["sndbuf"]:
        ctx.count("conns_exceeding_socket_buffers")
    if spec.get("bigtail"):
        ctx.count("bigtail_patterns")
    if spec["c2s"]["total"] in BOUNDARY_TOTALS or spec["s2c"]["total"] in BOUNDARY_TOTALS:
        ctx.count("boundary_totals")
    for role, peer, tape in (("client", "server", spec["s2c"]["total"]), ("server", "client", spec["c2s"]["total"])):
        r = rep[role]
        # kind f: what the acknowledging side sent depends on how the request was chunked
        sent = rep[peer]["tx_issued"] if (kind == "f" and peer == spec["closer"]) else tape
        wit = dict(wit0, receiver=role, report=r, peer_report={k: rep[peer][k] for k in ("tx_total", "tx_issued", "ops_done", "aborted", "lost")})
        ctx.count("bytes_received", r["rx"])
        ctx.count("dataReceived_calls", r["n_dataReceived"])
        ctx.count("receiver_pauses", r["pauses"])
        if kind == "f" and role == spec["closer"]:
            ctx.count("acks_written", max(0, r["tx_issued"] - spec["final_len"]) // spec["ack_len"])
        ctx.count("connectionlost_observed", len(r["lost"]))
        for why, _ in r["lost"]:
            ctx.seen("reasons_kind_" + kind, why)
        # the parent's own expectation, independent of the child's incremental comparison
        payload = gen_data(spec["seed"], peer, tape)[:sent]
        want_sha = hashlib.sha256(payload[:r["rx"]]).hexdigest()
        prefix_ok = r["rx"] <= sent and r["sha256"] == want_sha
        if r["first_diff"] is None and not prefix_ok and r["rx"] <= sent:
            ctx.inconclusive("C15 harness self-check: child saw no difference but digests differ (conn %s %s)" % (spec["id"], role))
        if r["rx"] > sent and r["first_diff"] is None:
            ctx.violation("stream-extra-bytes", "the peer received more bytes than were written", wit)
        elif not prefix_ok:
            fd = r["first_diff"] or {}
            where = fd.get("got_found_in_payload_at", -1)
            off = fd.get("offset", -1)
            if where is not None and where > off >= 0:
                key = "stream-bytes-dropped"
            elif where is not None and 0 <= where < off:
                key = "stream-bytes-repeated"
            else:
                key = "stream-corrupted"
            ctx.violation(key, "the bytes received differ from the bytes written (not even a prefix)", wit)
        elif kind not in "dg" and r["rx"] < sent:
            if (spec["kind"] == "h" and spec["h_role"] == "V" and spec["h_action"] in ("lose", "write-lose") and role == "client"
                    and rep[peer]["lost"] and rep[peer]["lost"][0][0] == "ConnectionDone" and rep[peer]["rx"] == 0):
                # causal signature: another connection's handler called loseConnection() on V's server
                # BEFORE V's own pending event (its peer's bare FIN) was dispatched, V's server closed
                # cleanly without having received a byte and with most of its output unsent: the
                # reactor read from a descriptor that had just stopped reading (stale event of the same
                # batch).  The reactor is part of the key: the same symptom on another reactor class is a
                # different defect.
                ctx.violation("stale-read-after-loseconnection-drops-queued-data-" + name,
                              "loseConnection() called on a connection by another connection's handler while the connection's own read event "
                              "(peer's FIN) was pending in the same reactor iteration: the FIN was read anyway and the queued output dropped", wit)
            else:
                ctx.violation("orderly-close-truncated-stream", "after an orderly close the peer received only a proper prefix of the bytes written", wit)
        if kind in "dg":
            ctx.count("abort_prefix_checks")
            if r["rx"] < sent:
                ctx.count("abort_truncated_streams")
            if 0 < r["rx"] < sent:
                ctx.count("abort_midstream_prefixes")
        # connectionLost exactly once (finished => at least once on both sides)
        if len(r["lost"]) != 1:
            ctx.violation("connectionlost-not-exactly-once", "connectionLost was called %d times on one protocol" % len(r["lost"]), wit)
        if r["made"] != 1:
            ctx.violation("connectionmade-not-exactly-once", "connectionMade was called %d times on one protocol" % r["made"], wit)
        al = r["after_lost"]
        if al["dataReceived"]:
            ctx.violation("data-after-connectionlost", "dataReceived was called after connectionLost", wit)
        if al["readConnectionLost"] or al["writeConnectionLost"]:
            ctx.violation("halfclose-notification-after-connectionlost", "read/writeConnectionLost was called after connectionLost", wit)
        first = r["lost"][0][0] if r["lost"] else None
        if kind not in "dg" and first != "ConnectionDone":
            ctx.violation("orderly-close-reason-not-connectiondone", "connectionLost reason after an orderly close was %s" % first, wit)
        if kind == "d" and role == spec["closer"] and first != "ConnectionAborted":
            ctx.violation("abort-reason-not-connectionaborted", "the aborting side's connectionLost reason was %s" % first, wit)
        if kind == "b" and not (r["read_closed"] and r["write_closed"]):
            ctx.violation("halfclose-notification-missing", "a half-closeable protocol was fully closed without both read/writeConnectionLost", wit)
    ctx.sample({"reactor": name, "kind": kind, "closer": spec["closer"], "c2s": spec["c2s"]["total"], "s2c": spec["s2c"]["total"],
                "ops_c2s": spec["c2s"]["ops"][:8], "client": {k: rep["client"][k] for k in ("rx", "lost", "n_dataReceived", "pauses")},
                "server": {k: rep["server"][k] for k in ("rx", "lost", "n_dataReceived", "pauses")}}, limit=5)


def judge(ctx, name, batch, out):
    by_id = {s["id"]: s for s in batch}
    for pb in out.get("problems", []):
        ctx.inconclusive("C15 %s: %s" % (name, pb))
    if out.get("watchdog_fired") or out.get("not_started"):
        ctx.inconclusive("C15 %s: in-child watchdog fired; %d connections unfinished, %d not started" % (
            name, sum(1 for c in out["conns"] if not c["finished"]), out.get("not_started", 0)))
    for rep in out.get("conns", []):
        spec = by_id[rep["id"]]
        if rep["failed"]:
            ctx.inconclusive("C15 %s: connect failed for conn %s: %s" % (name, rep["id"], rep["failed"]))
            continue
        if rep.get("spurious"):
            ctx.count("conns_decided")
            ctx.count("decided_" + name)
            ctx.evaluated()
            ctx.violation("halfclose-notification-without-half-close", "a protocol was told %s although its peer had neither closed nor half-closed "
                          "(the loss of the connection was reported through the wrong notification)" % rep["spurious"]["notification"],
                          {"reactor": name, "spec": spec, "spurious": rep["spurious"], "client": rep["client"], "server": rep["server"]})
            continue
        if rep.get("never_lost"):
            nl = rep["never_lost"]
            ctx.count("conns_decided")
            ctx.count("decided_" + name)
            ctx.evaluated()
            ctx.violation("connectionlost-never-called", "the exchange was complete (the peer received every byte and got its connectionLost) and the reactor "
                          "kept iterating, but this side's connectionLost had not been called %.0f s later" % NEVER_LOST_BOUND_S,
                          {"reactor": name, "spec": spec, "never_lost": nl, "client": rep["client"], "server": rep["server"]})
            continue
        if rep.get("stalled"):
            ctx.count("conns_decided")
            ctx.count("decided_" + name)
            ctx.evaluated()
            ctx.violation("written-bytes-never-delivered", "both sides are connected and reading, one side has issued all its writes, the peer has not received all "
                          "of them, and nothing moved on the connection for %.0f s while the reactor kept iterating" % NEVER_LOST_BOUND_S,
                          {"reactor": name, "spec": spec, "stalled": rep["stalled"], "client": rep["client"], "server": rep["server"]})
            continue
        if not rep["finished"]:
            ctx.count("conns_unfinished")
            ctx.sample({"unfinished": True, "reactor": name, "spec_kind": spec["kind"], "report": rep}, limit=5)
            # what was already observed is still judged for duplicates / data after loss
            for role in ("client", "server"):
                r = rep[role]
                if len(r["lost"]) > 1:
                    ctx.violation("connectionlost-not-exactly-once", "connectionLost was called %d times on one protocol" % len(r["lost"]),
                                  {"reactor": name, "spec": spec, "receiver": role, "report": r})
                if r["after_lost"]["dataReceived"]:
                    ctx.violation("data-after-connectionlost", "dataReceived was called after connectionLost", {"reactor": name, "spec": spec, "receiver": role, "report": r})
            continue
        judge_conn(ctx, name, spec, rep)


def run(ctx):
    from vf.engines import reactorproc

    mine = [(k, name, batch) for (k, name, batch) in plan(ctx) if ctx.owns(k)]
    wd = 90 if ctx.quick else 900
    jobs = [(name, "vf.props.c15", {"conns": batch, "concurrency": CONCURRENCY, "watchdog": wd}) for (_, name, batch) in mine]
    outs = reactorproc.run_scenarios(jobs, timeout=wd + 60, max_parallel=4)
    for (k, name, batch), out in zip(mine, outs):
        if not reactorproc.fold_status(ctx, out, "C15 job %d" % k):
            continue
        ctx.count("subprocesses_completed")
        ctx.maxi("subprocess_wall_s", out["_proc"]["wall_s"])
        judge(ctx, name, batch, out)


def replay(ctx, w):
    from vf.engines import reactorproc

    x = w["witness"]
    spec, name = x["spec"], x["reactor"]
    out = reactorproc.run_scenario(name, "vf.props.c15", {"conns": [spec], "concurrency": 1, "watchdog": 120}, timeout=180)
    if reactorproc.fold_status(ctx, out, "C15 replay"):
        judge(ctx, name, [spec], out)
