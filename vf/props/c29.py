"""C29 HTTP/2 server respects flow control and delivers each stream intact.

Monitored object: a real `twisted.web._http2.H2Connection` (built directly, `Site` + resources
behind it) on an E2 `SimTransport`, driven by a FIFO mini-reactor with real-reactor semantics (a
call scheduled during an iteration runs in the next one: `_sendPrioritisedData` re-schedules itself
with callLater(0) while window-blocked, so `task.Clock.advance(0)` would never return).
Peer: a real `h2` client state machine.  Independent of both: a frame-level account that parses,
with `hyperframe`, every byte the client sends to the server and every byte the server writes.

Oracles
  1 frame account: every DATA frame's flow-controlled length <= the stream window and <= the
    connection window the client has granted so far (initial 65535, SETTINGS_INITIAL_WINDOW_SIZE
    deltas, WINDOW_UPDATEs, applied when the frame's last byte has been delivered to the server)
    and <= the client's MAX_FRAME_SIZE.  Empty DATA frames are exempt (RFC 9113 6.9.1).
  2 the real h2 client accepts everything (no ProtocolError / FlowControlError).
  3 per stream: concatenated DATA is a prefix of what the resource wrote at every moment, equals it
    at the end, END_STREAM exactly once, nothing after it.  Bodies carry (stream, offset) words so
    a misplaced byte names its origin.
  4 resumption: at a quiescent point (all client frames delivered, mini-reactor pumped until it is
    idle or only spins) no stream may have written-but-unsent body bytes while its stream window,
    the connection window and the transport are all open; after the final grant (windows > all
    remaining data, producers driven to the end) every stream that was not reset is complete.
  5 nothing raised out of a reactor call, no failure logged, the server does not drop the connection.

Mechanism keys (narrow; findings/C29-*.md): `send-loop-dies-on-negative-window` (FlowControlError "window is -N"
escaped + the account saw a negative window), `window-opened-by-settings-not-noticed` (stall on a stream whose most
recent window increase was a SETTINGS frame), `window-update-does-not-wake-parked-send-loop` (stall that an unrelated
empty response -- the probe -- is enough to end), `window-update-then-rst-in-one-segment` and
`request-then-rst-in-one-segment-kills-send-loop` / `-datareceived-raises` (StreamClosedError + the frames of the delivered segment).  A stall
that the probe does not end keeps `stalled-with-open-window`, so seeded "does not unblock" mutants are not swallowed.

Guards against false alarms: the final grant leaves slack (a paused producer is only resumed when
window - queued > 0, and a client that has not seen END_STREAM keeps replenishing); oracle 4 is
skipped while the transport is paused and for streams the client reset; zero-length DATA is never
charged; the client's own API refusals (stream already closed ...) just skip that scheduler action;
stream *ordering* is not checked at all (the `priority` package is absent: flat round-robin shim); the scheduler
keeps at most one SETTINGS frame un-ACKed (h2's client acknowledges one pending value per *setting* per ACK) and an
empty END_STREAM frame on a negative window is booked by the monitor instead of the h2 client (h2's receiver rejects
it, RFC 9113 6.9.1 allows it).
The busy loop of the send loop while window-blocked is reported only as a counter (spin_iterations).
"""
import os
import struct
import sys
from collections import deque

LEVEL = "exploration"
ENGINE = "E2-netsim"
TECHNIQUE = "runtime monitoring: hyperframe frame account of granted windows + real h2 client + per-stream body oracle"
RULE = ("random sessions from (seed, index): 1-8 concurrent streams, bodies 1 B..300 KiB written in random chunk "
        "sizes by plain writes (sync or across scheduler steps), push producers (some ignoring pause for a burst) "
        "and pull producers; client initial window 0..1 MiB, MAX_FRAME_SIZE 16384..1 MiB; scheduler interleaves "
        "stream/connection WINDOW_UPDATEs (1 byte .. everything), SETTINGS changing INITIAL_WINDOW_SIZE (also "
        "below what is in flight: negative windows) and MAX_FRAME_SIZE, app steps, reactor iterations, transport "
        "pause/resume, client RST_STREAM, held-back and re-segmented client bytes.  Distinct by (session "
        "parameters, action sequence); non-trivial = at least one stream was window-blocked (counted).")
ASSUMPTIONS = [
    "the `priority` package is absent: vf/shims/priority.py (flat round-robin over unblocked streams) stands in; "
    "stream ordering/weights are not part of C29",
    "trusted base: h2 4.x client state machine, hyperframe frame parser, the 60-line window account in this module",
    "_PullToPush's cooperator is bound to the mini-reactor (one pull per iteration) instead of the global reactor",
    "request bodies / inbound flow control are not exercised (the statement is about the server sending)",
]
SHARDS = {"quick": 4, "thorough": 16}
FLOORS = {"data_frames_checked": 2000, "window_updates_applied": 500, "settings_applied": 100, "liveness_checks": 200,
          "streams_completed": 300, "blocked_then_resumed": 100, "negative_window_episodes": 5}
READY = True

MAXWIN = 2 ** 31 - 1


def _shim():
    d = os.path.join(os.path.dirname(os.path.dirname(os.path.abspath(__file__))), "shims")
    if d not in sys.path:
        sys.path.append(d)  # appended: a real `priority`, if ever installed, wins


# ------------------------------------------------------------------------------------------------
class _Call:
    def __init__(self, f, a, kw, delay):
        self.f, self.a, self.kw, self.delay = f, a, kw, delay
        self.cancelled = self.called = False

    def cancel(self):
        self.cancelled = True

    def active(self):
        return not (self.cancelled or self.called)

    def getTime(self):
        return self.delay

    def reset(self, s):
        self.delay = s

    delay_ = reset


class MiniReactor:
    """callLater(0) -> next iteration, FIFO.  Positive delays are recorded and never fire
    (timeouts are disabled; nothing in a session may depend on time)."""

    def __init__(self):
        self.ready = deque()
        self.timers = []
        self.errors = []
        self.iterations = 0

    def seconds(self):
        return 0.0

    def callLater(self, delay, f, *a, **kw):
        c = _Call(f, a, kw, delay)
        (self.ready if delay <= 0 else self.timers).append(c)
        return c

    def iterate(self):
        n = len(self.ready)
        for _ in range(n):
            c = self.ready.popleft()
            if c.cancelled:
                continue
            c.called = True
            try:
                c.f(*c.a, **c.kw)
            except Exception as e:  # a real reactor logs and carries on
                self.errors.append("%s: %s" % (type(e).__name__, str(e)[:200]))
        self.iterations += 1
        return n

    def idle(self):
        return not any(not c.cancelled for c in self.ready)


# ------------------------------------------------------------------------------------------------
class FrameBuf:
    def __init__(self, skip=0):
        self.buf = bytearray()
        self.skip = skip

    def feed(self, data):
        from hyperframe.frame import Frame

        self.buf += data
        out = []
        if self.skip:
            k = min(self.skip, len(self.buf))
            del self.buf[:k]
            self.skip -= k
        while len(self.buf) >= 9:
            f, length = Frame.parse_frame_header(memoryview(bytes(self.buf[:9])))
            if len(self.buf) < 9 + length:
                break
            f.parse_body(memoryview(bytes(self.buf[9:9 + length])))
            raw = bytes(self.buf[:9 + length])
            del self.buf[:9 + length]
            out.append((f, length, raw))
        return out


class Account:
    """The windows the client has granted, as the server must see them."""

    def __init__(self, sess):
        self.sess = sess
        self.conn = 65535
        self.init = 65535
        self.maxframe = 16384
        self.win = {}  # stream id -> window
        self.closed = set()  # END_STREAM sent by server, or reset
        self.c2s = FrameBuf(skip=24)  # client preface
        self.s2c = FrameBuf()
        self.ended = {}
        self.min_window_seen = 0
        self.by_settings = set()  # streams whose most recent window increase came from SETTINGS, not WINDOW_UPDATE
        self.last_chunk = []  # (frame type, stream id) completed by the last delivered client chunk

    def client_bytes(self, data):
        ctx = self.sess.ctx
        self.last_chunk = []
        for f, _, _raw in self.c2s.feed(data):
            name = type(f).__name__
            self.last_chunk.append((name, f.stream_id))
            if name == "HeadersFrame":
                self.win[f.stream_id] = self.init
            elif name == "WindowUpdateFrame":
                ctx.count("window_updates_applied")
                if f.stream_id == 0:
                    self.conn += f.window_increment
                    self.by_settings.clear()
                elif f.stream_id in self.win:
                    self.win[f.stream_id] += f.window_increment
                    self.by_settings.discard(f.stream_id)
            elif name == "SettingsFrame" and "ACK" not in f.flags:
                ctx.count("settings_applied")
                for k, v in f.settings.items():
                    if k == 4:  # INITIAL_WINDOW_SIZE
                        delta = v - self.init
                        self.init = v
                        for s in self.win:
                            if s not in self.closed:
                                self.win[s] += delta
                                if delta > 0:
                                    self.by_settings.add(s)
                                if self.win[s] < 0:
                                    ctx.count("negative_window_episodes")
                                    self.min_window_seen = min(self.min_window_seen, self.win[s])
                    elif k == 5:
                        self.maxframe = v
            elif name == "RstStreamFrame":
                self.closed.add(f.stream_id)

    def server_frame(self, f, length):
        """Judge one frame the server wrote.  Returns True when the real h2 *client* must not see
        it: h2's receiver raises FlowControlError for an empty DATA frame on a stream whose window
        is negative, although RFC 9113 6.9.1 lets a sender emit empty END_STREAM frames without
        window (the monitor then books the END_STREAM itself)."""
        sess = self.sess
        ctx = sess.ctx
        if True:
            name = type(f).__name__
            sid = f.stream_id
            if name == "DataFrame":
                if length == 0 and self.win.get(sid, 0) < 0:
                    ctx.count("empty_data_on_negative_window")
                    if "END_STREAM" in f.flags:
                        self.ended[sid] = self.ended.get(sid, 0) + 1
                        self.closed.add(sid)
                    return True
                ctx.count("data_frames_checked")
                L = length
                base = {"stream": sid, "frame_length": L, "stream_window": self.win.get(sid), "connection_window": self.conn,
                        "max_frame_size": self.maxframe, "initial_window_size": self.init}
                if sid not in self.win:
                    sess.violation("data-on-unknown-stream", "DATA frame on a stream the client never opened", base)
                    return False
                if self.ended.get(sid):
                    sess.violation("data-after-end-stream", "DATA frame after END_STREAM on the same stream", base)
                if L > 0:
                    if L > self.win[sid]:
                        sess.violation("data-exceeds-stream-window", "DATA frame larger than the stream window granted by the client", base)
                    if L > self.conn:
                        sess.violation("data-exceeds-connection-window", "DATA frame larger than the connection window granted by the client", base)
                    if L > self.maxframe:
                        sess.violation("data-exceeds-max-frame-size", "DATA frame larger than the client's SETTINGS_MAX_FRAME_SIZE", base)
                    self.win[sid] -= L
                    self.conn -= L
                    ctx.count("data_bytes_checked", L)
                    if self.win[sid] == 0 or self.conn == 0:
                        sess.saw_blocked.add(sid)
                    ctx.maxi("data_frame_length", L)
                if "END_STREAM" in f.flags:
                    self.ended[sid] = self.ended.get(sid, 0) + 1
                    self.closed.add(sid)
            elif name == "HeadersFrame":
                if "END_STREAM" in f.flags:
                    self.ended[sid] = self.ended.get(sid, 0) + 1
                    self.closed.add(sid)
            elif name == "RstStreamFrame":
                self.closed.add(sid)
                sess.server_reset.add(sid)
            elif name == "GoAwayFrame":
                sess.goaway = True
        return False


# ------------------------------------------------------------------------------------------------
_BASE = []


def body_for(k, n):
    """n bytes; every 4-byte word = (stream index, word offset) so that any byte names its origin."""
    if not _BASE:
        _BASE.append(b"".join(struct.pack(">BBH", 0, (j >> 16) & 255, j & 0xFFFF) for j in range(300 * 256 + 1)))
    words = (n + 3) // 4
    ba = bytearray(_BASE[0][:4 * words])
    ba[0::4] = bytes([0xA0 | (k & 15)]) * words
    return bytes(ba[:n])


class Plan:
    """What the resource does for one stream; also an IPushProducer / IPullProducer when asked to."""

    def __init__(self, k, rng):
        self.k = k
        r = rng.random()
        if r < 0.2:
            n = rng.randint(1, 64)
        elif r < 0.6:
            n = rng.randint(65, 40000)
        else:
            n = rng.randint(40001, 300 * 1024)
        self.body = body_for(k, n)
        cuts = sorted(rng.randint(0, n) for _ in range(rng.choice([0, 0, 1, 2, 3, 5, 8, 15, 30])))
        edges = [0] + cuts + [n]
        self.chunks = [self.body[a:b] for a, b in zip(edges, edges[1:])]
        if rng.random() < 0.7:
            self.chunks = [c for c in self.chunks if c] or [self.body]
        self.mode = rng.choice(["sync", "steps", "steps", "push", "push", "pull", "pull"])
        self.burst = rng.choice([1, 1, 2, 3])
        self.ignore_pause = self.mode == "push" and rng.random() < 0.3
        self.sep_finish = rng.random() < 0.5  # finish in a step of its own
        self.pos = 0
        self.written = 0
        self.request = None
        self.finished = False
        self.lost = False
        self.paused = False
        self.registered = False
        self.pauses = 0
        self.resumes = 0

    def describe(self):
        return {"k": self.k, "size": len(self.body), "chunks": len(self.chunks), "mode": self.mode, "burst": self.burst,
                "ignore_pause": self.ignore_pause, "sep_finish": self.sep_finish}

    def start(self, request):
        self.request = request
        request.notifyFinish().addErrback(self._lost)
        request.setHeader(b"content-type", b"application/octet-stream")
        if self.mode == "sync":
            while self.pos < len(self.chunks):
                self._write_one()
            self._finish()
        elif self.mode == "push":
            request.registerProducer(self, True)
            self.registered = True
        elif self.mode == "pull":
            request.registerProducer(self, False)
            self.registered = True

    def _lost(self, f):
        self.lost = True

    def _write_one(self):
        c = self.chunks[self.pos]
        self.pos += 1
        self.written += len(c)  # what the application handed to the API
        self.request.write(c)

    def _finish(self):
        if self.registered:
            self.registered = False
            self.request.unregisterProducer()
        self.finished = True
        self.request.finish()

    def done_writing(self):
        return self.pos >= len(self.chunks)

    def step(self):
        """Scheduler-driven application progress (steps and push modes).  True if something happened."""
        if self.request is None or self.finished or self.lost or self.mode in ("sync", "pull"):
            return False
        if self.done_writing():
            self._finish()
            return True
        if self.mode == "push" and self.paused and not self.ignore_pause:
            return False
        for _ in range(self.burst):
            if self.done_writing() or self.lost:
                break
            self._write_one()
            if self.mode == "push" and self.paused and not self.ignore_pause:
                break
        if self.done_writing() and not self.sep_finish and not self.lost:
            self._finish()
        return True

    # producer interface
    def pauseProducing(self):
        self.paused = True
        self.pauses += 1

    def resumeProducing(self):
        self.resumes += 1
        if self.mode == "pull":
            if self.lost or self.finished:
                return
            if not self.done_writing():
                self._write_one()
            if self.done_writing() and not self.lost:
                self._finish()
        else:
            self.paused = False

    def stopProducing(self):
        self.lost = True


# ------------------------------------------------------------------------------------------------
class Session:
    def __init__(self, ctx, i):
        self.ctx = ctx
        self.i = i
        self.rng = ctx.case_rng("session", i)
        self.actions = []
        self.violations = []
        self.saw_blocked = set()
        self.server_reset = set()
        self.client_reset = set()
        self.goaway = False
        self.dead = None
        self.datareceived_raised = None
        self.probes = 0
        self.req_and_rst_together = set()  # streams whose HEADERS and RST_STREAM reached the server in one segment
        self.next_sid = 1
        self.settings_in_flight = 0  # h2's client acknowledges one pending value *per setting* per ACK,
        self.spin = 0                # so the scheduler keeps at most one SETTINGS frame un-ACKed

    def violation(self, key, what, detail):
        self.violations.append((key, what, detail))

    # ---- construction ----
    def setup(self):
        import h2.config
        import h2.connection
        from twisted.web import resource, server
        from twisted.web._http2 import H2Connection
        from vf.engines.netsim import SimTransport

        rng = self.rng
        self.mini = MiniReactor()
        self.nstreams = rng.choice([1, 1, 2, 3, 4, 5, 6, 8])
        self.plans = [Plan(k, rng) for k in range(self.nstreams)]
        self.sid_of = {}
        self.k_of = {}
        plans = self.plans

        class Root(resource.Resource):
            isLeaf = True

            def render_GET(self, request):
                if request.path.startswith(b"/p/"):
                    return b""  # probe: empty body, finished at once
                k = int(request.path.rsplit(b"/", 1)[1])
                plans[k].start(request)
                return server.NOT_DONE_YET

        site = server.Site(Root(), reactor=self.mini)
        conn = H2Connection(reactor=self.mini)
        conn.requestFactory = site.requestFactory
        conn.site = site
        conn.factory = site
        conn.callLater = self.mini.callLater
        self.conn = conn
        self.t = SimTransport("srv")
        conn.makeConnection(self.t)
        self.t.registerProducer(conn, True)
        self.client = h2.connection.H2Connection(config=h2.config.H2Configuration(client_side=True, header_encoding=None))
        self.acct = Account(self)
        self.pending = bytearray()  # client bytes not yet delivered
        self.received = {}
        self.ended = {}
        self.client.initiate_connection()
        self.settings_in_flight = 1
        self.collect()
        self.flush()
        self.params = {"streams": self.nstreams, "plans": [p.describe() for p in plans]}
        st = {}
        iw = rng.choice([None, 0, 0, 0, 1, 2, 10, 100, 1000, 16383, 16384, 16385, 65535, 100000, 1 << 20])
        mf = rng.choice([None, None, 16384, 16385, 32768, 1 << 20])
        if iw is not None:
            st[4] = iw
        if mf is not None:
            st[5] = mf
        if st:
            self.client.update_settings(st)
            self.settings_in_flight += 1
        cw = rng.choice([0, 0, 1, 1000, 100000, 1 << 20])
        if cw:
            self.client.increment_flow_control_window(cw)
        self.allow_negative = rng.random() < 0.2
        self.params.update(initial_window=iw, max_frame=mf, conn_extra=cw, allow_negative=self.allow_negative)
        self.collect()
        self.flush()
        self.drain()

    # ---- byte movement ----
    def collect(self):
        self.pending += self.client.data_to_send()

    def flush(self, pieces=None):
        """Deliver pending client bytes to the server (account first: a frame counts as granted
        once its last byte is in the chunk being delivered)."""
        self.collect()
        if not self.pending or self.dead:
            return
        data = bytes(self.pending)
        del self.pending[:]
        chunks = [data]
        if pieces:
            from vf.engines.netsim import random_split
            chunks = random_split(self.rng, data)
        for c in chunks:
            if self.t.disconnecting or self.t.disconnected:
                self.dead = "server closed the connection"
                return
            self.drain()  # what the server wrote earlier is judged against the windows of that time
            self.acct.client_bytes(c)
            opened = set(sid for name, sid in self.acct.last_chunk if name == "HeadersFrame")
            self.req_and_rst_together.update(sid for name, sid in self.acct.last_chunk if name == "RstStreamFrame" and sid in opened)
            try:
                self.conn.dataReceived(c)
            except Exception as e:  # a real transport logs this and drops the connection
                self.datareceived_raised = "%s: %s" % (type(e).__name__, str(e)[:200])
                self.datareceived_chunk = list(self.acct.last_chunk)
                self.dead = "dataReceived raised"
                return
            self.drain()

    def drain(self):
        """Move what the server wrote to the account and to the real client."""
        import h2.events
        import h2.exceptions

        data = self.t.take()
        if not data:
            return 0
        events = []
        for f, length, raw in self.acct.s2c.feed(data):
            if self.acct.server_frame(f, length):
                if "END_STREAM" in f.flags:
                    self.ended[f.stream_id] = self.ended.get(f.stream_id, 0) + 1
                continue
            if self.dead:
                continue
            try:
                events.extend(self.client.receive_data(raw))
            except h2.exceptions.ProtocolError as e:
                self.violation("client-h2-rejected-server-frames", "the real h2 client raised on the server's frames",
                               {"error": "%s: %s" % (type(e).__name__, e), "frame": type(f).__name__, "stream": f.stream_id,
                                "length": length, "stream_window": self.acct.win.get(f.stream_id), "connection_window": self.acct.conn})
                self.dead = "client protocol error"
        for ev in events:
            if isinstance(ev, h2.events.DataReceived):
                self.received.setdefault(ev.stream_id, bytearray()).extend(ev.data)
                self.check_prefix(ev.stream_id)
            elif isinstance(ev, h2.events.StreamEnded):
                self.ended[ev.stream_id] = self.ended.get(ev.stream_id, 0) + 1
            elif isinstance(ev, h2.events.StreamReset):
                self.server_reset.add(ev.stream_id)
            elif isinstance(ev, h2.events.ConnectionTerminated):
                self.goaway = True
            elif isinstance(ev, h2.events.SettingsAcknowledged):
                self.settings_in_flight -= 1
        self.collect()
        return len(data)

    def check_prefix(self, sid):
        k = self.k_of.get(sid)
        if k is None:
            return
        got = self.received[sid]
        p = self.plans[k]
        if len(got) > p.written or bytes(got) != p.body[:len(got)]:
            j = next((x for x in range(min(len(got), len(p.body))) if got[x] != p.body[x]), min(len(got), len(p.body)))
            self.violation("body-mismatch", "bytes received on a stream are not a prefix of what its resource wrote",
                           {"stream": sid, "first_bad_offset": j, "received_len": len(got), "written_by_app": p.written,
                            "got": bytes(got[j:j + 8]), "expected": p.body[j:j + 8]})
            self.dead = self.dead or "body mismatch"

    def pump(self, cap=60000):
        """Iterate the mini-reactor until it is idle or only spins without producing bytes."""
        quiet = 0
        n = 0
        limit = 2 * self.nstreams + 4
        while n < cap and not self.dead:
            if self.mini.idle():
                break
            before = sum(p.pos + p.finished for p in self.plans)
            self.mini.iterate()
            n += 1
            # progress = bytes on the wire, or a resource getting on with its plan (it may be writing empty chunks)
            if self.drain() or sum(p.pos + p.finished for p in self.plans) != before:
                quiet = 0
            else:
                quiet += 1
                if quiet >= limit:
                    self.spin += quiet
                    break
        if n >= cap:
            self.ctx.inconclusive("pump cap reached in session %d" % self.i)
        return n

    # ---- scheduler actions ----
    def client_do(self, f, *a, **kw):
        import h2.exceptions

        try:
            f(*a, **kw)
            return True
        except (h2.exceptions.ProtocolError, KeyError, ValueError):
            self.ctx.count("client_action_refused")
            return False

    def probe(self):
        """An unrelated request whose resource finishes at once with an empty body.  Its only effect on
        other streams is to run the server's send loop once more; used to tell "stream is sendable but
        nobody runs the loop" from "stream is not sendable"."""
        sid = self.next_sid
        hdrs = [(b":method", b"GET"), (b":path", b"/p/%d" % self.probes), (b":scheme", b"https"), (b":authority", b"vf.test")]
        if not self.client_do(self.client.send_headers, sid, hdrs, end_stream=True):
            return False
        self.next_sid += 2
        self.probes += 1
        self.actions.append(("probe", sid))
        self.flush()
        self.pump()
        return True

    def open_stream(self):
        k = len(self.sid_of)
        if k >= self.nstreams:
            return False
        sid = self.next_sid
        hdrs = [(b":method", b"GET"), (b":path", b"/s/%d" % k), (b":scheme", b"https"), (b":authority", b"vf.test")]
        if not self.client_do(self.client.send_headers, sid, hdrs, end_stream=True):
            return False
        self.next_sid += 2
        self.sid_of[k] = sid
        self.k_of[sid] = k
        self.received.setdefault(sid, bytearray())
        return True

    def live_streams(self):
        return [s for s in self.k_of if s not in self.acct.closed and s not in self.client_reset and s not in self.server_reset]

    def remaining(self, sid):
        return len(self.plans[self.k_of[sid]].body) - len(self.received.get(sid, b""))

    def act(self):
        rng = self.rng
        live = self.live_streams()
        r = rng.random()
        a = None
        if r < 0.12 or not self.k_of:
            if self.open_stream():
                a = ("open", len(self.sid_of) - 1)
        elif r < 0.32 and live:
            sid = rng.choice(live)
            inc = rng.choice([1, 1, 2, 7, 100, 1000, 16384, 65535, max(1, self.remaining(sid)), 1 << 18])
            if rng.random() < 0.4:
                # aligned: the window will close exactly at one of the resource's chunk boundaries, so that the
                # server's queue for the stream runs empty at the very moment the window does
                p = self.plans[self.k_of[sid]]
                j = min(len(p.chunks), p.pos + rng.randint(0, 3))
                target = sum(len(c) for c in p.chunks[:j]) - len(self.received[sid]) - self.acct.win.get(sid, 0)
                if target > 0:
                    inc = target
            if self.acct.win.get(sid, self.acct.init) + inc < MAXWIN and self.client_do(self.client.increment_flow_control_window, inc, sid):
                a = ("wu", sid, inc)
        elif r < 0.47:
            inc = rng.choice([1, 1, 5, 100, 1000, 16384, 65535, 1 << 18, 1 << 20])
            if self.acct.conn + inc < MAXWIN and self.client_do(self.client.increment_flow_control_window, inc):
                a = ("wu", 0, inc)
        elif r < 0.59 and self.settings_in_flight > 0:
            pass
        elif r < 0.55:
            v = rng.choice([0, 1, 10, 100, 5000, 16384, 65535, 200000, 1 << 20])
            open_w = [w for s_, w in self.acct.win.items() if s_ not in self.acct.closed]
            if not self.allow_negative and any(w - self.acct.init + v < 0 for w in open_w):
                v = self.acct.init - min(open_w) + rng.choice([0, 0, 1, 100])  # smallest shrink that keeps every window >= 0
            if all(w - self.acct.init + v < MAXWIN for w in self.acct.win.values()) and self.client_do(self.client.update_settings, {4: v}):
                self.settings_in_flight += 1
                a = ("settings-initial-window", v)
        elif r < 0.59:
            v = rng.choice([16384, 16385, 20000, 65536, 1 << 20])
            if self.client_do(self.client.update_settings, {5: v}):
                self.settings_in_flight += 1
                a = ("settings-max-frame", v)
        elif r < 0.80:
            cands = [p for p in self.plans if p.request is not None and not p.finished and not p.lost and p.mode in ("steps", "push")]
            if cands:
                p = rng.choice(cands)
                if p.step():
                    a = ("app", p.k, p.pos)
        elif r < 0.90:
            n = rng.randint(1, 5)
            for _ in range(n):
                self.mini.iterate()
                self.drain()
            a = ("iterate", n)
        elif r < 0.94:
            if self.t.producer_paused:
                self.t.sim_resume_producer()
                a = ("transport-resume",)
            else:
                self.t.sim_pause_producer()
                a = ("transport-pause",)
        elif r < 0.9515 and len(self.sid_of) < self.nstreams:
            # a request cancelled at once: HEADERS and RST_STREAM of the same stream in one segment
            self.flush()
            if self.open_stream():
                k = len(self.sid_of) - 1
                sid = self.sid_of[k]
                if self.client_do(self.client.reset_stream, sid):
                    self.client_reset.add(sid)
                self.actions.append(("open+rst", k))
                if rng.random() < 0.4 and self.open_stream():  # ... and the next request right behind it (h2 then forgets the cancelled one)
                    self.actions.append(("open", len(self.sid_of) - 1))
                self.flush()
        elif r < 0.955 and live:
            sid = rng.choice(live)
            both = rng.random() < 0.3  # a client cancelling right after replenishing: both frames in one segment
            if both:
                self.flush()
                self.client_do(self.client.increment_flow_control_window, rng.choice([1, 1000, 65535]), rng.choice([sid, None]))
            if self.client_do(self.client.reset_stream, sid):
                self.client_reset.add(sid)
                a = ("wu+rst" if both else "rst", sid)
                if both:
                    self.actions.append(a)
                    if rng.random() < 0.7 and self.open_stream():  # ... and moving on to the next request
                        self.actions.append(("open", len(self.sid_of) - 1))
                    self.flush()
                    a = None
        else:
            a = self.liveness("mid")
        self.drain()
        if a is None:
            return
        self.actions.append(a)
        self.collect()
        if rng.random() < 0.8:
            self.flush(pieces=rng.random() < 0.3)
        for _ in range(rng.choice([0, 1, 1, 2, 3])):
            self.mini.iterate()
            self.drain()
        if a[0] == "wu" and rng.random() < 0.25:
            if self.liveness("after-window-update"):
                self.actions.append(("liveness",))

    def liveness(self, where):
        """Oracle 4 at a quiescent point."""
        if self.dead or self.t.producer_paused:
            return None
        self.flush()
        self.pump()
        if self.dead:
            return None
        self.ctx.count("liveness_checks")
        parked = []  # (stream, info, bytes received): written-but-unsent data with windows open after pumping
        for sid in self.live_streams():
            p = self.plans[self.k_of[sid]]
            if p.lost:
                continue
            unsent = p.written - len(self.received[sid])
            w = self.acct.win.get(sid, 0)
            info = {"stream": sid, "where": where, "written_by_app": p.written, "received": len(self.received[sid]),
                    "stream_window": w, "connection_window": self.acct.conn, "reactor_idle": self.mini.idle(),
                    "app_finished": p.finished, "plan": p.describe()}
            # after pump() an unfinished pull producer that was not paused would have produced: it is waiting too
            waiting = p.registered and not p.finished and ((p.mode == "push" and p.paused) or p.mode == "pull")
            if w > 0 and self.acct.conn > 0 and (unsent > 0 or waiting):
                info["producer_waiting"] = waiting
                if sid in self.acct.by_settings:
                    # narrow key: the window was (re)opened by a SETTINGS_INITIAL_WINDOW_SIZE increase and no
                    # WINDOW_UPDATE came since; H2Connection.dataReceived ignores RemoteSettingsChanged
                    self.violation("window-opened-by-settings-not-noticed", "a SETTINGS_INITIAL_WINDOW_SIZE increase opened the stream window but "
                                   "the blocked stream / paused producer is not resumed until some later WINDOW_UPDATE arrives", info)
                elif unsent > 0:
                    parked.append((sid, info, len(self.received[sid])))
                else:
                    self.violation("producer-not-resumed-with-open-window", "nothing is queued, windows and transport are open, but the "
                                   "stream's producer stays paused", info)
            elif unsent == 0 and p.finished and not self.ended.get(sid):
                self.violation("end-stream-not-sent", "the resource finished and all its bytes were delivered but END_STREAM never came", info)
        if parked:
            # Narrow key for one mechanism: the bytes were queued while the window was closed and the send loop
            # had parked itself ("no stream sendable"); WINDOW_UPDATE made the stream sendable again but nothing
            # runs the loop.  Signature: an unrelated empty response (probe) is enough to get the bytes moving.
            # If the probe does not help, the stream is not sendable at all: different mechanism, generic key.
            known = any(v[0] == "window-update-does-not-wake-parked-send-loop" for v in self.violations)
            if known or self.probes >= 6 or not self.probe() or self.dead:
                if not known:
                    self.ctx.count("parked_stall_not_classified")
                    sid, info, _ = parked[0]
                    self.violation("stalled-with-open-window", "body bytes written by the resource stay unsent although the stream window, the "
                                   "connection window and the transport are open and nothing is scheduled (probe not possible)", info)
            else:
                for sid, info, had in parked:
                    # moved, or the loop ran and spent the (shared) connection window on another stream
                    if len(self.received[sid]) > had or self.acct.conn <= 0 or self.acct.win.get(sid, 0) <= 0 or sid not in self.live_streams():
                        self.violation("window-update-does-not-wake-parked-send-loop", "WINDOW_UPDATE reopened the window of a stream with queued "
                                       "data but the parked send loop is not woken: the data stays unsent until an unrelated response "
                                       "(here: a probe request) happens to run the loop", info)
                    else:
                        self.violation("stalled-with-open-window", "body bytes written by the resource stay unsent although the stream window, "
                                       "the connection window and the transport are open; even an unrelated response that runs the send "
                                       "loop does not move them", info)
        return ("liveness",)

    # ---- whole session ----
    def drive(self):
        for _ in range(self.rng.randint(5, 70)):
            if self.dead:
                break
            self.act()

    def final(self):
        if self.dead:
            return
        if self.t.producer_paused:
            self.t.sim_resume_producer()
            self.actions.append(("transport-resume",))
        while self.open_stream():
            pass
        self.flush()
        self.liveness("before-final-grant")
        stuck = 0
        for rnd in range(400):
            if self.dead:
                return
            live = self.live_streams()
            todo = [s for s in live if not self.plans[self.k_of[s]].lost]
            if not todo:
                break
            need_total = 0
            for sid in todo:
                need = self.remaining(sid)
                need_total += need
                w = self.acct.win[sid]
                # a client that is still waiting for a body keeps replenishing: always at least one WINDOW_UPDATE
                inc = max(1, need + 65536 - w + self.rng.randint(0, 1000)) if rnd == 0 or w < need + 65536 else 0
                if inc and w + inc < MAXWIN:
                    self.client_do(self.client.increment_flow_control_window, inc, sid)
            if self.acct.conn < need_total + 65536:
                self.client_do(self.client.increment_flow_control_window, need_total + 65536 - self.acct.conn)
            self.flush()
            progressed = False
            for p in self.plans:
                if p.step():
                    progressed = True
            before = sum(len(v) for v in self.received.values()) + sum(self.ended.values())
            self.pump()
            after = sum(len(v) for v in self.received.values()) + sum(self.ended.values())
            if after != before or progressed:
                stuck = 0
            else:
                stuck += 1
                if stuck >= 3:
                    break
        self.actions.append(("final-grant",))

    def judge(self, cap):
        ctx = self.ctx
        for sid, k in self.k_of.items():
            p = self.plans[k]
            got = bytes(self.received.get(sid, b""))
            if self.acct.ended.get(sid, 0) > 1 or self.ended.get(sid, 0) > 1:
                self.violation("end-stream-twice", "END_STREAM more than once on a stream", {"stream": sid})
            if sid in self.client_reset or p.lost:
                ctx.count("streams_reset_by_client")
                continue
            if self.dead:
                continue
            complete = got == p.body and self.ended.get(sid, 0) == 1
            if complete:
                ctx.count("streams_completed")
                if sid in self.saw_blocked:
                    ctx.count("blocked_then_resumed")
            else:
                try:
                    srvwin = self.conn.conn.local_flow_control_window(sid)
                except Exception as e:
                    srvwin = repr(e)
                self.violation("not-completed-after-windows-opened",
                               "a stream did not complete although the client opened windows beyond all remaining data and the reactor was pumped",
                               {"stream": sid, "body_len": len(p.body), "received": len(got), "ended": self.ended.get(sid, 0),
                                "written_by_app": p.written, "app_finished": p.finished, "server_reset": sid in self.server_reset,
                                "stream_window": self.acct.win.get(sid), "connection_window": self.acct.conn,
                                "server_h2_window": srvwin, "reactor_idle": self.mini.idle(), "plan": p.describe(),
                                "producer_paused": p.paused})
        errors = list(self.mini.errors) + ["%s: %s" % (typ, msg) for typ, msg in cap.failures()]
        consequences = ("stalled-with-open-window", "not-completed-after-windows-opened", "end-stream-not-sent",
                        "window-update-does-not-wake-parked-send-loop", "window-opened-by-settings-not-noticed",
                        "producer-not-resumed-with-open-window")
        negative = [e for e in errors if e.startswith("FlowControlError") and "flow control window is -" in e]
        if negative and self.acct.min_window_seen < 0:
            # section-6 style narrow key: SETTINGS_INITIAL_WINDOW_SIZE shrank a stream window below zero and
            # _sendPrioritisedData sliced with the negative size; h2 refused the frame, the exception killed the
            # send loop.  Stalls in the same session are its consequence, not a second mechanism.
            errors = [e for e in errors if e not in negative]
            self.violations = [v for v in self.violations if v[0] not in consequences]
            self.violation("send-loop-dies-on-negative-window",
                           "after SETTINGS_INITIAL_WINDOW_SIZE made a stream window negative the send loop raised FlowControlError "
                           "and stopped for good: queued data is lost and every stream of the connection stalls",
                           {"errors": negative[:3], "most_negative_window": self.acct.min_window_seen})
        if self.datareceived_raised:
            typ = self.datareceived_raised.split(":")[0]
            frames = self.datareceived_chunk
            key = "datareceived-raised-" + typ
            rst = [j for j, (n, sid) in enumerate(frames) if n == "RstStreamFrame"]
            num = self.datareceived_raised.split(":")[1].strip()
            born_dead = set(sid for n, sid in frames if n == "HeadersFrame") & set(sid for n, sid in frames if n == "RstStreamFrame")
            if typ == "StreamClosedError" and num.isdigit() and int(num) in born_dead:
                # narrow key: HEADERS(X) + RST_STREAM(X) + a later HEADERS in one segment.  h2 has closed AND forgotten X
                # before twisted starts the request; the response's send_headers raises StreamIDTooLowError (logged by
                # Request.process), the error page's write then raises StreamClosedError out of dataReceived.
                key = "request-then-rst-in-one-segment-datareceived-raises"
            elif typ == "StreamClosedError" and any(n == "WindowUpdateFrame" and sid in (0, frames[j][1]) for j in rst for n, sid in frames[:j]):
                key = "window-update-then-rst-in-one-segment"  # WindowUpdated is handled after h2 has already closed the stream
            what = "H2Connection.dataReceived raised: a real transport logs it and drops the whole connection (every other stream is lost)"
            if key == "request-then-rst-in-one-segment-datareceived-raises":
                what = ("a request cancelled in the same segment and followed by another request (HEADERS X, RST_STREAM X, HEADERS Y) is "
                        "still started although h2 has already forgotten stream X: its response raises StreamIDTooLowError/"
                        "StreamClosedError out of dataReceived and a real transport drops the whole connection")
            self.violation(key, what, {"error": self.datareceived_raised, "frames_in_segment": frames})
            if key != "datareceived-raised-" + typ:
                # the StreamReset event of that segment was never handled: later uses of the half-forgotten stream are consequences
                gone = set(sid for n, sid in frames if n == "RstStreamFrame")
                errors = [e for e in errors if not (e.startswith("StreamClosedError:") and e.split(":")[1].strip().isdigit()
                                                    and int(e.split(":")[1]) in gone)]
                errors = [e for e in errors if not (e.startswith("StreamIDTooLowError") and any(("%d is lower than" % g_) in e for g_ in gone))]
        cancelled = [e for e in errors if e.startswith("StreamClosedError:") and e.split(":")[1].strip().isdigit()
                     and int(e.split(":")[1]) in self.req_and_rst_together]
        if cancelled:
            # narrow key: request and its RST_STREAM in one segment.  h2 has closed the stream before twisted starts the
            # request; the resource's first write makes _sendPrioritisedData send on the closed stream, the
            # StreamClosedError ends the send loop for the whole connection.
            errors = [e for e in errors if e not in cancelled]
            self.violations = [v for v in self.violations if v[0] not in consequences]
            self.violation("request-then-rst-in-one-segment-kills-send-loop",
                           "a request cancelled in the same segment is still started; its first write raises StreamClosedError inside "
                           "the send loop, which stops for good: every other stream of the connection stalls",
                           {"errors": cancelled[:3], "streams": sorted(self.req_and_rst_together)})
        for e in errors:
            self.violation("server-error-" + e.split(":")[0], "an exception escaped from a reactor call / was logged by the server", {"error": e})
        if self.dead == "server closed the connection" or self.goaway:
            self.violation("server-closed-connection", "the server sent GOAWAY / closed the transport although the client made no protocol error", {})
        ctx.count("spin_iterations", self.spin)
        ctx.count("reactor_iterations", self.mini.iterations)
        if self.saw_blocked or self.acct.min_window_seen < 0:
            ctx.distinct((self.i, repr(self.params), repr(self.actions)))
        ctx.seen("modes", ",".join(sorted(set(p.mode for p in self.plans))))
        wit = {"session": self.i, "params": self.params, "actions": self.actions[-120:], "n_actions": len(self.actions)}
        seen = set()
        for key, what, detail in self.violations:
            if key in seen:
                continue
            seen.add(key)
            ctx.violation(key, what, dict(wit, detail=detail))


def run_session(ctx, i):
    from vf.engines.logcap import LogCapture

    s = Session(ctx, i)
    cap = LogCapture()
    with cap:
        with patched_cooperate_for(s):
            s.setup()
            s.drive()
            s.final()
    s.judge(cap)
    ctx.evaluated()
    if i < 3:
        ctx.sample({"session": i, "params": s.params, "actions": s.actions[:40], "reactor_iterations": s.mini.iterations,
                    "received": dict((k, len(v)) for k, v in s.received.items())})


class patched_cooperate_for:
    """The mini-reactor only exists after setup() started; resolve it lazily."""

    def __init__(self, sess):
        self.sess = sess

    def __enter__(self):
        from twisted.internet import _producer_helpers, task

        sess = self.sess
        self.mod = _producer_helpers
        self.saved = _producer_helpers.cooperate
        coop = task.Cooperator(terminationPredicateFactory=lambda: (lambda: True),
                               scheduler=lambda f: sess.mini.callLater(0, f))
        _producer_helpers.cooperate = coop.cooperate

    def __exit__(self, *a):
        self.mod.cooperate = self.saved
        return False


def run(ctx):
    _shim()
    try:
        import h2  # noqa
        import hyperframe  # noqa
        import twisted.web._http2  # noqa
    except ImportError as e:
        ctx.inconclusive("prerequisite missing: %s" % e)
        return
    for i in ctx.cases(1000, 60000):
        run_session(ctx, i)


def replay(ctx, w):
    _shim()
    run_session(ctx, w["witness"]["session"])
