"""C53 Rotating log files lose and reorder nothing — histories + E3 crash points inside rotation.

Object: the real `LogFile(name, dir, rotateLength, maxRotatedFiles)` on a real scratch directory,
driven by random histories of `write(str|bytes)` (multi-byte text included), `flush`, `reopen`,
close + new instance, explicit `rotate()`, optionally starting from files left by an earlier run.
All filesystem calls go through E3 (`FaultFS`), whose call hook is the monitor's eye:

* when `rename(<log>, <log>.1)` is about to execute (= a rotation), the on-disk size of <log> is
  read: in an automatic rotation (inside `write`) it must be >= rotateLength; its content is
  remembered as the newest "chunk";
* after every operation the directory is read back: rotated files by descending suffix (oldest
  first) + current file must be a suffix of W = initial content + every byte handed to `write`
  (UTF-8), and all of W without retention; the rotated files, newest first, must be exactly the
  newest min(r, #chunks) chunks (all chunks without retention), unmodified.

Crash part: for operations that rotate, every mutating filesystem call of that operation (renames,
removes, close, open, chmod, the data write with torn lengths) is a crash point; the history is
replayed on a restored directory and the process dies there.  On the left-over directory the same
suffix property must hold for W' = W-before-the-operation + some prefix of the interrupted write
(nothing lost without retention, nothing duplicated or reordered ever); then a fresh LogFile is
opened on it ("reboot"), more data is written to force further rotations over the possibly gapped
numbering, and the property must still hold relative to what was retained.

Containment: every path handed to twisted lives under one mkdtemp() top and ALL target code (also the
crash-free phases and the reboots) runs inside a FaultFS, which refuses — without executing — any
mutating filesystem call outside that top and reports it as `filesystem-call-outside-scratch`.

OSError part: the same calls of the rotating operations are also made to FAIL once with OSError(EIO)
in a process that carries on (a torn data write keeps its prefix).  Whether the operation raises or
swallows the error, the directory must still hold a suffix of W (+ a prefix of the write that
raised; all of it without retention); the same LogFile object then keeps logging (writes that raise
count as not written), and finally a fresh LogFile is opened on the directory as after a crash.

Guards: the oracle never predicts *when* a rotation happens (`LogFile.size` counts characters, not
bytes, for text — a later rotation is allowed by "at least the rotation length"); explicit
`rotate()` calls are exempt from the size requirement; after a crash the retention count is only
an upper bound; rotateLength None / explicit rotation only is included.
"""
import errno
import os
import shutil
import tempfile

from vf.engines.fsfault import Crash, FaultFS, crash_points, report_escapes, restore_tree, selftest_or_inconclusive

LEVEL = "fault_enumeration"
ENGINE = "E3-fsfault"
TECHNIQUE = "runtime monitoring: suffix-of-everything-written oracle on the directory after every operation and after a simulated crash at every filesystem call of rotate()"
RULE = ("history = (name, rotateLength in {1..100, None}, retention in {None,1,2,3}, optional left-over "
        "files of an earlier run, 4..18 operations from write(bytes|str incl. multi-byte)/flush/reopen/"
        "new instance/rotate()).  Crash cases = (history, rotating operation j, call index k inside it, "
        "torn length L).  Distinct by (history index, j, k, L) resp. history signature; non-trivial = at "
        "least one rotation observed / the crash fired inside a rotating operation.")
ASSUMPTIONS = [
    "trusted base: vf/engines/fsfault.py (interception; LogFile opens its file unbuffered, so writes are write-through and tear at byte granularity)",
    "a crash is a process crash at filesystem-call granularity; power loss is not modelled",
    "nobody else creates files named <log>.<int> in the directory; external rotation tools are not simulated",
]
SHARDS = {"quick": 4, "thorough": 16}
FLOORS = {"histories": 100, "ops_checked": 1000, "rotations_observed": 200, "auto_rotation_size_checks": 100,
          "retention_checks": 50, "multibyte_text_writes": 50, "crash_runs": 300, "crash_inside_rename_loop": 30,
          "post_crash_rotations": 100, "reopen_ops": 20, "removals_by_retention": 20,
          "oserror_runs": 200, "oserror_inside_rename_loop": 30, "oserror_propagated_to_caller": 100, "writes_accepted_after_oserror": 100}
READY = True

TEXTS = ["é", "€uro", "😀", "naïve café\n", "日本語ログ", "plain ascii line\n"]


def gen_history(rng):
    L = rng.choice([1, 3, 5, 8, 10, 16, 33, 50, 100, 100, None])
    r = rng.choice([None, None, 1, 2, 3])
    name = rng.choice(["test.log", "log", "a.b.c", "twistd.log"])
    scale = L or 12
    uid = [0]

    def data():
        uid[0] += 1
        n = rng.choice([0, 1, scale // 2, scale - 1, scale, scale + 1, 2 * scale + 3, rng.randrange(0, 3 * scale + 2)])
        if rng.random() < 0.35:
            s = ("[%d]" % uid[0] + rng.choice(TEXTS) * (n // 3 + 1))[: max(n, 0)]
            return s
        return (b"<%d>" % uid[0] + bytes(rng.randrange(32, 127) for _ in range(n)))[:n] if n else b""

    initial = {}
    if rng.random() < 0.3:
        for i in range(rng.randrange(0, 4), 0, -1):
            initial["%s.%d" % (name, i)] = b"{old%d}" % i * rng.randrange(1, 4)
        initial[name] = b"{cur}" * rng.randrange(0, 5)
    ops = []
    for _ in range(rng.randrange(4, 19)):
        x = rng.random()
        if x < 0.72:
            ops.append(("w", data()))
        elif x < 0.78:
            ops.append(("flush",))
        elif x < 0.86:
            ops.append(("reopen",))
        elif x < 0.93:
            ops.append(("new",))
        else:
            ops.append(("rotate",))
    return {"name": name, "L": L, "r": r, "initial": initial, "ops": ops}


def enc(d):
    return d.encode("utf-8") if isinstance(d, str) else d


class World:
    """One execution of a history (optionally armed with a crash point) with the monitor attached."""

    def __init__(self, ctx, h, hid, root):
        self.ctx, self.h, self.hid, self.root = ctx, h, hid, root
        self.dir = os.path.join(root, "logs")
        self.path = os.path.join(self.dir, h["name"])
        self.L, self.r = h["L"], h["r"]
        # chunks = contents of rotated files, oldest first, as far as the monitor knows them
        init = h["initial"]
        ids = sorted((int(n.rsplit(".", 1)[1]) for n in init if n != h["name"]), reverse=True)
        self.chunks = [init["%s.%d" % (h["name"], i)] for i in ids]
        self.W = b"".join(self.chunks) + init.get(h["name"], b"")
        self.cur_op = None
        self.rotations = 0
        self.rotated_in_op = False
        self.op_ranges = []
        self.quiet = False  # replays for crash runs do not re-check the crash-free prefix

    # ---- monitor hook (called before the filesystem call executes) ---------------------------------
    def on_call(self, k, kind, detail, data):
        ctx = self.ctx
        if kind == "rename" and detail[0] == self.path and detail[1] == self.path + ".1":
            self.rotations += 1
            self.rotated_in_op = True
            with open(self.path, "rb") as f:
                chunk = f.read()
            self.chunks.append(chunk)
            if self.quiet:
                return
            ctx.count("rotations_observed")
            if self.cur_op is not None and self.cur_op[0] == "w" and self.L:
                ctx.count("auto_rotation_size_checks")
                if len(chunk) < self.L:
                    ctx.violation("rotated-below-rotate-length", "a file was rotated automatically while shorter than rotateLength",
                                  self.witness({"size_at_rotation": len(chunk)}))
        elif kind == "remove" and not self.quiet:
            ctx.count("removals_by_retention")

    # ---- reading the directory -----------------------------------------------------------------------
    def disk(self):
        """-> ([(id, content)] oldest first, current content or None)"""
        rot = []
        name = self.h["name"]
        for n in os.listdir(self.dir):
            if n.startswith(name + "."):
                tail = n[len(name) + 1:]
                if tail.isdigit() and int(tail) > 0:
                    with open(os.path.join(self.dir, n), "rb") as f:
                        rot.append((int(tail), f.read()))
        rot.sort(reverse=True)
        try:
            with open(self.path, "rb") as f:
                cur = f.read()
        except FileNotFoundError:
            cur = None
        return rot, cur

    def witness(self, extra=None):
        rot, cur = self.disk()
        w = {"history": self.hid, "name": self.h["name"], "rotateLength": self.L, "maxRotatedFiles": self.r,
             "initial": self.h["initial"], "ops": self.h["ops"], "at_op": self.cur_op,
             "disk_oldest_first": [("%s.%d" % (self.h["name"], i), c) for i, c in rot] + [(self.h["name"], cur)],
             "written_total_len": len(self.W), "written_tail": self.W[-200:]}
        w.update(extra or {})
        return w

    def check_after_op(self):
        """Crash-free oracle, after every completed operation."""
        ctx = self.ctx
        ctx.count("ops_checked")
        rot, cur = self.disk()
        concat = b"".join(c for _, c in rot) + (cur or b"")
        if not self.W.endswith(concat):
            ctx.violation("retained-data-not-a-suffix", "rotated files (oldest first) + current file are not a suffix of everything written (lost in the middle, duplicated or reordered)", self.witness())
        elif self.r is None and concat != self.W:
            ctx.violation("data-lost-without-retention", "without maxRotatedFiles some written data is gone", self.witness({"missing_bytes": len(self.W) - len(concat)}))
        if self.rotated_in_op:
            ctx.count("retention_checks")
            want = self.chunks if self.r is None else self.chunks[-self.r:] if self.r else []
            got = [c for _, c in rot]
            if len(got) != len(want):
                ctx.violation("retention-count-wrong", "after a completed rotation the number of rotated files is not min(maxRotatedFiles, rotations)",
                              self.witness({"expected_files": len(want), "got_files": len(got)}))
            elif got != want:
                ctx.violation("retained-files-not-the-newest-chunks", "the rotated files are not exactly the newest rotated contents in order", self.witness())
            if self.r is not None:
                self.chunks = self.chunks[-self.r:] if self.r else []

    # ---- executing -----------------------------------------------------------------------------------
    def make(self):
        from twisted.python.logfile import LogFile

        return LogFile(self.h["name"], self.dir, rotateLength=self.L, maxRotatedFiles=self.r)

    def play(self, arm=None, check=True, oserror=False):
        """Run the history; returns the FaultFS.  With `arm`, dies at that point — or, with
        `oserror`, that call fails once with OSError(EIO) in a process that carries on."""
        ctx = self.ctx
        self.quiet = not check
        restore_tree(self.dir, self.h["initial"])
        fs = FaultFS(self.root, on_call=self.on_call)
        if arm is not None:
            fs.arm(*arm, raises=(lambda: OSError(errno.EIO, "injected I/O error")) if oserror else None)
        fault_pending = oserror
        self.W_before = self.W
        with fs:
            try:
                lf = self.make()
                for j, op in enumerate(self.h["ops"]):
                    self.cur_op = (op[0], j) + tuple(op[1:])
                    self.rotated_in_op = False
                    a = fs.n
                    self.W_before = self.W
                    raised = None
                    try:
                        if op[0] == "w":
                            lf.write(op[1])
                            self.W += enc(op[1])
                            if check and isinstance(op[1], str) and len(enc(op[1])) != len(op[1]):
                                ctx.count("multibyte_text_writes")
                        elif op[0] == "flush":
                            lf.flush()
                        elif op[0] == "reopen":
                            lf.reopen()
                            if check:
                                ctx.count("reopen_ops")
                        elif op[0] == "new":
                            lf.close()
                            lf = self.make()
                        elif op[0] == "rotate":
                            lf.rotate()
                    except Crash:
                        raise
                    except Exception as e:
                        if not (fault_pending and fs.fired):
                            raise
                        raised = e
                    if fault_pending and fs.fired:
                        self.after_oserror(lf, op, raised, fs.crash_call)
                        return fs
                    self.op_ranges.append((j, a, fs.n, self.rotated_in_op))
                    if check:
                        self.check_after_op()
                self.cur_op = ("close", len(self.h["ops"]))
                lf.close()
            except Crash:
                pass
        return fs

    # ---- after an injected OSError (the process carries on) ------------------------------------------
    def settle(self, d):
        """The directory must be a suffix of W + some prefix of the write `d` that raised (all of it
        without retention); fixes self.W to that.  -> bool"""
        rot, cur = self.disk()
        concat = b"".join(c for _, c in rot) + (cur or b"")
        for p in range(len(d) + 1):
            x = self.W + d[:p]
            if concat == x or (self.r is not None and x.endswith(concat)):
                self.W = x
                return True
        return False

    def after_oserror(self, lf, op, raised, point):
        ctx = self.ctx
        ctx.count("oserror_state_checks")
        if raised is not None:
            ctx.count("oserror_propagated_to_caller")
            ctx.seen("oserror_surfaced_as", type(raised).__name__)
        wit = {"oserror_at": point, "operation_raised": repr(raised)}
        if not self.settle(enc(op[1]) if (op[0] == "w" and raised is not None) else b""):
            ctx.violation("oserror-in-rotation-loses-or-reorders", "after one filesystem call of a rotating operation failed with OSError the retained files are not a suffix of what was written (all of it without retention)", self.witness(wit))
            return
        for i in range(3):  # the same process keeps logging
            d = b"(same-process-%d:" % i + b",".join(b"%d" % n for n in range((self.L or 7) // 2 + 2)) + b")"
            self.cur_op = ("w-after-oserror", i, d)
            try:
                lf.write(d)
            except Crash:
                raise
            except Exception:
                ctx.count("writes_refused_after_oserror")
                ok = self.settle(d)
            else:
                self.W += d
                ctx.count("writes_accepted_after_oserror")
                ok = self.settle(b"")
            if not ok:
                ctx.violation("write-after-oserror-loses-or-reorders", "logging on in the same process after the failed rotation lost, duplicated or reordered retained data", self.witness(wit))
                return
        try:
            lf.close()
        except Exception:
            pass
        rot, cur = self.disk()
        self.reboot_and_write(point, b"".join(c for _, c in rot) + (cur or b""), tag="oserror")

    # ---- after a crash ---------------------------------------------------------------------------------
    def check_after_crash(self, point):
        ctx = self.ctx
        op = self.h["ops"][self.cur_op[1]]
        data = enc(op[1]) if op[0] == "w" else b""
        rot, cur = self.disk()
        concat = b"".join(c for _, c in rot) + (cur or b"")
        cands = [self.W_before + data[:p] for p in range(len(data) + 1)]
        if self.r is None:
            ok = concat in cands
        else:
            ok = any(x.endswith(concat) for x in cands)
        ctx.count("crash_state_checks")
        if not ok:
            if any(x.endswith(concat) for x in cands):
                key = "crash-loses-data-without-retention"
            elif sorted(concat) == sorted(cands[0]) or len(concat) > len(cands[-1]):
                key = "crash-reorders-or-duplicates-data"
            else:
                key = "crash-state-not-a-suffix"
            ctx.violation(key, "after a crash inside a rotating operation the retained files are not a suffix of what was written",
                          self.witness({"crash_point": point, "interrupted_write": data}))
            return
        # reboot: fresh LogFile on the left-over directory, force further rotations over the gaps
        with FaultFS(self.root):  # unarmed: containment guard
            self.reboot_and_write(point, concat)

    def reboot_and_write(self, point, base, tag="crash"):
        ctx = self.ctx
        lf = self.make()
        extra = b""
        step = (self.L or 7) + 1
        try:
            for i in range(4):
                d = b"(after-crash-%d)" % i + b"z" * step
                rot1, cur1 = self.disk()
                before = len(rot1)
                lf.write(d)
                extra += d
                if not self.L and i % 2:
                    lf.rotate()
                rot2, cur2 = self.disk()
                c2 = b"".join(c for _, c in rot2) + (cur2 or b"")
                ctx.count("post_crash_checks")
                if len(cur2 or b"") < len(cur1 or b"") + len(d):
                    ctx.count("post_crash_rotations")
                good = (base + extra == c2) if self.r is None else (base + extra).endswith(c2)
                if not good:
                    ctx.violation("post-%s-rotation-loses-or-reorders" % tag, "writing/rotating with a fresh LogFile on the left-over directory lost, duplicated or reordered retained data",
                                  self.witness({"crash_point": point, "retained_after_crash_len": len(base), "written_after_reboot": extra}))
                    break
                if self.r is not None and len(rot2) > max(self.r, before):
                    ctx.violation("post-%s-retention-exceeded" % tag, "rotated files keep exceeding maxRotatedFiles on the left-over directory", self.witness({"crash_point": point}))
                    break
        finally:
            lf.close()


def run_history(ctx, hid, crash):
    rng = ctx.case_rng("hist", hid)
    h = gen_history(rng)
    root = os.path.realpath(tempfile.mkdtemp(prefix="vf_c53_"))
    try:
        w = World(ctx, h, hid, root)
        count = w.play()
        ctx.count("histories")
        ctx.evaluated()
        if w.rotations:
            ctx.distinct(("hist", repr(h)))
        ctx.maxi("rotations_per_history", w.rotations)
        for _, kind, _, _ in count.log:
            ctx.seen("calls", kind)
        if hid < 4 * ctx.nshards:
            ctx.sample({"history": hid, "name": h["name"], "rotateLength": h["L"], "maxRotatedFiles": h["r"], "ops": h["ops"][:8],
                        "rotations": w.rotations, "final_disk": [(i, len(c)) for i, c in w.disk()[0]]})
        if not crash:
            return
        rotating = [(j, a, b) for j, a, b, rot in w.op_ranges if rot]
        picks = rotating[:1] + rotating[-1:] if len(rotating) > 1 else rotating
        # prefer the operation with the most rotated files to shuffle
        for j, a, b in picks:
            for k, plen in crash_points(count.log, a, b):
                w2 = World(ctx, h, hid, root)
                fs = w2.play(arm=(k, plen), check=False)
                if not fs.crashed or w2.cur_op[1] != j:
                    ctx.inconclusive("C53: crash point not reached on replay")
                    continue
                kind, detail = count.log[k][1], count.log[k][2]
                ctx.count("crash_runs")
                ctx.count("crash_at_" + kind)
                if kind in ("rename", "remove") and detail[0] != w2.path:
                    ctx.count("crash_inside_rename_loop")
                ctx.evaluated()
                ctx.distinct(("crash", hid, j, k, plen))
                w2.check_after_crash((j, k, kind, detail, plen))
            # the same calls fail once with OSError instead, and the process carries on
            for k, kind, detail, pend in count.log:
                if not a <= k < b:
                    continue
                for plen in ([0, pend // 2] if (kind == "write" and pend > 1) else [0]):
                    w3 = World(ctx, h, hid, root)
                    fs = w3.play(arm=(k, plen), check=False, oserror=True)
                    if not fs.fired:
                        ctx.inconclusive("C53: OSError point not reached on replay")
                        continue
                    ctx.count("oserror_runs")
                    ctx.count("oserror_at_" + kind)
                    if kind in ("rename", "remove") and detail[0] != w3.path:
                        ctx.count("oserror_inside_rename_loop")
                    ctx.evaluated()
                    ctx.distinct(("oserror", hid, j, k, plen))
    finally:
        shutil.rmtree(root, ignore_errors=True)
        report_escapes(ctx, hid)


def run(ctx):
    if not selftest_or_inconclusive(ctx):
        return
    n_crash = ctx.size(250, 8000)
    for hid in ctx.cases(2000, 100000):
        run_history(ctx, hid, crash=hid < n_crash)


def replay(ctx, w):
    run_history(ctx, w["witness"]["history"], crash=True)
