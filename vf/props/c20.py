"""C20 HTTP server responses are framed exactly and headers cannot be injected.

Monitored object: the real `http.Request` on the real HTTPChannel (C18's `Server` harness).  The
harness plays the application inside `process()`: setResponseCode(code, reason), setHeader /
responseHeaders.addRawHeader / setRawHeaders (str and bytes, valid and invalid names), addCookie
with every attribute, setETag, setLastModified, optional correct Content-Length, a sequence of
write()s, finish(); the request is GET/HEAD/POST, HTTP/1.0 or 1.1, with or without
`Connection: close`, one or two requests per connection.  Observed: the bytes written to the
transport.

Oracle:
 (1) harness-owned lenient reader (refhttp.read_response): the head splits on CRLF into the status
     line + exactly the header lines the application managed to set (+ server-added
     Transfer-Encoding: chunked / Connection: close); no line contains a bare CR or LF or lacks a
     colon; the status code is the one set; every header value equals the value set with each
     CRLF / CR / LF replaced by one SP (compared modulo leading/trailing OWS, names
     case-insensitively, order of values per name preserved); names that are not tokens must be
     refused (exception) when set and never appear; each addCookie call gives one Set-Cookie line
     whose first `;`-segment is the sanitised `name=value` and whose other segments are exactly the
     attributes passed (no attribute can be smuggled through `;`, CR or LF; compared ignoring SP/HTAB);
 (2) body: HEAD, 204 and 304 carry no body bytes; otherwise chunked decoding (HTTP/1.1 without
     Content-Length), Content-Length, or close-delimited (HTTP/1.0; the server must then close)
     gives exactly the concatenation of the writes; never both CL and TE; responses follow each
     other with no stray bytes;
 (3) h11's client side parses each response to the same status, headers and body whenever the
     reason, names and values contain no bytes h11 refuses (CTLs, DEL).

Guards: the application never sets Transfer-Encoding/Connection/Set-Cookie/ETag/Last-Modified/
Content-Length through setHeader (except the one correct Content-Length), never uses 1xx codes and
sends no conditional request headers (setETag/setLastModified would legitimately turn the answer
into 304).  A reason phrase containing CR/LF is only required not to break the head into more
lines; if setResponseCode refuses it, that is fine too.
"""
import email.utils
import math
import re

from vf.engines import refhttp
from vf.props import c18

LEVEL = "exploration"
ENGINE = "E2-netsim"
TECHNIQUE = "runtime monitoring: response bytes re-read by a lenient spec-derived reader and by h11, compared with the application's script"
RULE = ("random application scripts: status code and reason (bytes 0..255 weighted to CR/LF/forged header text), 0-5 headers via "
        "setHeader/addRawHeader/setRawHeaders with str or bytes names (valid tokens and invalid ones) and values (bytes 0..255, "
        "arbitrary code points, CR, LF, CRLF+forged header, CRLFCRLF+forged body), 0-3 cookies with every attribute, ETag, "
        "Last-Modified, 0-6 writes of 0..70 KiB, optional correct Content-Length; GET/HEAD/POST x HTTP/1.0/1.1 x Connection: "
        "close, POSTs optionally with Expect: 100-continue; 1-3 requests per connection (keep-alive after HEAD/204/304/100).  A case is distinct by (requests, scripts); non-trivial = at least one header, "
        "cookie, reason or body byte was set.")
ASSUMPTIONS = ["trusted base: refhttp.read_response / decode_chunked and h11 0.16 as independent parsers",
               "header names are compared case-insensitively, values modulo leading/trailing SP/HTAB (RFC 9110 5.5)"]
SHARDS = {"quick": 4, "thorough": 16}
FLOORS = {"responses_checked": 3000, "header_values_compared": 3000, "values_with_linebreaks": 500, "cookie_lines_compared": 500,
          "invalid_names_refused": 200, "chunked_bodies_decoded": 500, "cl_bodies_checked": 200, "close_delimited_bodies_checked": 100,
          "no_body_responses_checked": 300, "h11_responses_compared": 500, "reasons_with_linebreaks": 100,
          "interim_100_skipped": 300, "responses_after_bodiless_or_100_on_same_connection": 500}
READY = True

_LB = re.compile(rb"\r\n|\r|\n")
_H11_OK = re.compile(rb"[\t\x20-\x7e\x80-\xff]*\Z")
RESERVED = {b"content-length", b"transfer-encoding", b"connection", b"set-cookie", b"etag", b"last-modified"}
TOKEN_CHARS = "!#$%&'*+-.^_`|~0123456789ABCDEFGHIJKLMNOPQRSTUVWXYZabcdefghijklmnopqrstuvwxyz"
NAMES = ["X-A", "x-b", "X-CUSTOM", "Content-Type", "Location", "Cache-Control", "Vary", "X_under", "x.dot", "WWW-Authenticate", "P3P", "X-Xss-Protection", "te", "dnt"]
FORGED = ["\r\nX-Injected: 1", "\r\n\r\n<html>forged</html>", "\nSet-Cookie: evil=1", "\rX-Injected: 2", "\r\n", "\n", "\r", "\r\n ", "\n\r",
          "\r\nHTTP/1.1 200 OK\r\nContent-Length: 0\r\n\r\n", "\r\nTransfer-Encoding: chunked", "\r\nContent-Length: 0"]


def _nows(b):
    return re.sub(rb"[ \t]+", b"", b)


def sanitise(b):
    return _LB.sub(b" ", b)


def to_bytes(v, enc="utf8"):
    return v.encode(enc) if isinstance(v, str) else v


def gen_value(rng, allow_str=True, hostile=0.45):
    """A header/cookie/reason value: bytes or str."""
    as_str = allow_str and rng.random() < 0.4
    parts = []
    for _ in range(rng.randint(0, 4)):
        r = rng.random()
        if r < hostile:
            parts.append(rng.choice(FORGED))
        elif r < hostile + 0.3:
            parts.append("".join(rng.choice("abcXYZ019 -_/=,.") for _ in range(rng.randint(0, 10))))
        elif r < hostile + 0.4:
            parts.append(rng.choice([":", ";", " ", "\t", "; Domain=evil", "\x00", "\x0b", "\x0c", "\x1c", "\x7f", "\x85", "\xe9", '"', "\\"]))
        elif as_str:
            cp = rng.choice([0x85, 0xE9, 0x2028, 0x2029, 0x1F600, 0x0A0D, 0x010A]) if rng.random() < 0.5 else rng.randint(0, 0x10FFFF)
            if 0xD800 <= cp <= 0xDFFF:
                cp = 0xFFFD
            parts.append(chr(cp))
        else:
            parts.append("".join(chr(rng.randrange(256)) for _ in range(rng.randint(1, 6))))
    s = "".join(parts)
    if as_str:
        return s
    return s.encode("latin-1", "replace")


def gen_name(rng):
    """-> (name as str or bytes, valid?)"""
    r = rng.random()
    if r < 0.75:
        n = rng.choice(NAMES) if rng.random() < 0.7 else "".join(rng.choice(TOKEN_CHARS) for _ in range(rng.randint(1, 12)))
        valid = True
    else:
        base = rng.choice(NAMES)
        bad = rng.choice([" ", ":", "\r\n", "\n", "\r", "\x00", "(", ")", "\xe9", "\t", "\x7f", "/", "=", '"', "Ā", " ", "@", "[", ","])
        i = rng.randint(0, len(base))
        n = rng.choice([base[:i] + bad + base[i:], "", bad, base + "\r\nX-Injected: 1", base + ": v\r\nX-Injected"])
        valid = False
    if n.lower().encode("utf8", "replace") in RESERVED:
        n = "X-" + n
    if rng.random() < 0.5:
        try:
            return n.encode("latin-1"), valid
        except UnicodeEncodeError:
            return n, valid
    return n, valid


def gen_script(rng, method):
    ops = []
    code = rng.choice([200, 200, 200, 201, 202, 204, 301, 302, 304, 400, 404, 418, 500, 503, rng.randint(200, 999)])
    reason = None
    if rng.random() < 0.35:
        reason = to_bytes(gen_value(rng, allow_str=False, hostile=0.5))
    ops.append(("code", code, reason))
    for _ in range(rng.choice([0, 1, 1, 2, 2, 3, 5])):
        name, valid = gen_name(rng)
        kind = rng.choice(["setHeader", "setHeader", "addRaw", "setRaw"])
        if kind == "setRaw":
            ops.append((kind, name, valid, [gen_value(rng) for _ in range(rng.randint(0, 3))]))
        else:
            ops.append((kind, name, valid, gen_value(rng)))
    for _ in range(rng.choice([0, 0, 0, 1, 1, 2, 3])):
        kw = {}
        for attr in ("expires", "domain", "path", "max_age", "comment"):
            if rng.random() < 0.3:
                kw[attr] = gen_value(rng)
        if rng.random() < 0.3:
            kw["secure"] = True
        if rng.random() < 0.3:
            kw["httpOnly"] = True
        if rng.random() < 0.3:
            kw["sameSite"] = rng.choice(["lax", "Strict", b"LAX", "strict", "bogus", b"none\r\nX: 1"])
        ops.append(("cookie", gen_value(rng, hostile=0.3), gen_value(rng), kw))
    if rng.random() < 0.15:
        ops.append(("etag", to_bytes(gen_value(rng, allow_str=False)) or b'"tag"'))
    if rng.random() < 0.15:
        ops.append(("lastmod", rng.choice([0, 1, 784111777, 1700000000.5, 2 ** 31, 86399.99])))
    writes = []
    for _ in range(rng.choice([0, 1, 1, 2, 3, 6])):
        r = rng.random()
        n = 0 if r < 0.1 else rng.randint(1, 40) if r < 0.85 else rng.randint(1000, 5000) if r < 0.97 else rng.randint(60000, 71680)
        if rng.random() < 0.3:
            writes.append(bytes(rng.randrange(256) for _ in range(min(n, 64))) * (n // 64 + 1))
            writes[-1] = writes[-1][:n]
        else:
            writes.append((rng.choice([b"0\r\n\r\n", b"HTTP/1.1 200 OK\r\n\r\n", b"abc", b"\r\n"]) * (n // 2 + 1))[:n])
    if rng.random() < 0.3:
        total = sum(len(w) for w in writes)
        ops.append(("cl", total if method != "HEAD" or rng.random() < 0.5 else rng.randint(0, 5000)))
    for w in writes:
        ops.append(("write", w))
    return ops


def gen_case(rng):
    r = rng.random()
    n = 3 if r < 0.08 else 2 if r < 0.3 else 1  # keep-alive after HEAD / 204 / 304 / 100-continue must not disturb the next response
    reqs = []
    for j in range(n):
        last = j == n - 1
        method = rng.choice(["GET", "GET", "GET", "HEAD", "POST"])
        version = "1.0" if last and rng.random() < 0.25 else "1.1"
        close = last and version == "1.1" and rng.random() < 0.15
        expect = method == "POST" and version == "1.1" and rng.random() < 0.4
        reqs.append({"method": method, "version": version, "close": close, "expect": expect, "script": gen_script(rng, method)})
    return reqs


def request_bytes(reqs):
    out = b""
    for j, r in enumerate(reqs):
        out += ("%s /q%d HTTP/%s\r\nHost: h\r\n" % (r["method"], j, r["version"])).encode()
        if r["close"]:
            out += b"Connection: close\r\n"
        if r.get("expect"):
            out += b"Expect: 100-continue\r\n"
        if r["method"] == "POST":
            out += b"Content-Length: 3\r\n\r\nabc"
        else:
            out += b"\r\n"
    return out


class Model:
    """What the application managed to set."""

    def __init__(self):
        self.code = 200
        self.reason = None
        self.headers = {}  # lower name -> list of expected wire values (sanitised)
        self.cookies = []  # list of (pair, [(attr lower, value or None)])
        self.body = b""
        self.cl = None
        self.refused = []
        self.not_refused = []
        self.errors = []


def run_script(ctx, request, ops, model):
    for op in ops:
        kind = op[0]
        try:
            if kind == "code":
                model.code = op[1]
                try:
                    request.setResponseCode(op[1], op[2])
                    model.reason = op[2]
                except (ValueError, TypeError):
                    request.setResponseCode(op[1])  # refused the reason: fine
                    ctx.count("reasons_refused")
            elif kind in ("setHeader", "addRaw", "setRaw"):
                name, valid, value = op[1], op[2], op[3]
                try:
                    if kind == "setHeader":
                        request.setHeader(name, value)
                    elif kind == "addRaw":
                        request.responseHeaders.addRawHeader(name, value)
                    else:
                        request.responseHeaders.setRawHeaders(name, value)
                except (ValueError, TypeError) as e:
                    model.refused.append((name, type(e).__name__))
                    if valid:
                        model.errors.append(("valid-header-refused", name, value, repr(e)))
                    else:
                        ctx.count("invalid_names_refused")
                    continue
                if not valid:
                    model.not_refused.append(name)
                    continue
                key = to_bytes(name, "latin-1").lower()
                raw = [to_bytes(v) for v in (value if kind == "setRaw" else [value])]
                ctx.count("values_with_linebreaks", sum(1 for v in raw if b"\r" in v or b"\n" in v))
                vals = [sanitise(v).strip(b" \t") for v in raw]
                if kind == "addRaw":
                    model.headers.setdefault(key, []).extend(vals)
                else:
                    model.headers[key] = vals
            elif kind == "cookie":
                k, v, kw = op[1], op[2], op[3]
                try:
                    request.addCookie(k, v, **kw)
                except ValueError:
                    if to_bytes(kw.get("sameSite", "lax")).lower() in (b"lax", b"strict"):
                        model.errors.append(("cookie-refused", k, v, kw))
                    continue

                def san(x):
                    return sanitise(to_bytes(x)).replace(b";", b" ")

                attrs = []
                for a, wire in (("expires", b"expires"), ("domain", b"domain"), ("path", b"path"), ("max_age", b"max-age"), ("comment", b"comment")):
                    if a in kw:
                        attrs.append((wire, san(kw[a]).strip(b" \t")))
                if kw.get("secure"):
                    attrs.append((b"secure", None))
                if kw.get("httpOnly"):
                    attrs.append((b"httponly", None))
                if kw.get("sameSite"):
                    attrs.append((b"samesite", to_bytes(kw["sameSite"]).lower()))
                model.cookies.append(((san(k) + b"=" + san(v)).strip(b" \t"), attrs))
            elif kind == "etag":
                request.setETag(op[1])
                model.headers[b"etag"] = [sanitise(op[1]).strip(b" \t")]
            elif kind == "lastmod":
                request.setLastModified(op[1])
                model.headers[b"last-modified"] = [email.utils.formatdate(int(math.ceil(op[1])), usegmt=True).encode()]
            elif kind == "cl":
                request.setHeader(b"Content-Length", b"%d" % op[1])
                model.cl = op[1]
                model.headers[b"content-length"] = [b"%d" % op[1]]
            elif kind == "write":
                request.write(op[1])
                model.body += op[1]
        except Exception as e:  # anything else raised to the application
            model.errors.append(("exception", kind, repr(op)[:200], "%s: %s" % (type(e).__name__, e)))
    try:
        request.finish()
    except Exception as e:
        model.errors.append(("exception", "finish", "", "%s: %s" % (type(e).__name__, e)))


def h11_parse(method, data, eof):
    import h11

    c = h11.Connection(h11.CLIENT, max_incomplete_event_size=1 << 22)
    c.send(h11.Request(method=method, target="/", headers=[("Host", "h")]))
    c.send(h11.EndOfMessage())
    c.receive_data(data)
    if eof:
        c.receive_data(b"")
    resp, body, done = None, b"", False
    for _ in range(100000):
        ev = c.next_event()
        if ev is h11.NEED_DATA or ev is h11.PAUSED:
            break
        if isinstance(ev, h11.Response):
            resp = ev
        elif isinstance(ev, h11.Data):
            body += bytes(ev.data)
        elif isinstance(ev, h11.EndOfMessage):
            done = True
            break
        elif isinstance(ev, h11.ConnectionClosed):
            break
    return resp, body, done, c.trailing_data[0]


def check_response(ctx, out, pos, req, model, is_last, closed):
    """Check one response at out[pos:].  -> (list of (key, what, detail), next pos or None)"""
    if model.reason is not None and (b"\r" in model.reason or b"\n" in model.reason):
        ctx.count("reasons_with_linebreaks")
    return _check_response(ctx, out, pos, req, model, is_last, closed)


def raw_reason_on_wire(out, pos, req, model):
    """Classifier for section-6 item 6: the reason has CR/LF and is on the wire verbatim at this response."""
    if model.reason is None or not (b"\r" in model.reason or b"\n" in model.reason):
        return False
    prefix = b"HTTP/" + req["version"].encode() + b" " + (b"%d" % model.code) + b" "
    return out[pos:].startswith(prefix + model.reason + b"\r\n")


def _check_response(ctx, out, pos, req, model, is_last, closed):
    probs = []
    head = req["method"] == "HEAD"
    r = refhttp.read_response(out, pos, head=head)
    ctx.count("responses_checked")

    def bad(key, what, **detail):
        probs.append((key, what, dict(detail, response_head=out[pos:pos + 600], status_line=r.status_line, header_lines=r.header_lines[:12])))

    if r.problem == "no-end-of-head":
        bad("no-response-head", "no complete response head where a response was expected")
        return probs, None
    if not r.status_line.startswith(b"HTTP/1.") or r.code != b"%d" % model.code:
        bad("status-line-mismatch", "status line does not carry the code that was set", expected_code=model.code)
        return probs, None
    for l in [r.status_line] + r.header_lines:
        if b"\r" in l or b"\n" in l:
            bad("bare-cr-or-lf-in-head", "a head line contains a bare CR or LF", line=l)
            return probs, None
    for n, v in r.headers:
        if n is None or not refhttp.is_token(n):
            bad("malformed-header-line", "a head line is not `token: value`", line=v if n is None else n)
            return probs, None
    for name in model.not_refused:
        bad("invalid-header-name-accepted", "a header name that is not a token was not refused when set", name=name)
        return probs, None
    for e in model.errors:
        bad("application-call-failed-" + e[0], "a legitimate application call raised", error=e)
        return probs, None
    got = r.header_map()
    want = {k: v for k, v in model.headers.items() if v}
    cookie_lines = got.pop(b"set-cookie", [])
    te = got.pop(b"transfer-encoding", None)
    conn = got.pop(b"connection", None)
    if te is not None and [x.lower() for x in te] != [b"chunked"]:
        bad("unexpected-transfer-encoding", "server-added Transfer-Encoding is not exactly `chunked`", value=te)
    if conn is not None and not (req["close"] and [x.lower() for x in conn] == [b"close"]):
        bad("unexpected-connection-header", "Connection header not explained by the request", value=conn)
    if set(got) != set(want):
        extra = sorted(set(got) - set(want))
        missing = sorted(set(want) - set(got))
        bad("header-injected" if extra else "header-missing", "header names on the wire differ from the names set (extra %r, missing %r)" % (extra, missing),
            extra=extra, missing=missing, expected=want)
        return probs, None
    for k in want:
        ctx.count("header_values_compared", len(want[k]))
        if got[k] != want[k]:
            bad("header-value-mismatch", "value(s) of %r differ from the value set with line breaks replaced by SP" % k, expected=want[k], observed=got[k])
            return probs, None
    if len(cookie_lines) != len(model.cookies):
        bad("cookie-line-count", "number of Set-Cookie lines differs from the number of addCookie calls", expected=len(model.cookies), observed=cookie_lines)
        return probs, None
    for line, (pair, attrs) in zip(cookie_lines, model.cookies):
        ctx.count("cookie_lines_compared")
        # whitespace-insensitive: a line break at the end of a component may be dropped instead of becoming SP
        segs = [_nows(s) for s in line.split(b";")]
        gattrs = []
        for s in segs[1:]:
            a, eq, v = s.partition(b"=")
            gattrs.append((a.lower(), v if eq else None))
        attrs = [(a, None if v is None else _nows(v)) for a, v in attrs]
        if segs[0] != _nows(pair) or sorted(gattrs, key=repr) != sorted(attrs, key=repr):
            bad("cookie-line-mismatch", "Set-Cookie line does not consist of the sanitised pair and exactly the attributes passed",
                expected=[pair, attrs], observed=line)
            return probs, None
    # ---- body / framing
    body_expected = b"" if (head or model.code in (204, 304)) else model.body
    if te is not None and b"content-length" in r.header_map():
        bad("both-content-length-and-chunked", "response has Content-Length and Transfer-Encoding")
        return probs, None
    if head or model.code in (204, 304):
        ctx.count("no_body_responses_checked")
        if te is not None:
            bad("chunked-on-bodiless-response", "Transfer-Encoding on a HEAD/204/304 response")
        nxt = r.end
    elif model.cl is not None:
        ctx.count("cl_bodies_checked")
        if r.framing != "cl" or not r.complete or r.body != body_expected:
            bad("content-length-body-mismatch", "body under Content-Length framing differs from the writes", framing=r.framing, expected_len=len(body_expected),
                observed_len=len(r.body), problem=r.problem)
            return probs, None
        nxt = r.end
    elif req["version"] == "1.1":
        ctx.count("chunked_bodies_decoded")
        if r.framing != "chunked" or not r.complete:
            bad("chunked-framing-broken", "HTTP/1.1 response without Content-Length is not a complete chunked body", framing=r.framing, problem=r.problem)
            return probs, None
        if r.body != body_expected:
            bad("chunked-body-mismatch", "decoded chunked body differs from the concatenation of the writes", expected_len=len(body_expected),
                observed_len=len(r.body), expected_head=body_expected[:80], observed_head=r.body[:80])
            return probs, None
        if r.chunked.notes or r.chunked.trailers:
            bad("chunked-encoding-irregular", "chunked encoding is not canonical", notes=r.chunked.notes, trailers=r.chunked.trailers)
        nxt = r.end
    else:
        ctx.count("close_delimited_bodies_checked")
        if r.framing != "close" or r.body != body_expected:
            bad("close-delimited-body-mismatch", "HTTP/1.0 close-delimited body differs from the writes", framing=r.framing, expected_len=len(body_expected),
                observed_len=len(r.body))
            return probs, None
        if not closed or not is_last:
            bad("close-delimited-without-close", "close-delimited response but the server did not close the connection")
        nxt = r.end
    if is_last and (req["version"] == "1.0" or req["close"]) and not closed:
        bad("no-close-after-nonpersistent-request", "server did not close after answering a non-persistent request")
    # ---- h11 half
    legal = all(_H11_OK.match(v) for vs in want.values() for v in vs) and all(_H11_OK.match(c) for c in cookie_lines) and \
        (r.reason is None or _H11_OK.match(r.reason)) and 200 <= model.code <= 999 and not probs
    if legal:
        import h11

        try:
            resp, body, done, trailing = h11_parse(req["method"], out[pos:nxt], eof=(r.framing == "close"))
        except h11.RemoteProtocolError as e:
            bad("h11-rejects-response", "h11 refuses a response made only of legal bytes: %s" % e)
            return probs, nxt
        ctx.count("h11_responses_compared")
        hh = {}
        for n, v in (resp.headers if resp is not None else []):
            hh.setdefault(bytes(n), []).append(bytes(v))
        hcook = hh.pop(b"set-cookie", [])
        hh.pop(b"transfer-encoding", None)
        hh.pop(b"connection", None)
        if resp is None or not done or resp.status_code != model.code or hh != want or hcook != cookie_lines or body != body_expected or trailing:
            bad("h11-disagrees", "h11 parses the response differently from what the application set",
                h11_status=getattr(resp, "status_code", None), h11_headers=hh, expected_headers=want, h11_body_len=len(body),
                expected_body_len=len(body_expected), done=done, trailing=trailing[:80])
    return probs, nxt


def check_case(ctx, reqs, case_index=None, sync_close=False):
    models = [Model() for _ in reqs]

    def responder(server, request, rec):
        j = len(server.records) - 1
        run_script(ctx, request, reqs[j]["script"], models[j])

    s = c18.Server("channel", responder=responder, defer=False, sync_close=sync_close)
    try:
        s.feed(request_bytes(reqs))
        s.quiesce()
        out = bytes(s.transport.written)
        closed = bool(s.transport.disconnecting)
        ctx.evaluated()
        ctx.count("bytes_written", len(out))
        sig = repr(reqs)
        if any(len(r["script"]) > 1 for r in reqs):
            ctx.distinct(sig)
        problems = []
        if s.exception or len(s.records) != len(reqs):
            problems.append(("request-not-processed", "harness request was not handed to process()", {"exception": s.exception, "records": len(s.records)}))
        pos = 0
        starts = []
        if not problems:
            for j, (rq, m) in enumerate(zip(reqs, models)):
                if rq.get("expect"):
                    # an interim 100 response may precede the final response of a request that asked for it (and only of such a request)
                    interim = b"HTTP/1.1 100 Continue\r\n\r\n"
                    while out[pos:].startswith(interim):
                        pos += len(interim)
                        ctx.count("interim_100_skipped")
                if j > 0 and (reqs[j - 1]["method"] == "HEAD" or models[j - 1].code in (204, 304) or reqs[j - 1].get("expect")):
                    ctx.count("responses_after_bodiless_or_100_on_same_connection")
                starts.append(pos)
                probs, pos = check_response(ctx, out, pos, rq, m, j == len(reqs) - 1, closed)
                problems += [(k, w, dict(d, request_index=j)) for k, w, d in probs]
                if pos is None:
                    break
            if pos is not None and pos != len(out):
                problems.append(("stray-bytes-after-responses", "bytes left after the expected number of responses (not exactly one response per request)",
                                 {"leftover": out[pos:pos + 200], "leftover_len": len(out) - pos}))
        if problems:
            # a broken head/framing is attributed to the reason phrase only if a raw CR/LF reason is on the wire verbatim
            for j, st in enumerate(starts):
                if raw_reason_on_wire(out, st, reqs[j], models[j]):
                    problems = [("reason-phrase-not-sanitised", "the reason phrase given to setResponseCode is written verbatim: its CR/LF break the response head",
                                 {"reason": models[j].reason, "request_index": j, "consequence": problems[0][0]})]
                    break
        for key, what, detail in problems[:1]:
            ctx.violation(key, what, dict(detail, case_index=case_index, sync_close=sync_close, requests=reqs, output_head=out[:800], output_len=len(out)))
        if len(ctx.samples) < 3 and ctx.shard == 0 and len(out) < 500 and any(len(r["script"]) > 3 for r in reqs):
            ctx.sample({"requests": reqs, "output": out, "closed": closed})
        return problems
    finally:
        s.cleanup()


def run(ctx):
    refhttp.selftest()
    for i in ctx.cases(16000, 600000):
        rng = ctx.case_rng(i)
        sync_close = ctx.case_rng(i, "sync-close").random() < 0.3
        if sync_close:
            ctx.count("cases_on_sync_close_transport")
        check_case(ctx, gen_case(rng), i, sync_close)


def replay(ctx, w):
    """Cases are a pure function of (seed, case index): regenerate and re-check."""
    i = w["witness"].get("case_index")
    if i is None:
        print("replay: witness has no case index; re-run with VERIF_SEED=%s" % w.get("seed"))
        return
    check_case(ctx, gen_case(ctx.case_rng(i)), i, ctx.case_rng(i, "sync-close").random() < 0.3)
