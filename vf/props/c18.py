"""C18 HTTP/1.1 server parsing does not depend on how bytes are segmented.

Monitored object: the real `HTTPChannel` behind `HTTPFactory.buildProtocol()` (timeout=None, fixed
clock) on a netsim.SimTransport, in two configurations: a recording `http.Request` subclass, and
`server.Site` with a leaf resource.  Observed at the API boundary: every request handed to
`process()`/`render()` (method, uri, clientproto, all raw request headers, body bytes) and every
byte the server writes, both cut at the server's first `loseConnection()`.

Oracle (relational): the same stream delivered in one piece and delivered split gives the same
request list, the same written bytes, the same close/no-close decision and the same exception (if
any) out of dataReceived.  Responses are a deterministic function of the recorded request (status,
Content-Length vs chunked, number of writes); some answers are deferred and finished later by the
harness scheduler, at schedule points that differ between the two runs; a few answers raise (an
Exception or a BaseException-only class) or call request.loseConnection() before/after finishing.

False-alarm guards: the harness stops delivering after the server called loseConnection(), as a TCP
transport stops reading (otherwise line-buffer leftovers after a 400 would be parsed on the next
delivery); while the channel pauses its transport (more than 16 KiB buffered behind a deferred
request) the harness holds the remaining segments and continues after the resume; in a quarter of the split runs the transport pauses the channel (send buffer full) after one piece
and resumes later, the harness holding the bytes meanwhile; 30 % of the
streams run (both deliveries) on a transport that reports connectionLost from inside the server's
loseConnection(); in the Site
configuration the value of the `Date` header (wall clock) is masked.

This module also hosts the server harness (`Server`) shared by C19 and C21.
"""
import hashlib

from vf.engines import netsim, refhttp

LEVEL = "exploration"
ENGINE = "E2-netsim"
TECHNIQUE = "runtime monitoring: relational oracle, whole delivery vs split delivery of the same stream on the real HTTPChannel"
RULE = ("request streams from the refhttp grammar (valid pipelines with Content-Length/chunked bodies, Expect: 100-continue, "
        "obs-fold, extra blank lines; hostile framing knobs; byte-level mutations; truncations) plus header blocks sized "
        "around totalHeadersSize/maxHeaders/MAX_LENGTH and chunk-size lines of 1021..1026 bytes (cuts at every offset around their CRLF), and pipelines of 2-3 asynchronously "
        "answered requests whose header sections are each just under the limits (cuts at/around the request boundaries, each answer "
        "given before the next piece); each stream is delivered whole and then under every 1-cut split "
        "(streams <= 300 bytes), all or sampled 2-cut splits, byte-at-a-time and random k-splits, with deferred answers "
        "finished at random schedule points.  A case is distinct by (configuration, stream, split); non-trivial = the "
        "whole-delivery run handed at least one request to the application or produced output.")
ASSUMPTIONS = ["trusted base: netsim.SimTransport models a TCP transport (stops reading after loseConnection, honours pauseProducing)",
               "the recording Request subclass / leaf resource answer as a pure function of the recorded request",
               "Site configuration: the Date header value is masked because twisted.web.server takes it from the wall clock"]
SHARDS = {"quick": 4, "thorough": 16}
FLOORS = {"split_runs_compared": 2000, "requests_compared": 2000, "streams_with_400": 20, "streams_with_deferred_answer": 20,
          "streams_with_100_continue": 5, "limit_streams": 10, "limit_streams_chunkline": 3,
          "streams_with_application_exception": 20, "streams_with_application_close": 20, "split_runs_with_transport_pause": 2000,
          "pipelines_with_near_limit_headers_async": 4}
READY = True


# --------------------------------------------------------------------------------------------------
# shared harness
# --------------------------------------------------------------------------------------------------
class SyncCloseTransport(netsim.SimTransport):
    """A transport that reports the disconnection from inside loseConnection() when nothing keeps the
    connection open (no producer registered) — as StringTransportWithDisconnection does, and as
    abstract.FileDescriptor.loseConnection does when the write side is already closed.  The bytes
    written so far stay in `written` (they were handed to the network before the close)."""

    on_sync_close = None

    def loseConnection(self, _connDone=None):
        first = not self.disconnecting and not self.disconnected
        netsim.SimTransport.loseConnection(self)
        if first and self.producer is None and self.on_sync_close is not None:
            self.log.append((self.name, "connectionLost-inside-loseConnection"))
            self.on_sync_close()


class Server:
    """One server connection on a SimTransport.  `responder(server, request, record)` is called from
    process()/render(); the default answers deterministically (possibly deferred).  sync_close: the
    transport calls connectionLost re-entrantly from inside the server's own loseConnection()."""

    def __init__(self, config="channel", responder=None, defer=True, sync_close=False):
        from twisted.internet import task
        from twisted.web import http

        self.config = config
        self.clock = task.Clock()
        self.records = []  # what the application received
        self.requests = []  # the live Request objects, same order
        self.pending = []  # deferred answers: (request, plan)
        self.events = []
        self.held = []  # input held while the server paused reading
        self.dropped = 0  # bytes not delivered because the server closed
        self.exception = None
        self.defer = defer
        self.responder = responder or default_responder
        srv = self
        if config == "site":
            from twisted.web import resource, server

            class Leaf(resource.Resource):
                isLeaf = True

                def render(self, request):
                    srv._on_process(request)
                    return server.NOT_DONE_YET

            self.factory = server.Site(Leaf(), timeout=None, reactor=self.clock)
        else:

            class RecReq(http.Request):
                def process(self):
                    srv._on_process(self)

            self.factory = http.HTTPFactory(timeout=None, reactor=self.clock)
            self.request_class = RecReq
        if sync_close:
            self.transport = SyncCloseTransport("srv", log=self.events)
            self.transport.on_sync_close = self._sync_close
        else:
            self.transport = netsim.SimTransport("srv", log=self.events)
        self.proto = self.factory.buildProtocol(self.transport.getPeer())
        if config != "site":
            self.proto.requestFactory = self.request_class
        self.proto.makeConnection(self.transport)
        self.lost = False

    # -- application side
    def _on_process(self, request):
        rec = {
            "method": request.method, "uri": request.uri, "version": request.clientproto,
            "headers": sorted((k, list(v)) for k, v in request.requestHeaders.getAllRawHeaders()),
            "body": request.content.read(),
        }
        self.records.append(rec)
        self.requests.append(request)
        self.events.append(("app", "process", len(self.records) - 1, len(self.transport.written)))
        self.responder(self, request, rec)

    def finish_one(self):
        """Scheduler step: finish the oldest deferred answer.  -> True if something was done."""
        if not self.pending:
            return False
        request, plan = self.pending.pop(0)
        try:
            answer(self, request, plan)
        except (Exception, AppAbort) as e:  # raised by the application (possibly by the next request's process() beneath finish())
            self.exception = "%s: %s" % (type(e).__name__, str(e)[:200])
            self.events.append(("srv", "exception-in-deferred-answer", self.exception))
        self._drain_held()
        return True

    # -- network side
    @property
    def closed(self):
        return self.transport.disconnecting or self.lost or self.exception is not None

    def feed(self, data):
        if self.closed:
            self.dropped += len(data)
            return
        if self.transport.reading_paused or self.held:
            self.held.append(data)
            return
        self._deliver(data)

    def _deliver(self, data):
        try:
            self.proto.dataReceived(data)
        except (Exception, AppAbort) as e:  # a real reactor logs this and drops the connection
            self.exception = "%s: %s" % (type(e).__name__, str(e)[:200])
            self.events.append(("srv", "exception", self.exception))

    def _drain_held(self):
        while self.held and not self.transport.reading_paused:
            data = self.held.pop(0)
            if self.closed:
                self.dropped += len(data)
            else:
                self._deliver(data)

    def _sync_close(self):
        from twisted.internet import error
        from twisted.python import failure

        self.lose(failure.Failure(error.ConnectionDone()))

    def lose(self, reason=None):
        from twisted.internet import error
        from twisted.python import failure

        if not self.lost:
            self.lost = True
            self.transport.disconnected = True
            self.proto.connectionLost(reason or failure.Failure(error.ConnectionLost("simulated")))

    def transport_pause(self):
        """The transport's send buffer is full: it pauses its producer, the channel."""
        if not self.closed and self.transport.producer is not None:
            self.transport.sim_pause_producer()

    def transport_resume(self):
        if not self.lost and self.transport.producer is not None and self.transport.producer_paused:
            self.transport.sim_resume_producer()
        self._drain_held()

    def quiesce(self, max_steps=10000):
        n = 0
        self.transport_resume()  # every pause is matched by a resume before the run is judged
        while (self.pending or (self.held and not self.transport.reading_paused)) and n < max_steps:
            if not self.finish_one():
                self._drain_held()
            n += 1
        return n

    def output(self):
        """Bytes written up to the first loseConnection()."""
        w = bytes(self.transport.written)
        if self.transport.lose_requested_at is not None:
            w = w[:self.transport.lose_requested_at]
        return w

    def cleanup(self):
        for dc in self.clock.getDelayedCalls():
            dc.cancel()


def plan_for(rec, index):
    """Deterministic answer derived from a hash of the recorded request."""
    h = hashlib.blake2b(repr((rec["method"], rec["uri"], rec["version"], rec["headers"], rec["body"])).encode("utf-8", "backslashreplace"), digest_size=8).digest()
    code = (200, 200, 201, 404, 204, 304, 500, 302)[h[0] % 8]
    npieces = h[1] % 4
    pieces = [bytes([65 + (h[2] + i) % 26]) * (1 + (h[3] + 7 * i) % 40) for i in range(npieces)]
    quirk = {0: "raise-exc", 1: "raise-base", 2: "lose-before-finish", 3: "lose-before-finish"}.get(h[6] % 24)
    if any(k == b"X-Defer" for k, _ in rec["headers"]):  # the stream asks for an asynchronously finished, plain answer
        return {"code": code, "pieces": pieces, "use_cl": h[4] % 3 == 0, "defer": True, "index": index, "quirk": None}
    return {"code": code, "pieces": pieces, "use_cl": h[4] % 3 == 0, "defer": h[5] % 4 == 0, "index": index, "quirk": quirk}


class AppError(Exception):
    """Raised on purpose by the harness application."""


class AppAbort(BaseException):
    """Same, but not an Exception subclass."""


def answer(server, request, plan):
    quirk = plan.get("quirk")
    if quirk in ("raise-exc", "raise-base"):  # application code that raises at the process()/finish call-out
        server.events.append(("app", quirk, plan["index"]))
        raise (AppError if quirk == "raise-exc" else AppAbort)("injected by the harness application, request %d" % plan["index"])
    if quirk == "lose-before-finish":  # re-entrant close from inside process()
        server.events.append(("app", quirk, plan["index"]))
        request.loseConnection()
    request.setResponseCode(plan["code"])
    request.setHeader(b"X-Req", b"%d" % plan["index"])
    if plan["use_cl"]:
        request.setHeader(b"Content-Length", b"%d" % sum(len(p) for p in plan["pieces"]))
    for p in plan["pieces"]:
        request.write(p)
    request.finish()


def default_responder(server, request, rec):
    plan = plan_for(rec, len(server.records) - 1)
    if plan["defer"] and server.defer:
        server.events.append(("app", "deferred", plan["index"]))
        server.pending.append((request, plan))
    else:
        answer(server, request, plan)


# --------------------------------------------------------------------------------------------------
# the C18 monitor
# --------------------------------------------------------------------------------------------------
def _mask(config, out):
    if config != "site":
        return out
    import re

    return re.sub(rb"\r\nDate: [^\r\n]*", b"\r\nDate: <masked>", out)


def run_delivery(config, pieces, finish_points=(), sync_close=False, pause_points=None):
    """Deliver `pieces`; finish one deferred answer after piece i for every i in finish_points.
    -> observation dict."""
    s = Server(config, sync_close=sync_close)
    fp = set(finish_points)
    try:
        for i, p in enumerate(pieces):
            s.feed(p)
            if i in fp:
                s.finish_one()
            if pause_points and i in pause_points:
                (s.transport_pause if pause_points[i] == "pause" else s.transport_resume)()
        s.quiesce()
        obs = {
            "requests": s.records,
            "output": _mask(config, s.output()),
            "closed": bool(s.transport.disconnecting),
            "exception": s.exception,
            "stuck": bool(s.pending or s.held),
        }
        obs["n_deferred"] = sum(1 for e in s.events if e[:2] == ("app", "deferred"))
        obs["n_app_close"] = sum(1 for e in s.events if e[0] == "app" and e[1] == "lose-before-finish")
        return obs
    finally:
        s.cleanup()


def compare(ctx, config, stream, whole, pieces, finish_points, how, nontrivial=True, sync_close=False, pause_points=None):
    got = run_delivery(config, pieces, finish_points, sync_close, pause_points)
    if pause_points:
        ctx.count("split_runs_with_transport_pause")
    ctx.count("split_runs_compared")
    ctx.count("requests_compared", len(whole["requests"]))
    ctx.evaluated()
    if nontrivial:
        ctx.distinct((config, stream, tuple(len(p) for p in pieces)))
    diffs = [k for k in ("requests", "output", "closed", "exception", "stuck") if whole[k] != got[k]]
    if not diffs:
        return True
    if "requests" in diffs:
        key = "segmentation-changes-requests"
    elif "exception" in diffs:
        key = "segmentation-changes-exception"
    elif "closed" in diffs:
        key = "segmentation-changes-close"
    elif "stuck" in diffs:
        key = "segmentation-changes-progress"
    else:
        key = "segmentation-changes-output"
    ctx.violation(key, "split delivery differs from whole delivery in: " + ", ".join(diffs), {
        "config": config, "sync_close": sync_close, "stream": stream, "pieces": pieces, "finish_points": sorted(finish_points), "pause_points": pause_points, "how": how,
        "differs_in": diffs, "expected_whole": whole, "observed_split": got})
    return False


LIMIT_KINDS = ["total", "count", "line", "reqline", "chunkline", "asyncpipe"]


def asyncpipe_stream(rng):
    """Two or three pipelined requests, each answered asynchronously (X-Defer), whose header sections are each just
    under a per-request limit (9-15 KiB of headers, or 260-490 header lines) while two of them together exceed it.
    -> (stream, description, cut offsets at and around the request boundaries)"""
    n = rng.choice([2, 2, 3])
    by_count = rng.random() < 0.5
    stream = b""
    marks = []
    sizes = []
    for k in range(n):
        lines = [b"GET /a%d HTTP/1.1" % k, b"Host: h", b"X-Defer: 1"]
        if by_count:
            c = rng.choice([260, 300, 400, 480, 490])
            lines += [b"X-%d: v" % i for i in range(c - 2)]
            sizes.append(c)
        else:
            total = rng.choice([9000, 12000, 15000, 16200])
            for i in range(rng.randint(1, 3)):
                lines.append(b"X-P%d: " % i + b"p" * (total // 3))
            sizes.append(total)
        stream += b"\r\n".join(lines) + b"\r\n\r\n"
        if k < n - 1:
            marks += [len(stream) - 2, len(stream) - 1, len(stream), len(stream) + 1, len(stream) + 20]
    return stream, "asyncpipe-%s-%s" % ("count" if by_count else "size", "-".join(map(str, sizes))), marks


def chunkline_stream(rng):
    """Chunk-size lines (size + extension padding) around maxChunkSizeLineLength (1024): a request whose
    lines are 1021, 1022 and 1023 bytes long (all acceptable), then either a request with a line of
    1024..1026 bytes (refused) or a plain request.
    -> (stream, description, offsets just before / inside / after every such line's CRLF)"""
    head = b"POST /big HTTP/1.1\r\nHost: h\r\nTransfer-Encoding: chunked\r\n\r\n"
    lengths = [1021, 1022, 1023]
    if rng.random() < 0.3:
        rng.shuffle(lengths)
    body = bytearray(head)
    marks = []

    def line(prefix, L):
        nonlocal body
        body += prefix + rng.choice([b"e", b"\xe9", b" "]) * (L - len(prefix))
        marks.extend([len(body) - 1, len(body), len(body) + 1, len(body) + 2])
        body += b"\r\n"

    for L in lengths:
        line(b"5;x=", L)
        body += b"hello\r\n"
    line(b"0;y=", rng.choice([1021, 1022, 1023]))
    body += b"\r\n"
    over = rng.choice([None, 1024, 1025, 1026])
    if over is not None:
        body += b"POST /over HTTP/1.1\r\nHost: h\r\nTransfer-Encoding: chunked\r\n\r\n"
        line(b"5;x=", over)
        body += b"hello\r\n0\r\n\r\n"
    body += b"GET /after HTTP/1.1\r\nHost: h\r\n\r\n" if rng.random() < 0.7 else b""
    return bytes(body), "chunkline" + "-".join(map(str, lengths + [over or 0])), marks


def limit_stream(rng, kind=None):
    """Header blocks sized around totalHeadersSize (16384), maxHeaders (500), MAX_LENGTH (16384); chunk-size
    lines around maxChunkSizeLineLength (1024).  -> (stream, description, extra cut offsets)"""
    kind = kind or rng.choice(LIMIT_KINDS)
    if kind == "chunkline":
        return chunkline_stream(rng)
    if kind == "asyncpipe":
        return asyncpipe_stream(rng)
    tail = b"GET /after HTTP/1.1\r\nHost: h\r\n\r\n" if rng.random() < 0.7 else b""
    rl = b"GET /big HTTP/1.1"
    stream, d = _limit_stream(rng, kind, rl, tail)
    if rng.random() < 0.4:  # a small pipelined request first: limits are per request, not per connection/delivery
        stream = b"POST /before HTTP/1.1\r\nHost: h\r\nContent-Length: 3\r\n\r\nabc" + stream
        d = "pipelined-" + d
    return stream, d, []


def _limit_stream(rng, kind, rl, tail):
    if kind == "total":
        # sum of line lengths (without CRLF) == 16384 + d
        d = rng.randint(-3, 3)
        lines = [rl, b"Host: h"]
        n = rng.randint(1, 3)
        remaining = 16384 + d - sum(len(l) for l in lines)
        for i in range(n):
            take = remaining // (n - i) if i < n - 1 else remaining
            lines.append(b"X-P%d: " % i + b"a" * max(0, take - 6))
            remaining -= len(lines[-1])
        return b"\r\n".join(lines) + b"\r\n\r\n" + tail, "total%+d" % d
    if kind == "count":
        k = 500 + rng.randint(-2, 2)
        lines = [rl] + [b"X-%d: v" % i for i in range(k)]
        return b"\r\n".join(lines) + b"\r\n\r\n" + tail, "count%d" % k
    if kind == "line":
        d = rng.randint(-3, 4)
        return rl + b"\r\nX-L: " + b"b" * (16384 + d - 5) + b"\r\n\r\n" + tail, "line%+d" % d
    d = rng.randint(-3, 4)
    return b"GET /" + b"c" * (16384 + d - 14) + b" HTTP/1.1\r\nHost: h\r\n\r\n" + tail, "reqline%+d" % d


def split_plans(ctx, rng, stream, extra_marks=()):
    """Yield (pieces, how) for one stream."""
    n = len(stream)
    if n < 2:
        return
    if n <= 300:
        for pieces in netsim.all_splits(stream, 1):
            yield pieces, "1cut"
        if n <= (40 if ctx.quick else 70):
            for pieces in netsim.all_splits(stream, 2):
                yield pieces, "2cut-all"
        else:
            for _ in range(12 if ctx.quick else 40):
                a, b = sorted(rng.sample(range(1, n), 2))
                yield [stream[:a], stream[a:b], stream[b:]], "2cut-sample"
        yield [stream[i:i + 1] for i in range(n)], "bytewise"
        for _ in range(4):
            yield netsim.random_split(rng, stream), "random"
    else:
        if n <= 3000:
            yield [stream[i:i + 1] for i in range(n)], "bytewise"
        for _ in range(6):
            yield netsim.random_split(rng, stream, max_piece=4096), "random"
        # cuts around every CRLF-ish boundary near the end and around the 16 KiB marks
        marks = [i for i in (16384, 16385, 16386, 16387, 16400, n - 1, n - 2, n - 3, n - 34, n - 35) if 0 < i < n]
        marks += [i for i in extra_marks if 0 < i < n]
        for m in marks:
            yield [stream[:m], stream[m:]], "1cut-mark"
        for _ in range(4):
            a, b = sorted(rng.sample(marks, 2)) if len(marks) >= 2 else (1, n - 1)
            if 0 < a < b < n:
                yield [stream[:a], stream[a:b], stream[b:]], "2cut-mark"


def check_stream(ctx, rng, config, stream, desc, extra_marks=(), sync_close=False, finish_between=False):
    whole = run_delivery(config, [stream], (), sync_close)
    ctx.evaluated()
    if whole["stuck"]:
        ctx.violation("whole-delivery-stuck", "deferred answers or held input left after quiescence", {"config": config, "stream": stream, "observed": whole})
        return
    if b" 400 " in whole["output"][-40:]:
        ctx.count("streams_with_400")
    if whole["n_deferred"]:
        ctx.count("streams_with_deferred_answer")
    if whole["n_app_close"]:
        ctx.count("streams_with_application_close")
    if b"100 Continue" in whole["output"]:
        ctx.count("streams_with_100_continue")
    if whole["exception"] and whole["exception"].startswith(("AppError", "AppAbort")):
        ctx.count("streams_with_application_exception")
    elif whole["exception"]:
        ctx.count("streams_with_exception")
        ctx.seen("exceptions", whole["exception"][:80])
    ctx.count("requests_delivered_whole", len(whole["requests"]))
    if not whole["requests"] and not whole["output"]:
        ctx.count("streams_without_effect")
    nontrivial = bool(whole["requests"] or whole["output"])
    k = 0
    for pieces, how in split_plans(ctx, rng, stream, extra_marks):
        fps = ()
        if whole["n_deferred"] and rng.random() < 0.7:
            fps = set(rng.sample(range(len(pieces)), min(len(pieces), rng.randint(1, 3))))
        if finish_between and how.endswith("mark"):
            fps = set(range(len(pieces) - 1))  # every asynchronous answer is given before the next piece arrives
        ctx.count("splits_" + how.split("-")[0])
        pps = None
        if len(pieces) >= 2 and rng.random() < 0.25:  # the transport stops reading after piece p and resumes after piece q (or at the end)
            pp = rng.randrange(len(pieces) - 1)
            pps = {pp: "pause"}
            if rng.random() < 0.6:
                pps[rng.randrange(pp + 1, len(pieces))] = "resume"
        ok = compare(ctx, config, stream, whole, pieces, fps, how, nontrivial, sync_close, pps)
        k += 1
        if not ok:
            break
    if len(ctx.samples) < 4 and whole["requests"] and ctx.shard == 0:
        ctx.sample({"config": config, "desc": desc, "stream": stream, "splits_compared": k,
                    "whole": {"requests": whole["requests"][:3], "output": whole["output"][:300], "closed": whole["closed"]}})


def run(ctx):
    refhttp.selftest()
    for i in ctx.cases(600, 12000):
        rng = ctx.case_rng(i)
        config = "site" if i % 5 == 4 else "channel"
        if i % 20 == 7:
            kind = LIMIT_KINDS[(i // 20) % len(LIMIT_KINDS)]
            stream, d, marks = limit_stream(rng, kind)
            desc = ["limit:" + d]
            ctx.count("limit_streams")
            ctx.count("limit_streams_" + kind)
        else:
            marks = ()
            stream, desc = refhttp.gen_stream(rng, "mixed", max_requests=4)
            if rng.random() < 0.15:
                stream = refhttp.mutate_bytes(rng, stream)
                desc.append("mutated")
        ctx.count("streams")
        ctx.count("stream_bytes", len(stream))
        for d in desc:
            ctx.seen("stream_kinds", d.split(":")[0])
        sync_close = ctx.case_rng(i, "sync-close").random() < 0.3
        if sync_close:
            ctx.count("streams_on_sync_close_transport")
        asyncpipe = bool(desc) and desc[0].startswith("limit:asyncpipe")
        if asyncpipe:
            ctx.count("pipelines_with_near_limit_headers_async")
        check_stream(ctx, rng, config, stream, desc, marks, sync_close, asyncpipe)


def _unb(x):
    """Undo ctx.jsonable for bytes ('b:...' strings); None when the witness was abbreviated."""
    import codecs

    if isinstance(x, str) and x.startswith("b:"):
        if "...(" in x and x.endswith(")"):
            return None
        return codecs.escape_decode(x[2:].encode("latin-1"))[0]
    return x


def replay(ctx, w):
    x = w["witness"]
    stream = _unb(x["stream"])
    pieces = [_unb(p) for p in x.get("pieces", [])]
    if stream is None or any(p is None for p in pieces):
        print("replay: stream too long for the witness file; re-run with VERIF_SEED=%s" % w.get("seed"))
        return
    sc = bool(x.get("sync_close"))
    whole = run_delivery(x["config"], [stream], (), sc)
    if pieces:
        pps = {int(k): v for k, v in (x.get("pause_points") or {}).items()} or None
        compare(ctx, x["config"], stream, whole, pieces, set(x.get("finish_points", [])), x.get("how", "replay"), True, sc, pps)
