"""C41 Mail text codecs round-trip — IMAP4 modified UTF-7 (imap4.encoder/decoder, the registered
"imap4-utf-7" codec) and SMTP xtext (smtp.xtext_encode/xtext_decode).

Monitor: every generated input is pushed through the real encoder; the encoded bytes are observed and
judged by (1) a byte-range test (printable ASCII only), (2) the strict reference decoder of
vf/engines/refcodecs.py (written from RFC 3501 5.1.3 / RFC 3461 4; any deviation from the RFC form is
a FormError with a reason code) whose result must be the input, and (3) the real decoder, whose
result must be the input.

Guards: lone surrogates are never generated (outside the statement).  The reference *encoder* is not
an oracle (only counted): the statement demands RFC form + round trip, not one canonical spelling.
xtext_decode returns str; it is compared as latin-1 bytes.  Violations are classified by a
counterfactual re-run: if replacing the characters of a known mechanism (TAB/LF/CR for the IMAP
codec, '+'/'=' for xtext) by neighbours that take the same code path makes every check pass, the key
is that mechanism; otherwise the key names the failed stage, so other breaks are not swallowed.
"""
import codecs

from vf.engines import refcodecs as R

LEVEL = "exploration"
ENGINE = "core"
TECHNIQUE = "runtime monitoring: strict RFC reference decoder + real decoder on the real encoder's output"
RULE = ("IMAP: every single code point U+0000..U+FFFF (quick) / ..U+10FFFF (thorough) except surrogates, "
        "embedded as 'a'+c+'&'+c; plus random strings (length 0..40) over an alphabet weighted to C0 "
        "controls, TAB/LF/CR, '&', '+', '-', ',', '/', '=', DEL, Latin-1, BMP and astral code points and "
        "the surrogate-range neighbours; plus the run-length family: one uninterrupted run of L shifted "
        "characters for every L in 1..200, in 6 character classes (C0, Latin-1, CJK, random BMP, astral, "
        "BMP+astral), alone and embedded in ASCII / around '&' (base64 sections of every length up to 1067 "
        "characters, crossing every 57-octet / 76-character line boundary), and random long runs in 8% of the "
        "random cases.  xtext: all 1- and 2-byte strings, every length 1..300 and 500/1000/1999/2000 in 4 byte "
        "classes, plus random byte strings (length 0..40, 4% of them 41..2000) weighted to '+', '=', SP, DEL, "
        "NUL, hex digits, 8-bit bytes.  Distinct = the "
        "input itself; non-trivial = at least one character/byte that cannot represent itself.")
ASSUMPTIONS = ["trusted base: vf/engines/refcodecs.py (RFC 3501 5.1.3 modified UTF-7, RFC 3461 xtext; "
               "self-tested against the RFC examples and exhaustively against itself)",
               "strings with lone surrogates are outside the statement and are not generated"]
SHARDS = {"quick": 4, "thorough": 16}
FLOORS = {"imap_strict_form_checks": 20000, "imap_roundtrips_compared": 20000,
          "xtext_strict_form_checks": 20000, "xtext_roundtrips_compared": 20000,
          "imap_inputs_with_base64_run": 5000, "xtext_inputs_with_hexchar": 5000,
          "imap_runs_of_29_or_more_shifted_chars": 3000, "xtext_inputs_over_100_bytes": 1000}
READY = True

_PRINTABLE = "".join(chr(c) for c in range(0x20, 0x7F))
_HOT = "&&&+-,/=~\\\t\n\r\x00\x01\x0b\x1f\x7f \"(){%*"


def _no_surrogate(cp):
    return cp if not 0xD800 <= cp <= 0xDFFF else 0xE000


def gen_text(rng):
    n = rng.choice((0, 1, 1, 2, 2, 3, 4, 5, 8, 13, 21, 40))
    out = []
    mode = rng.random()
    for _ in range(n):
        r = rng.random()
        if mode < 0.15:  # mostly printable, a few specials
            r = r * 0.5
        if r < 0.25:
            out.append(rng.choice(_PRINTABLE))
        elif r < 0.45:
            out.append(rng.choice(_HOT))
        elif r < 0.55:
            out.append(chr(rng.randrange(0x00, 0x20)))
        elif r < 0.68:
            out.append(chr(rng.randrange(0x80, 0x100)))
        elif r < 0.82:
            out.append(chr(_no_surrogate(rng.randrange(0x100, 0x10000))))
        elif r < 0.87:
            out.append(chr(rng.choice((0xD7FF, 0xE000, 0xFFFD, 0xFFFE, 0xFFFF, 0xFEFF, 0x2028, 0x85, 0xA0))))
        elif r < 0.97:
            out.append(chr(rng.randrange(0x10000, 0x110000)))
        else:
            out.append(chr(rng.choice((0x10000, 0x10FFFF, 0x1F600, 0xFFFFF, 0x100000))))
    return "".join(out)


RUN_CLASSES = ("c0", "latin1", "cjk", "bmp", "astral", "mixed")


def shifted_char(rng, cls):
    """One character that can only be represented inside a BASE64 section."""
    if cls == "c0":
        return chr(rng.choice((0, 1, 9, 10, 13, 0x1B, 0x1F, 0x7F)))
    if cls == "latin1":
        return chr(rng.randrange(0x80, 0x100))
    if cls == "cjk":
        return chr(rng.randrange(0x4E00, 0x9FFF))
    if cls == "bmp":
        return chr(_no_surrogate(rng.randrange(0x80, 0x10000)))
    if cls == "astral":
        return chr(rng.randrange(0x10000, 0x110000))
    return shifted_char(rng, rng.choice(("c0", "latin1", "cjk", "bmp", "astral", "astral")))


def gen_run(rng, cls, n):
    return "".join(shifted_char(rng, cls) for _ in range(n))


def gen_long_text(rng):
    """Long shifted runs (1..200) with few or no interruptions."""
    parts = []
    for _ in range(rng.choice((1, 1, 1, 2, 3))):
        n = rng.choice((18, 19, 28, 29, 30, 38, 56, 57, 58, 76, 95, 100, 114, 200, rng.randrange(1, 201), rng.randrange(1, 201)))
        parts.append(gen_run(rng, rng.choice(RUN_CLASSES), n))
        if rng.random() < 0.6:
            parts.append(rng.choice(("a", "&", " ", "-", "+", "/x", "Mail/", "")))
    if rng.random() < 0.3:
        parts.insert(0, rng.choice(("INBOX/", "a", "&")))
    return "".join(parts)


def longest_shifted_run(s):
    best = cur = 0
    for c in s:
        cur = cur + 1 if not 0x20 <= ord(c) <= 0x7E else 0
        best = max(best, cur)
    return best


def gen_bytes(rng):
    n = rng.choice((0, 1, 2, 3, 3, 4, 5, 8, 13, 21, 40))
    if rng.random() < 0.04:
        n = rng.choice((41, 100, 255, 256, 1000, 1999, 2000, rng.randrange(41, 2001)))
    out = bytearray()
    for _ in range(n):
        r = rng.random()
        if r < 0.3:
            out.append(rng.choice(b"++==+=  \x00\x7f\x80\xff!~\r\n\t"))
        elif r < 0.5:
            out.append(rng.choice(b"0123456789ABCDEFabcdef"))
        elif r < 0.75:
            out.append(rng.randrange(33, 127))
        else:
            out.append(rng.randrange(256))
    return bytes(out)


# ---- monitors (return None when every check passes, else (stage, details)) ---------------------------

def imap_verdict(imap4, s, count=None):
    try:
        enc, used = imap4.encoder(s)
    except Exception as e:
        return "encoder-raises", {"exception": repr(e)}
    if not isinstance(enc, bytes) or used != len(s):
        return "encoder-bad-return", {"encoded": enc, "consumed": used}
    bad = sorted({b for b in enc if not 0x20 <= b <= 0x7E})
    if bad:
        return "nonprintable-output", {"encoded": enc, "bytes_outside_0x20_0x7e": bad}
    if count:
        count("imap_strict_form_checks")
    try:
        ref = R.mutf7_decode(enc)
    except R.FormError as e:
        return "not-rfc3501-form:" + e.reason, {"encoded": enc, "form_error": str(e)}
    if ref != s:
        return "reference-decodes-differently", {"encoded": enc, "reference_decoded": _cps(ref)}
    if count:
        count("imap_roundtrips_compared")
    try:
        dec, used = imap4.decoder(enc)
    except Exception as e:
        return "decoder-raises", {"encoded": enc, "exception": repr(e)}
    if dec != s:
        return "roundtrip-mismatch", {"encoded": enc, "decoded": _cps(dec)}
    if used != len(enc):
        return "decoder-bad-return", {"encoded": enc, "consumed": used}
    return None


def xtext_verdict(smtp, b, count=None):
    try:
        enc, used = smtp.xtext_encode(b)
    except Exception as e:
        return "encoder-raises", {"exception": repr(e)}
    if not isinstance(enc, bytes) or used != len(b):
        return "encoder-bad-return", {"encoded": enc, "consumed": used}
    bad = sorted({c for c in enc if not 0x21 <= c <= 0x7E})
    if bad:
        return "nonprintable-output", {"encoded": enc, "bytes_outside_0x21_0x7e": bad}
    if count:
        count("xtext_strict_form_checks")
    try:
        ref = R.xtext_decode(enc)
    except R.FormError as e:
        return "not-rfc3461-form:" + e.reason, {"encoded": enc, "form_error": str(e)}
    if ref != b:
        return "reference-decodes-differently", {"encoded": enc, "reference_decoded": ref.hex()}
    if count:
        count("xtext_roundtrips_compared")
    try:
        dec, used = smtp.xtext_decode(enc)
    except Exception as e:
        return "decoder-raises", {"encoded": enc, "exception": repr(e)}
    try:
        raw = dec.encode("latin-1") if isinstance(dec, str) else bytes(dec)
    except Exception as e:
        return "roundtrip-mismatch", {"encoded": enc, "decoded": repr(dec)}
    if raw != b:
        return "roundtrip-mismatch", {"encoded": enc, "decoded": raw.hex()}
    return None


def _cps(s):
    return [ord(c) for c in s]


_DIRECT = str.maketrans({"\t": "\x0b", "\n": "\x0b", "\r": "\x0b"})
_PLUSEQ = bytes.maketrans(b"+=", b"\x7f\x7f")


def check_imap(ctx, imap4, s):
    ctx.evaluated()
    ctx.count("imap_cases")
    if any(not 0x20 <= ord(c) <= 0x7E or c == "&" for c in s):
        ctx.distinct(("imap", s))
        if any(not 0x20 <= ord(c) <= 0x7E for c in s):
            ctx.count("imap_inputs_with_base64_run")
            if len(s) >= 29:
                run = longest_shifted_run(s)
                ctx.maxi("imap_longest_shifted_run", run)
                if run >= 29:
                    ctx.count("imap_runs_of_29_or_more_shifted_chars")
    v = imap_verdict(imap4, s, ctx.count)
    if v is None:
        return True
    stage, det = v
    key = "imap-utf7-" + stage
    if any(c in s for c in "\t\n\r") and imap_verdict(imap4, s.translate(_DIRECT)) is None:
        # the only thing wrong with this input is that it contains TAB/LF/CR (DESIGN 6-18)
        key = "imap-utf7-direct-chars"
        det["counterfactual"] = "same input with TAB/LF/CR replaced by U+000B passes every check"
    det.update({"kind": "imap", "input_codepoints": _cps(s), "input": s, "stage": stage,
                "expected": "printable-ASCII RFC 3501 form %r that decodes back to the input" % R.mutf7_encode(s)})
    ctx.violation(key, "imap4 modified UTF-7: " + stage, det)
    return False


def check_xtext(ctx, smtp, b):
    ctx.evaluated()
    ctx.count("xtext_cases")
    if any(not 33 <= c <= 126 or c in b"+=" for c in b):
        ctx.distinct(("xtext", b))
        ctx.count("xtext_inputs_with_hexchar")
    if len(b) > 100:
        ctx.count("xtext_inputs_over_100_bytes")
        ctx.maxi("xtext_longest_input", len(b))
    v = xtext_verdict(smtp, b, ctx.count)
    if v is None:
        return True
    stage, det = v
    key = "xtext-" + stage
    if (b"+" in b or b"=" in b) and xtext_verdict(smtp, b.translate(_PLUSEQ)) is None:
        key = "xtext-plus-equals-unescaped"
        det["counterfactual"] = "same input with '+'/'=' replaced by 0x7F passes every check"
    det.update({"kind": "xtext", "input_hex": b.hex(), "input": b, "stage": stage,
                "expected": "RFC 3461 xtext %r that decodes back to the input" % R.xtext_encode(b)})
    ctx.violation(key, "smtp xtext: " + stage, det)
    return False


def run(ctx):
    from twisted.mail import imap4, smtp

    R.selftest()
    # -- the registered codec is the same function pair
    ci = codecs.lookup("imap4-utf-7")
    if ci.encode is not imap4.encoder or ci.decode is not imap4.decoder:
        ctx.count("codec_registry_wraps_other_functions")
    # -- single code points
    top = 0x10000 if ctx.quick else 0x110000
    step = 1 if ctx.size(1000, 1000) >= 1000 else 97  # VERIF_SCALE < 1 smoke runs sample the family
    for cp in range(0, top, step):
        if 0xD800 <= cp <= 0xDFFF or not ctx.owns(cp):
            continue
        c = chr(cp)
        check_imap(ctx, imap4, "a" + c + "&" + c)
        ctx.count("imap_single_codepoints")
    # -- run-length family: one uninterrupted shifted run of every length 1..200, per class and embedding
    k = 0
    for n in range(1, 201):
        for cls in RUN_CLASSES:
            k += 1
            if not ctx.owns(k):
                continue
            rng = ctx.case_rng("run", n, cls)
            run = gen_run(rng, cls, n)
            for s in (run, "a" + run + "b", run + "&" + gen_run(rng, cls, n), "INBOX/" + run):
                check_imap(ctx, imap4, s)
                ctx.count("imap_run_length_family")
    # -- xtext of every length 1..300 and a few long ones
    for n in list(range(1, 301)) + [500, 1000, 1999, 2000]:
        if not ctx.owns(n):
            continue
        rng = ctx.case_rng("xlen", n)
        for alphabet in (b"+=", b" \x00\x7f\xff\r\n", b"+=abcDEF019", bytes(range(256))):
            check_xtext(ctx, smtp, bytes(rng.choice(alphabet) for _ in range(n)))
            ctx.count("xtext_length_family")
    # -- all 1- and 2-byte xtext inputs
    for hi in range(256):
        if not ctx.owns(hi):
            continue
        check_xtext(ctx, smtp, bytes((hi,)))
        for lo in range(256):
            check_xtext(ctx, smtp, bytes((hi, lo)))
    # -- random
    for i in ctx.cases(60000, 2400000):
        rng = ctx.case_rng(i)
        s = gen_long_text(rng) if i % 12 == 5 else gen_text(rng)
        ok = check_imap(ctx, imap4, s)
        if i % 16 == 0:  # the codec-registry path
            try:
                if ok and s.encode("imap4-utf-7").decode("imap4-utf-7") != s:
                    ctx.violation("imap-utf7-registry-roundtrip-mismatch", "str.encode('imap4-utf-7') round trip differs",
                                  {"kind": "imap", "input_codepoints": _cps(s)})
                ctx.count("imap_registry_roundtrips")
            except Exception as e:
                if ok:
                    ctx.violation("imap-utf7-registry-raises", "codec registry path raises", {"kind": "imap", "input_codepoints": _cps(s), "exception": repr(e)})
        b = gen_bytes(rng)
        check_xtext(ctx, smtp, b)
        if i < 4 * ctx.nshards:
            ctx.sample({"text": s, "imap_encoded": _safe(lambda: imap4.encoder(s)[0]), "bytes": b, "xtext_encoded": _safe(lambda: smtp.xtext_encode(b)[0])})


def _safe(f):
    try:
        return f()
    except Exception as e:
        return "raised " + repr(e)


def replay(ctx, w):
    from twisted.mail import imap4, smtp

    x = w["witness"]
    if x.get("kind") == "xtext":
        check_xtext(ctx, smtp, bytes.fromhex(x["input_hex"]))
    else:
        check_imap(ctx, imap4, "".join(chr(c) for c in x["input_codepoints"]))
