"""C57 Log publisher delivery, level-filter namespace hierarchy, limited history — three monitors.

Publisher: recording observers (some raise on some original events, some also on failure reports)
are registered / removed / re-added on a real LogPublisher between events; every delivery is
recorded with the identity of the delivered event object.  Oracle per published event k with the
model's registration list R: the original event object is delivered exactly once to each member of
R, in the order of R; the publisher call raises nothing and terminates; for every exception X raised
by observer O (on the original or on a report), every observer of R outside the "disabled chain" of
X (O, plus the observers whose failure was being reported when O raised) receives exactly one
report whose log_failure.value is X and whose "observer" is O; O itself never receives a report of
its own X; nothing else is delivered.  (Guard: observers inside the chain other than O may or may
not be told — the statement only says "the other observers".)

Filter: random setLogLevelForNamespace / clearLogLevels histories on a real
LogLevelFilterPredicate; for events with a non-empty namespace and a level the oracle is a
12-line reference (longest configured dotted prefix, else default); the same decision is observed
through a real FilteringLogObserver (exactly one of wrapped / negative observer gets the event).
The same predicate is reconfigured between rounds of events (re-setting the level of an already
configured namespace or of the default "", clearing, adding) and namespaces already looked up are
looked up again: the answer must follow the reconfiguration.
Events without level or namespace are don't-care and not generated.

History: LimitedHistoryLogObserver(n), n in {None, 0, 1, ...}: after any stream every replayTo
yields exactly the last min(n, count) event objects, in order (identity); a replay into an observer
that raises delivers a prefix of them (the exception may propagate) and leaves the buffer intact.

Re-entrancy: observers that remove themselves / remove or add another observer / publish a nested
event from inside their call: every observer registered throughout an event's dispatch gets it
exactly once, in registration order (observers removed or added during the dispatch: don't-care).
"""
LEVEL = "exploration"
ENGINE = "core"
TECHNIQUE = "runtime monitoring: delivery log with object identities vs registration-order model; reference longest-dotted-prefix lookup; last-N model"
RULE = ("random scenarios: 1-6 observers (recording / raising on a per-event pattern / raising on reports too), "
        "1-8 events with unique ids (some with log_trace), add/remove/re-add between events; filter: 0-8 "
        "configuration ops over a namespace universe with shared prefixes, empty segments and non-dotted "
        "look-alikes (a vs ab), then 1-10 events, then 0-3 further rounds of 1-3 reconfigurations (mostly changing existing "
        "entries / the default) followed by re-lookups of namespaces seen before; history: sizes None/0..8 and streams of 0..20 events with "
        "replays in between (some into a target that raises at its j-th event); re-entrant scenarios: 2-5 observers, "
        "1-3 one-shot actions (remove self / remove other / add / publish a nested event) triggered by given events.  Distinct = scenario recipe; non-trivial = publisher scenario with >=1 raising "
        "observer, filter scenario with >=1 configured namespace, history stream longer than the size.")
ASSUMPTIONS = ["trusted base: the recording observers and the three reference models of this module"]
SHARDS = {"quick": 4, "thorough": 16}
FLOORS = {"orig_deliveries": 20000, "reports_checked": 5000, "nested_reports_checked": 300, "filter_decisions": 20000,
          "filter_prefix_hits": 3000, "filter_default_hits": 3000, "filter_relookups": 10000,
          "filter_relookups_with_changed_threshold": 3000, "history_replays": 5000, "history_overflowing": 1000,
          "reentrant_publishes": 10000, "removed_during_dispatch": 2000, "added_during_dispatch": 500, "nested_emits": 2000,
          "history_raising_replays": 5000, "history_replays_aborted_by_target": 1000}
READY = True

LEVELS = ["debug", "info", "warn", "error", "critical"]


class Boom(Exception):
    pass


class TooMany(Exception):
    pass


class Obs:
    def __init__(self, idx, mode, log):
        self.idx = idx
        self.mode = mode  # {"orig": [event ids it raises on] or "all", "report": bool}
        self.log = log

    def __call__(self, event):
        log = self.log
        if len(log["deliveries"]) > 5000:
            raise TooMany()  # not an Exception the publisher should swallow forever: checked by the monitor
        log["deliveries"].append((self.idx, event))
        is_report = "log_failure" in event and "observer" in event
        if is_report:
            if self.mode["report"]:
                x = Boom("obs %d on report" % self.idx)
                log["raised"].append((x, self.idx, event))
                raise x
        else:
            o = self.mode["orig"]
            if o == "all" or event.get("id") in o:
                x = Boom("obs %d on event %r" % (self.idx, event.get("id")))
                log["raised"].append((x, self.idx, event))
                raise x


def g_publisher(rng):
    nobs = rng.randrange(1, 7)
    nev = rng.randrange(1, 9)
    obs = []
    for i in range(nobs):
        r = rng.random()
        if r < 0.45:
            orig = []
        elif r < 0.55:
            orig = "all"
        else:
            orig = sorted(rng.sample(range(nev), rng.randrange(1, nev + 1)))
        obs.append({"orig": orig, "report": rng.random() < 0.25})
    initial = [i for i in range(nobs) if rng.random() < 0.7]
    ops = []
    for k in range(nev):
        for _ in range(rng.choice([0, 0, 0, 1, 2])):
            ops.append([rng.choice(["add", "add", "remove"]), rng.randrange(nobs)])
        ops.append(["event", k, rng.random() < 0.2])
    return {"observers": obs, "initial": initial, "ops": ops}


def check_publisher(ctx, sc):
    from twisted.logger import LogPublisher

    log = {"deliveries": [], "raised": []}
    observers = [Obs(i, m, log) for i, m in enumerate(sc["observers"])]
    pub = LogPublisher(*[observers[i] for i in sc["initial"]])
    R = list(sc["initial"])
    raising = any(m["orig"] for m in sc["observers"])
    for op in sc["ops"]:
        if op[0] == "add":
            pub.addObserver(observers[op[1]])
            if op[1] not in R:
                R.append(op[1])
            continue
        if op[0] == "remove":
            pub.removeObserver(observers[op[1]])
            if op[1] in R:
                R.remove(op[1])
            continue
        event = {"id": op[1], "log_format": "event {id}"}
        if op[2]:
            event["log_trace"] = []
        del log["deliveries"][:]
        del log["raised"][:]
        wit = {"scenario": sc, "at_event": op[1], "registered_in_order": list(R)}
        try:
            pub(event)
        except BaseException as x:  # noqa
            ctx.violation("publisher-raises", "LogPublisher.__call__ let an exception escape",
                          dict(wit, observed="%s: %s" % (type(x).__name__, x)))
            return
        deliveries = list(log["deliveries"])
        raised = list(log["raised"])
        if len(deliveries) > 5000:
            ctx.violation("report-storm", "publishing one event caused more than 5000 deliveries (reports of reports do not terminate)", wit)
            return
        # (a) the original event: exactly once per registered observer, in registration order
        orig = [i for i, e in deliveries if e is event]
        ctx.count("orig_deliveries", len(orig))
        ctx.count("publishes")
        if orig != R:
            missing = [i for i in R if i not in orig]
            key = "event-not-delivered-after-raising-observer" if missing and any(x[1] in R and R.index(x[1]) < R.index(missing[0]) for x in raised) \
                else ("event-delivered-twice" if len(orig) > len(set(orig)) else "delivery-order-or-set-mismatch")
            ctx.violation(key, "original event not delivered exactly once to each observer in registration order",
                          dict(wit, expected=list(R), observed=orig))
            return
        # (c)/(d) failure reports
        chain = {}  # id(exception) -> set of observer idx disabled while it is reported
        for x, who, ev in raised:
            if ev is event:
                chain[id(x)] = {who}
            else:
                inner = ev["log_failure"].value
                chain[id(x)] = {who} | chain.get(id(inner), set())
        accounted = len(orig)
        for x, who, ev in raised:
            got = {}
            for i, e in deliveries:
                if e is not event and "log_failure" in e and getattr(e["log_failure"], "value", None) is x:
                    got[i] = got.get(i, 0) + 1
                    if e.get("observer") is not observers[who]:
                        ctx.violation("report-names-wrong-observer", "failure report's 'observer' is not the observer that raised",
                                      dict(wit, raiser=who, report_observer=repr(e.get("observer"))))
            accounted += sum(got.values())
            nested = ev is not event
            ctx.count("nested_reports_checked" if nested else "reports_checked", len(got))
            for i in R:
                n = got.get(i, 0)
                if i == who:
                    ok = n == 0
                elif i in chain[id(x)]:
                    ok = n <= 1
                else:
                    ok = n == 1
                if not ok:
                    ctx.violation("failure-report-missing" if n == 0 else "failure-report-duplicated-or-to-raiser",
                                  "an observer's failure was not reported exactly once to each other observer",
                                  dict(wit, raiser=who, nested=nested, receiver=i, reports_received=n, disabled_chain=sorted(chain[id(x)])))
                    return
            extra = [i for i in got if i not in R]
            if extra:
                ctx.violation("report-to-unregistered-observer", "a failure report reached an observer that is not registered", dict(wit, receivers=extra))
                return
        if accounted != len(deliveries):
            ctx.violation("spurious-delivery", "deliveries that are neither the original event nor a report of a raised exception",
                          dict(wit, deliveries=len(deliveries), accounted=accounted))
            return
        if op[2]:
            # log_trace: one (publisher, observer) entry per original delivery, in order (documented tracing aid)
            tr = [o.idx for p, o in event["log_trace"] if p is pub]
            if tr != R:
                ctx.violation("trace-mismatch", "log_trace does not list the observers in delivery order", dict(wit, expected=list(R), observed=tr))
    if raising:
        ctx.distinct(("pub", sc))


# ------------------------------------------------------------------------------------------------
SEGS = ["a", "b", "c", "ab", "a_b", "x"]
ODD = ["a..b", ".a", "a.", "a.b.", "..", "a.b..c"]


def g_ns(rng):
    if rng.random() < 0.08:
        return rng.choice(ODD)
    return ".".join(rng.choice(SEGS[:4] if rng.random() < 0.8 else SEGS) for _ in range(rng.choice([1, 1, 2, 2, 3, 4])))


def g_filter(rng):
    ops = []
    for _ in range(rng.randrange(0, 9)):
        r = rng.random()
        if r < 0.08:
            ops.append(["clear"])
        elif r < 0.2:
            ops.append(["set", "", rng.choice(LEVELS)])
        else:
            ops.append(["set", g_ns(rng), rng.choice(LEVELS)])
    events = []
    for _ in range(rng.randrange(1, 11)):
        if ops and rng.random() < 0.6:
            base = rng.choice(ops)
            ns = base[1] if base[0] == "set" and base[1] else g_ns(rng)
            r = rng.random()
            if r < 0.4:
                ns = ns + "." + rng.choice(SEGS)
            elif r < 0.55:
                ns = ns + rng.choice(["b", "_x", "0"])  # non-dotted look-alike: must NOT inherit
            elif r < 0.65 and "." in ns:
                ns = ns.rsplit(".", 1)[0]
        else:
            ns = g_ns(rng)
        if not ns:  # events without a namespace are don't-care for the statement (documented: dropped)
            ns = g_ns(rng)
        events.append([ns, rng.choice(LEVELS)])
    # further rounds on the SAME predicate: reconfigure (mostly re-setting the level of an already configured
    # namespace or of the default ""), then look up namespaces that were already looked up before
    more = []
    known_ns = [o[1] for o in ops if o[0] == "set"]
    for _ in range(rng.choice([0, 1, 1, 2, 3])):
        ops2 = []
        for _ in range(rng.randrange(1, 4)):
            r = rng.random()
            if r < 0.5 and known_ns:
                ops2.append(["set", rng.choice(known_ns), rng.choice(LEVELS)])     # change an existing entry
            elif r < 0.7:
                ops2.append(["set", "", rng.choice(LEVELS)])
            elif r < 0.77:
                ops2.append(["clear"])
            else:
                ns = g_ns(rng)
                known_ns.append(ns)
                ops2.append(["set", ns, rng.choice(LEVELS)])
        ev2 = []
        for _ in range(rng.randrange(1, 7)):
            if rng.random() < 0.75:
                ev2.append([rng.choice(events)[0], rng.choice(LEVELS)])             # a namespace seen before
            else:
                ns = (rng.choice(known_ns) + "." + rng.choice(SEGS)) if known_ns and rng.random() < 0.6 else g_ns(rng)
                ev2.append([ns, rng.choice(LEVELS)])
        events = events + ev2
        more.append([ops2, ev2])
    first = events[:len(events) - sum(len(m[1]) for m in more)]
    return {"default": rng.choice(LEVELS), "ops": ops, "events": first, "more": more}


def ref_level(config, default, ns):
    segs = ns.split(".")
    for k in range(len(segs), 0, -1):
        cand = ".".join(segs[:k])
        if cand and cand in config:
            return config[cand], "exact" if k == len(segs) else "prefix"
    return default, "default"


def check_filter(ctx, sc):
    from twisted.logger import FilteringLogObserver, LogLevel, LogLevelFilterPredicate, PredicateResult

    rounds = [(sc["ops"], sc["events"])] + [tuple(m) for m in sc.get("more", [])]
    timeline = [(rnd, ns, lv) for rnd, (ops, events) in enumerate(rounds) for ns, lv in events]
    pred = LogLevelFilterPredicate(defaultLogLevel=LogLevel.lookupByName(sc["default"]))
    config, default = {}, sc["default"]
    yes, no = [], []
    flt = FilteringLogObserver(yes.append, [pred], no.append)
    looked_up = {}   # namespace -> threshold the reference gave at its last lookup
    applied = -1
    for rnd, ns, lv in timeline:
        while applied < rnd:   # (re)configure the same predicate before this round's events
            applied += 1
            for op in rounds[applied][0]:
                if op[0] == "clear":
                    pred.clearLogLevels()
                    config, default = {}, sc["default"]
                else:
                    pred.setLogLevelForNamespace(op[1], LogLevel.lookupByName(op[2]))
                    if op[1]:
                        config[op[1]] = op[2]
                    else:
                        default = op[2]
        want_level, how = ref_level(config, default, ns)
        if ns in looked_up:
            ctx.count("filter_relookups")
            if looked_up[ns] != want_level:
                ctx.count("filter_relookups_with_changed_threshold")   # the answer must follow the reconfiguration
        looked_up[ns] = want_level
        want = LEVELS.index(lv) >= LEVELS.index(want_level)
        ev = {"log_namespace": ns, "log_level": LogLevel.lookupByName(lv), "log_format": "x"}
        wit = {"scenario": sc, "round": rnd, "namespace": ns, "level": lv, "configured": dict(config), "default": default,
               "expected_threshold": want_level, "matched_by": how, "expected_pass": want}
        got_level = pred.logLevelForNamespace(ns)
        ctx.count("filter_decisions")
        ctx.count("filter_%s_hits" % how)
        if got_level.name != want_level:
            ctx.violation("namespace-level-lookup-" + how, "logLevelForNamespace differs from the longest-configured-dotted-prefix reference",
                          dict(wit, observed_threshold=got_level.name))
            continue
        res = pred(ev)
        if (res is PredicateResult.maybe) != want or res not in (PredicateResult.maybe, PredicateResult.no):
            ctx.violation("filter-decision-mismatch", "predicate result differs from level >= threshold", dict(wit, observed=repr(res)))
            continue
        del yes[:], no[:]
        flt(ev)
        if (len(yes), len(no)) != ((1, 0) if want else (0, 1)) or (yes + no)[0] is not ev:
            ctx.violation("filtering-observer-forwarding", "FilteringLogObserver did not forward the event to exactly the right observer",
                          dict(wit, wrapped_got=len(yes), negative_got=len(no)))
    if config:
        ctx.distinct(("flt", sc))


# ------------------------------------------------------------------------------------------------
def g_history(rng):
    size = rng.choice([None, 0, 1, 1, 2, 3, 5, 8])
    ops = []
    for _ in range(rng.randrange(0, 21)):
        r = rng.random()
        ops.append("replay" if r < 0.15 else ("replay-raise@%d" % rng.randrange(0, 6) if r < 0.25 else "event"))
    ops.append("replay")
    return {"size": size, "ops": ops}


def check_history(ctx, sc):
    from twisted.logger import LimitedHistoryLogObserver

    h = LimitedHistoryLogObserver(sc["size"])
    sent = []
    for op in sc["ops"]:
        if op == "event":
            e = {"id": len(sent)}
            sent.append(e)
            h(e)
            continue
        n = len(sent) if sc["size"] is None else min(sc["size"], len(sent))
        want = sent[len(sent) - n:] if n else []
        if op.startswith("replay-raise@"):
            # the target observer raises at its j-th event: the exception may propagate (the statement does
            # not ask replayTo to swallow it) but what was delivered is then a prefix of the last n events,
            # in order, and the buffer is intact (checked by the following plain replays)
            j = int(op.split("@")[1])
            out = []

            def target(e, out=out, j=j):
                out.append(e)
                if len(out) == j + 1:
                    raise Boom("replay target")

            raised = False
            try:
                h.replayTo(target)
            except Boom:
                raised = True
            ctx.count("history_raising_replays")
            if raised:
                ctx.count("history_replays_aborted_by_target")
            okay = len(out) <= len(want) and all(a is b for a, b in zip(out, want)) and (len(out) == len(want) or (raised and len(out) == j + 1))
            if not okay:
                ctx.violation("history-replay-into-raising-observer", "replay into a raising observer delivered something that is not a prefix of (or all of) the last n events",
                              {"scenario": sc, "raises_at": j, "exception_propagated": raised, "expected_ids": [e["id"] for e in want], "observed_ids": [e.get("id") for e in out]})
                return
            continue
        out = []
        h.replayTo(out.append)
        ctx.count("history_replays")
        if sc["size"] is not None and len(sent) > sc["size"]:
            ctx.count("history_overflowing")
        if len(out) != len(want) or any(a is not b for a, b in zip(out, want)):
            ctx.violation("history-not-last-n", "replayTo did not yield exactly the last min(n, count) events in order",
                          {"scenario": sc, "events_sent": len(sent), "expected_ids": [e["id"] for e in want], "observed_ids": [e.get("id") for e in out]})
            return
    if sc["size"] is not None and len(sent) > sc["size"]:
        ctx.distinct(("hist", sc))


# ------------------------------------------------------------------------------------------------
# re-entrancy: observers that remove / add observers or publish another event from inside their call

def g_reentrant(rng):
    nobs = rng.randrange(2, 6)
    nev = rng.randrange(1, 5)
    kind = rng.choice(["mutate", "mutate", "emit"])
    acts = []   # [observer, on event id, what, arg]
    for _ in range(rng.randrange(1, 4)):
        o = rng.randrange(nobs)
        k = rng.randrange(nev)
        if kind == "emit":
            acts.append([o, k, "emit", 100 + 10 * k + o])
        else:
            what = rng.choice(["remove-self", "remove-self", "remove", "add"])
            acts.append([o, k, what, o if what == "remove-self" else rng.randrange(nobs)])
    initial = [i for i in range(nobs) if rng.random() < 0.8] or [0]
    return {"n": nobs, "events": nev, "kind": kind, "actions": acts, "initial": initial}


def check_reentrant(ctx, sc):
    """Oracle: an observer that is registered during the WHOLE dispatch of an event (registered before,
    not removed while it is dispatched) receives that event exactly once, and these observers are
    served in registration order.  Guards: an observer removed or added while the event is being
    dispatched is don't-care for that event.  A nested event published by an observer is an
    event like any other (checked the same way); interleaving of outer and nested deliveries is free."""
    from twisted.logger import LogPublisher

    state = {"R": list(sc["initial"]), "log": [], "removed": set(), "added": set(), "fired": set()}
    observers = []
    pub = LogPublisher()

    def make(i):
        def obs(event):
            state["log"].append((i, event))
            if len(state["log"]) > 2000:
                raise Boom("storm")
            for n, (o, k, what, arg) in enumerate(sc["actions"]):
                if o != i or event.get("id") != k or n in state["fired"]:
                    continue
                state["fired"].add(n)
                if what == "emit":
                    ctx.count("nested_emits")
                    nested = {"id": arg, "log_format": "nested"}
                    state["nested"].append((nested, list(state["R"])))
                    pub(nested)
                elif what in ("remove", "remove-self"):
                    pub.removeObserver(observers[arg])
                    if arg in state["R"]:
                        state["R"].remove(arg)
                        state["removed"].add(arg)
                        ctx.count("removed_during_dispatch")
                else:
                    pub.addObserver(observers[arg])
                    if arg not in state["R"]:
                        state["R"].append(arg)
                        state["added"].add(arg)
                        ctx.count("added_during_dispatch")
        obs.idx = i
        return obs

    observers.extend(make(i) for i in range(sc["n"]))
    for i in sc["initial"]:
        pub.addObserver(observers[i])
    for k in range(sc["events"]):
        before = list(state["R"])
        state.update(log=[], removed=set(), added=set(), nested=[])
        event = {"id": k, "log_format": "outer"}
        wit = {"scenario": sc, "at_event": k, "registered_before": before}
        try:
            pub(event)
        except BaseException as x:  # noqa
            ctx.violation("publisher-raises", "LogPublisher.__call__ let an exception escape (re-entrant scenario)", dict(wit, observed=repr(x)[:200]))
            return
        ctx.count("reentrant_publishes")
        for ev, reg in [(event, before)] + state["nested"]:
            got = [i for i, e in state["log"] if e is ev]
            outer = ev is event
            unstable = (state["removed"] | state["added"]) if outer else set()
            stable = [i for i in reg if i not in unstable]
            got_stable = [i for i in got if i in stable]
            w2 = dict(wit, event_id=ev["id"], nested=not outer, registered_throughout=stable, delivered_to=got,
                      removed_during_dispatch=sorted(state["removed"]), added_during_dispatch=sorted(state["added"]))
            if got_stable != stable:
                missing = [i for i in stable if i not in got]
                # causal signature: something registered EARLIER than the missed observer was removed during this
                # dispatch (the list shifted under the publisher's iteration); the rest was served once, in order
                shifted = [m for m in missing if any(r in before and before.index(r) < before.index(m) for r in state["removed"])]
                if outer and missing and shifted == missing and got_stable == [i for i in stable if i not in missing]:
                    ctx.violation("publisher-remove-during-dispatch-skips-observer",
                                  "an observer removed an observer while an event was being dispatched; another observer, registered throughout, did not get the event",
                                  dict(w2, missing=missing))
                else:
                    ctx.violation("reentrant-delivery-mismatch", "event not delivered exactly once, in registration order, to the observers registered throughout its dispatch", w2)
                return
            if any(i not in reg and i not in unstable for i in got):
                ctx.violation("reentrant-delivery-mismatch", "event delivered to an observer that was never registered", w2)
                return
    ctx.distinct(("re", sc))


def check_default_history(ctx):
    from twisted.logger import LimitedHistoryLogObserver

    h = LimitedHistoryLogObserver()
    sent = [{"id": i} for i in range(65536 + 5)]
    for e in sent:
        h(e)
    out = []
    h.replayTo(out.append)
    ctx.count("history_replays")
    if len(out) != 65536 or out[0] is not sent[5] or out[-1] is not sent[-1]:
        ctx.violation("history-default-size", "default LimitedHistoryLogObserver does not keep the last 65536 events",
                      {"kept": len(out), "first_id": out[0]["id"] if out else None})


def run(ctx):
    for i in ctx.cases(20000, 2000000):
        rng = ctx.case_rng(i)
        p, f, h = g_publisher(rng), g_filter(rng), g_history(rng)
        if sum(v["count"] for k, v in ctx.violations.items() if k in ("publisher-raises", "report-storm")) < 25:
            check_publisher(ctx, p)  # (a publisher that recurses without end is slow: stop after 25 witnesses)
        check_filter(ctx, f)
        check_history(ctx, h)
        r = g_reentrant(ctx.case_rng("re", i))
        check_reentrant(ctx, r)
        ctx.evaluated(4)
        if i < 2:
            ctx.sample({"case": i, "publisher": p, "filter": f, "history": h})
    if ctx.shard == 0:
        check_default_history(ctx)


def replay(ctx, w):
    sc = w["witness"].get("scenario")
    if sc is None:
        return check_default_history(ctx)
    if "actions" in sc:
        check_reentrant(ctx, sc)
    elif "observers" in sc:
        check_publisher(ctx, sc)
    elif "events" in sc:
        check_filter(ctx, sc)
    else:
        check_history(ctx, sc)
