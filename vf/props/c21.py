"""C21 HTTP server handles pipelined requests one at a time and notifies finish exactly once.

Monitored object: the real HTTPChannel/Request (C18's `Server` harness on a SimTransport).  The
harness is the application: `process()` logs its entry, obtains `notifyFinish()` Deferreds (at
process time and at later scheduler steps while the request is in progress) and answers per plan:
immediately, after k scheduler steps (optionally with a partial write first), or never.  A
schedule is a list of operations — deliver a segment, scheduler step, transport "buffer full"
(pauseProducing) / "drained" (resumeProducing), extra notifyFinish — and the connection is lost
once per run: one run for **every** operation boundary of the schedule, the last one being "after
everything" (so every run ends with the connection gone and all notifications decided).

Events: process(k) entry, finish(k) call/return/raise, every firing of every notifyFinish Deferred
(value or failure type), connection lost, bytes accepted by the transport.

Oracle:
  * one at a time: when process(k) is entered every earlier request's finish() has been called and
    returned normally; nothing is handed to the application after the connection is lost;
  * wire: the bytes written parse (refhttp reader) into complete responses for exactly the
    finished requests, ids 0,1,2,... in order, each body byte-identical to what was written for
    that id (bodies are tagged with the id), followed at most by a partial response carrying only
    the id of the one request in progress;
  * notifyFinish: every Deferred obtained while its request was in progress fires exactly once —
    with None, not before finish() was called, if the response finished before the connection was
    lost; with a Failure, not before the loss, otherwise;
  * bounded progress (runs without an injected loss): once every transport pause has been matched by a resume
    and the scheduler has run, every request the client completely sent has been handed over and answered,
    unless an earlier request never finishes by plan, closes the connection, or is non-persistent;
  * no exception reaches the application or the transport except the documented
    `RuntimeError` of `finish()` after the connection was lost.

Depth extensions (all inside the statement's "any request sequence, response timing, transport
pause/resume and connection-loss point"): responses 204/304/HEAD and `Expect: 100-continue` requests on
keep-alive connections; a response finished re-entrantly from inside the previous request's notifyFinish
callback; the application calling request.loseConnection() (server-initiated loss) from process() or
later; notifyFinish Deferreds whose own chain raises, is paused, or returns an unfired Deferred; responses
written by a push producer driven by scheduler steps and transport resumeProducing, finishing from inside
resumeProducing or from inside stopProducing (which a TCP transport calls, after marking itself
disconnected, just before connectionLost).  An application that raises (Exception or BaseException-only
class) inside process() is generated too, but the statement is silent about it: such runs are counted and
left unjudged after the raise.

A notifyFinish callback of every odd request asks for one more notifyFinish Deferred while the notifications
are being delivered (finish path and connection-lost path): it is judged like the others.
Guards: otherwise notifyFinish() is never called on a request that already finished or whose connection is
gone (such a Deferred never fires; outside the statement); requests are syntactically valid
(parsing is C18/C19's business); after the server itself calls loseConnection() the harness
delivers nothing more and completes the close at the next step, like TCP — except in 30 % of the
schedules, which run on a transport that calls connectionLost re-entrantly from inside the server's
loseConnection() (StringTransportWithDisconnection / FileDescriptor with a closed write side do that);
the oracle is the same: the response had finished first, so its notifications fire with None.
"""
from vf.engines import netsim, refhttp
from vf.engines.logcap import LogCapture
from vf.props import c18

LEVEL = "exploration"
ENGINE = "E2-netsim"
TECHNIQUE = "runtime monitoring: event-order oracle over process/finish/notifyFinish/wire bytes with connection loss injected at every schedule boundary"
RULE = ("random schedules: 1-6 pipelined requests (GET/HEAD/POST with Content-Length or chunked body, optional Connection: close / "
        "HTTP/1.0, optionally one stray blank line before a request / between two pipelined requests) cut into random segments, interleaved with scheduler steps, transport pause/resume and extra notifyFinish "
        "calls, plus two fixed pipelines paused by the transport after every byte offset (and again 7 bytes later), plus pipelines with "
        "more than 16 KiB buffered behind an unfinished request (the channel's own read-ahead pause) x transport pause/resume at every "
        "pair of positions relative to deliveries and response completions; per request the application finishes at once / after k steps (maybe after a partial write) / never and takes "
        "0-3 notifyFinish Deferreds; for each schedule one run per operation boundary with the connection lost there.  A case is "
        "distinct by (schedule, plans, loss point); non-trivial = at least one request was handed to the application.")
ASSUMPTIONS = ["trusted base: netsim.SimTransport (write after loss is dropped; pause/resume of the registered streaming producer) and "
               "the harness scheduler; connection loss is delivered between operations, as a reactor would",
               "refhttp.read_responses decides which responses are complete on the wire"]
SHARDS = {"quick": 4, "thorough": 16}
FLOORS = {"runs": 5000, "notify_taken_during_delivery": 500, "process_events": 5000, "notify_fired_ok": 2000, "notify_fired_fail": 2000, "loss_while_in_progress": 1000,
          "responses_on_wire_checked": 3000, "pipelined_handover_inside_finish": 300, "pause_ops": 500, "finish_after_loss_raised": 100,
          "process_after_stray_blank_line": 500, "losses_inside_loseconnection": 100, "finish_from_notify_callback": 100,
          "app_loseconnection_calls": 200, "producer_requests": 1000, "producer_stop_calls": 300, "finish_inside_stopproducing": 100,
          "finish_inside_resumeproducing": 50, "producer_resumed_by_transport": 100, "notify_kind_raises": 500, "notify_kind_paused": 500,
          "notify_kind_chained": 500, "bodiless_responses_on_wire_checked": 500, "expect_100_requests_processed": 300,
          "runs_unjudged_after_app_exception": 100, "progress_runs_judged": 1000, "progress_requests_answered": 2000,
          "pauses_while_request_partially_received": 1000, "pauses_between_requests": 300, "pause_at_every_offset_runs": 1000,
          "read_ahead_family_runs": 500, "read_ahead_pauses": 300, "read_ahead_and_transport_pause_overlaps": 100}
READY = True


class AppError(Exception):
    """Raised on purpose by the harness application inside process()."""


class AppAbort(BaseException):
    """Same, but not an Exception subclass."""


class Plan:
    def __init__(self, rng):
        self.mode = rng.choice(["now", "now", "later", "later", "later", "never", "producer", "producer"])
        self.delay = rng.randint(1, 4)
        self.partial = self.mode == "later" and rng.random() < 0.4
        self.n_notify_at_process = rng.choice([0, 1, 1, 2])
        self.use_cl = rng.random() < 0.4
        self.pieces = rng.randint(1, 3) if self.mode == "producer" else rng.randint(0, 3)
        self.finish_even_if_lost = rng.random() < 0.5
        self.code = rng.choice([200, 200, 200, 200, 204, 304, 404])
        self.trigger = "prev_notify" if self.mode == "later" and rng.random() < 0.35 else "steps"
        r = rng.random()
        self.app_lose = None if self.mode == "producer" or r > 0.08 else ("process" if r < 0.04 else "step")
        r = rng.random()
        self.raises = None if r > 0.03 else ("exc" if r < 0.015 else "base")
        self.notify_kinds = [rng.choice(["plain", "plain", "raises", "paused", "chained"]) for _ in range(3)]
        self.finish_in_stop = rng.random() < 0.5

    def as_dict(self):
        return dict(self.__dict__)


class PushProducer:
    """Streaming producer the application registers on its request; writes one piece per scheduler step and
    per resumeProducing(), then unregisters and finishes (re-entrantly from wherever it was driven)."""

    def __init__(self, world, app):
        self.world, self.app = world, app
        self.paused = False
        self.stopped = False

    def produce(self, where):
        w, app = self.world, self.app
        if self.stopped or app["finish_called"]:
            return
        if app["pieces_left"]:
            try:
                w.write_headers_once(app)
                w.write(app, app["pieces_left"].pop(0))
                w.log.append(("producer-wrote", app["k"], where))
            except Exception as e:
                w.bad("exception-to-application", "write() from a producer raised", k=app["k"], error=repr(e))
        if not app["pieces_left"]:
            w.do_finish(app, where)

    def resumeProducing(self):
        self.paused = False
        self.world.ctx.count("producer_resumed_by_transport")
        self.produce("resumeProducing")

    def pauseProducing(self):
        self.paused = True

    def stopProducing(self):
        self.world.ctx.count("producer_stop_calls")
        self.world.log.append(("producer-stop", self.app["k"]))
        if self.app["plan"].finish_in_stop and not self.app["finish_called"]:
            self.world.do_finish(self.app, "stopProducing")
        self.stopped = True


def _default_plan():
    import random

    p = Plan(random.Random(0))
    p.mode, p.n_notify_at_process, p.app_lose, p.raises, p.trigger, p.partial = "now", 1, None, None, "steps", False
    return p


def body_pieces(k, plan):
    return [(b"[%d]" % k) * (3 + i) for i in range(plan.pieces)]


def gen_schedule(rng):
    """-> (requests description, ops, plans)"""
    n = rng.randint(1, 6)
    reqs = []
    stream = b""
    for k in range(n):
        method = rng.choice([b"GET", b"GET", b"POST", b"POST", b"HEAD"])
        version = b"HTTP/1.1"
        lines = [b"Host: h"]
        payload = b""
        closing = rng.random() < 0.15
        if closing and rng.random() < 0.4:
            version = b"HTTP/1.0"
        elif closing:
            lines.append(b"Connection: close")
        if method == b"POST":
            body = b"body-of-%d;" % k * rng.randint(0, 4)
            if version == b"HTTP/1.1" and rng.random() < 0.25:
                lines.append(b"Expect: 100-continue")  # interim response, then a body that may be empty
            if version == b"HTTP/1.1" and rng.random() < 0.5:
                lines.append(b"Transfer-Encoding: chunked")
                payload = refhttp.encode_chunked(rng, body, trailers=False)
            else:
                lines.append(b"Content-Length: %d" % len(body))
                payload = body
        raw = method + b" /r%d " % k + version + b"\r\n" + b"\r\n".join(lines) + b"\r\n\r\n" + payload
        # the one extra blank line some clients send after a request (twisted tolerates exactly one
        # before each request line; RFC 9112 2.2): before the first request, after bodies and after
        # body-less requests, i.e. also between two pipelined requests
        stray = b""
        r = rng.random()
        if (k == 0 and r < 0.06) or (k > 0 and r < 0.25):
            stray = b"\r\n"
        reqs.append({"method": method, "closing": closing, "bytes": raw, "stray_crlf_before": bool(stray)})
        stream += stray + raw
    pieces = netsim.random_split(rng, stream, max_piece=80) if rng.random() < 0.8 else [stream]
    if len(pieces) > 14:  # keep schedules short enough to try every boundary
        step = len(pieces) // 14 + 1
        pieces = [b"".join(pieces[i:i + step]) for i in range(0, len(pieces), step)]
    ops = []
    for p in pieces:
        ops.append(("data", p))
        for _ in range(rng.choice([0, 0, 1, 1, 2])):
            ops.append(rng.choice([("step",), ("step",), ("step",), ("pause",), ("resume",), ("notify",)]))
    for _ in range(rng.randint(1, 6)):
        ops.append(rng.choice([("step",), ("step",), ("resume",), ("notify",)]))
    plans = [Plan(rng) for _ in range(n)]
    return reqs, ops, plans


class World:
    """One run: a schedule, plans and a loss point."""

    def __init__(self, ctx, reqs, ops, plans, loss_at, sync_close=False):
        self.ctx, self.reqs, self.ops, self.plans, self.loss_at = ctx, reqs, ops, plans, loss_at
        self.sync_close = sync_close
        self.log = []
        self.apps = []  # per processed request
        self.problems = []
        self.lost = False  # protocol.connectionLost delivered
        self.losing = False
        self.unjudged = None  # set when the application raised on purpose (statement silent)
        self.paused_deferreds = []
        self.read_ahead_paused = False
        self.server = c18.Server("channel", responder=self.on_process, defer=False, sync_close=sync_close)
        if sync_close:  # the server's own loseConnection() reports the loss re-entrantly, through our bookkeeping
            self.server.transport.on_sync_close = self._sync_close

    def _sync_close(self):
        self.ctx.count("losses_inside_loseconnection")
        self.lose(clean=True)

    def bad(self, key, what, **detail):
        if self.unjudged is None:
            self.problems.append((key, what, detail))

    # ---- application
    def on_process(self, server, request, rec):
        try:
            k = int(rec["uri"][2:])
        except ValueError:
            k = -1
        plan = self.plans[k] if 0 <= k < len(self.plans) else _default_plan()
        app = {"k": k, "request": request, "plan": plan, "deferreds": [], "finish_called": False, "finished": False, "finish_raised": None,
               "countdown": plan.delay, "wrote_headers": False, "wrote_partial": False, "written": b"", "head": rec["method"] == b"HEAD",
               "pieces_left": body_pieces(k, plan), "offline": False, "producer": None, "lose_called": False}
        inside = [a["k"] for a in self.apps if a["finish_called"] and not a["finished"] and a["finish_raised"] is None]
        self.log.append(("process", k, {"inside_finish_of": inside}))
        self.ctx.count("process_events")
        if 0 <= k < len(self.reqs) and self.reqs[k].get("stray_crlf_before"):
            self.ctx.count("process_after_stray_blank_line")
        if b"Expect: 100-continue" in (self.reqs[k]["bytes"] if 0 <= k < len(self.reqs) else b""):
            self.ctx.count("expect_100_requests_processed")
        if inside:
            self.ctx.count("pipelined_handover_inside_finish")
        if self.lost:
            self.bad("process-after-connection-lost", "a request was handed to the application after connectionLost", k=k)
        if k != len(self.apps):
            self.bad("requests-out-of-order", "process() saw request %d as number %d" % (k, len(self.apps)), k=k)
        for a in self.apps:
            if not a["finish_called"] or a["finish_raised"] is not None:
                self.bad("request-handed-before-previous-finished", "process(%d) entered while request %d had not finished" % (k, a["k"]), k=k, unfinished=a["k"])
                break
        self.apps.append(app)
        for _ in range(plan.n_notify_at_process):
            self.take_notify(app)
        if plan.raises and self.unjudged is None:
            self.unjudged = "application raised %s in process(%d)" % (plan.raises, k)
            self.log.append(("app-raises", k, plan.raises))
            raise (AppError if plan.raises == "exc" else AppAbort)("injected by the harness application")
        if plan.app_lose == "process":
            self.app_lose(app)
        if plan.mode == "producer":
            app["producer"] = PushProducer(self, app)
            self.ctx.count("producer_requests")
            try:
                request.registerProducer(app["producer"], True)
            except Exception as e:
                self.bad("exception-to-application", "registerProducer() raised", k=k, error="%s: %s" % (type(e).__name__, e))
                app["producer"] = None
                app["plan"] = _default_plan()
                self.do_finish(app, "process")
        elif plan.mode == "now":
            self.do_finish(app, "process")

    def app_lose(self, app):
        if app["lose_called"] or self.lost:
            return
        app["lose_called"] = True
        self.ctx.count("app_loseconnection_calls")
        self.log.append(("app-loseConnection", app["k"]))
        try:
            app["request"].loseConnection()
        except Exception as e:
            self.bad("exception-to-application", "request.loseConnection() raised", k=app["k"], error="%s: %s" % (type(e).__name__, e))

    def take_notify(self, app):
        from twisted.internet import defer

        j = len(app["deferreds"])
        kind = app["plan"].notify_kinds[j % 3]
        rec = {"fired": [], "taken_at": len(self.log), "kind": kind}
        app["deferreds"].append(rec)
        try:
            d = app["request"].notifyFinish()
        except Exception as e:
            self.bad("exception-to-application", "notifyFinish() raised", error="%s: %s" % (type(e).__name__, e))
            return
        self.log.append(("notify-taken", app["k"], j, kind))
        self.ctx.count("notify_kind_" + kind)

        def ok(v, app=app, j=j, rec=rec):
            rec["fired"].append(("ok", repr(v), len(self.log)))
            self.log.append(("notify-fired", app["k"], j, "ok", repr(v)))
            self.ctx.count("notify_fired_ok")
            self.renotify(app, j, kind)
            self.on_notify_fired(app)

        def fail(f, app=app, j=j, rec=rec):
            rec["fired"].append(("fail", f.type.__name__, len(self.log)))
            self.log.append(("notify-fired", app["k"], j, "fail", f.type.__name__))
            self.ctx.count("notify_fired_fail")
            self.renotify(app, j, kind)
            self.on_notify_fired(app)

        d.addCallbacks(ok, fail)
        # what the application does with its Deferred must not matter to the others
        if kind == "raises":
            d.addCallback(lambda _: 1 // 0)
            d.addErrback(lambda f: None)
        elif kind == "chained":
            d.addCallback(lambda _: defer.Deferred())
        elif kind == "paused":
            d.pause()
            self.paused_deferreds.append(d)

    def renotify(self, app, j, kind):
        """A notifyFinish callback that asks for another notifyFinish Deferred of the same request while
        the notifications are being delivered (odd requests, from their first Deferred, once; never from
        a paused Deferred, whose callbacks run only when the harness unpauses it, long after delivery):
        that Deferred, too, must fire exactly once, with the same outcome."""
        if j == 0 and kind != "paused" and app["k"] % 2 == 1 and not app.get("renotified"):
            app["renotified"] = True
            self.ctx.count("notify_taken_during_delivery")
            self.take_notify(app)

    def on_notify_fired(self, app):
        """Response timing: the next request's answer may be triggered by this notification (re-entrantly)."""
        k = app["k"]
        for nxt in self.apps:
            if nxt["k"] == k + 1 and nxt["plan"].mode == "later" and nxt["plan"].trigger == "prev_notify" and not nxt["finish_called"]:
                if self.lost and not nxt["plan"].finish_even_if_lost:
                    return
                self.ctx.count("finish_from_notify_callback")
                self.do_finish(nxt, "notify-callback")

    def write_headers_once(self, app):
        if not app["wrote_headers"]:
            app["wrote_headers"] = True
            request, plan = app["request"], app["plan"]
            request.setResponseCode(plan.code)
            request.setHeader(b"X-Id", b"%d" % app["k"])
            if plan.use_cl:
                request.setHeader(b"Content-Length", b"%d" % sum(len(p) for p in body_pieces(app["k"], plan)))

    def write(self, app, data):
        accepted = not self.server.transport.disconnected
        app["request"].write(data)
        if accepted and not app["head"] and app["plan"].code not in (204, 304):
            app["written"] += data

    def do_finish(self, app, where="step"):
        if app["finish_called"]:
            return
        k, request = app["k"], app["request"]
        try:
            self.write_headers_once(app)
            while app["pieces_left"]:
                self.write(app, app["pieces_left"].pop(0))
            if app["producer"] is not None and not self.lost:
                # (after connectionLost the application must not touch the producer API any more:
                # request.unregisterProducer() then fails on the cleared channel; outside the statement)
                request.unregisterProducer()
            app["finish_called"] = True
            app["offline"] = bool(self.server.transport.disconnected)
            self.log.append(("finish-call", k, where))
            if where == "stopProducing":
                self.ctx.count("finish_inside_stopproducing")
            elif where == "resumeProducing":
                self.ctx.count("finish_inside_resumeproducing")
            request.finish()
            app["finished"] = True
            self.log.append(("finish-return", k))
        except BaseException as e:
            if isinstance(e, (AppError, AppAbort)):
                app["finished"] = True  # finish(k) itself completed; the next request's process() raised beneath it
                self.log.append(("finish-propagated-app-exception", k))
                return
            if not isinstance(e, Exception):
                raise
            app["finish_raised"] = repr(e)
            self.log.append(("finish-raised", k, repr(e)[:80]))
            if isinstance(e, RuntimeError) and self.lost and "connection was lost" in str(e):
                self.ctx.count("finish_after_loss_raised")  # the documented contract
            else:
                self.bad("exception-to-application", "finish()/write() raised %s while the connection was up" % type(e).__name__, k=k, error=repr(e), where=where)

    def step(self):
        for app in list(self.apps):
            plan = app["plan"]
            if app["finish_called"]:
                continue
            if plan.app_lose == "step" and not app["lose_called"] and not self.lost:
                self.app_lose(app)
            if self.lost and not plan.finish_even_if_lost:
                continue
            if plan.mode == "producer" and app["producer"] is not None:
                if not app["producer"].paused and not app["producer"].stopped:
                    app["producer"].produce("step")
                elif self.lost and app["producer"].stopped:
                    self.do_finish(app, "step")  # after the loss: must raise the documented RuntimeError
                continue
            if plan.mode != "later":
                continue
            app["countdown"] -= 1
            if plan.partial and not app["wrote_partial"] and app["countdown"] >= 1:
                try:
                    self.write_headers_once(app)
                    self.write(app, app["pieces_left"].pop(0) if app["pieces_left"] else b"")
                    app["wrote_partial"] = True
                    self.log.append(("partial-write", app["k"]))
                except Exception as e:
                    self.bad("exception-to-application", "write() raised", k=app["k"], error=repr(e))
            if app["countdown"] <= 0:
                self.do_finish(app, "step")
        srv = self.server
        if srv.transport.disconnecting and not self.lost and srv.transport.producer is None:
            self.lose(clean=True)  # complete the close the server asked for
        srv._drain_held()

    def extra_notify(self):
        for app in self.apps:
            if not app["finish_called"] and not self.lost and len(app["deferreds"]) < 3:
                self.take_notify(app)

    # ---- network
    def lose(self, clean=False):
        from twisted.internet import error
        from twisted.python import failure

        if self.lost or self.losing:
            return
        self.losing = True
        if any(not a["finish_called"] for a in self.apps):
            self.ctx.count("loss_while_in_progress")
        t = self.server.transport
        # what tcp.Connection.connectionLost does: mark the transport dead, stop its producer, then tell the protocol
        t.disconnected = True
        t.connected = False
        if t.producer is not None:
            self.log.append(("transport-stops-producer",))
            prod, t.producer = t.producer, None
            try:
                prod.stopProducing()
            except BaseException as e:
                if isinstance(e, (AppError, AppAbort)):
                    pass
                elif isinstance(e, Exception):
                    self.bad("exception-from-channel", "stopProducing raised", error="%s: %s" % (type(e).__name__, e))
                else:
                    raise
        self.lost = True
        self.log.append(("lost", "clean" if clean else "injected"))
        reason = failure.Failure(error.ConnectionDone() if clean else error.ConnectionLost("injected"))
        try:
            self.server.lose(reason)
        except Exception as e:
            self.bad("exception-from-channel", "connectionLost raised", error="%s: %s" % (type(e).__name__, e))

    def run(self):
        srv = self.server
        for i, op in enumerate(self.ops):
            if i == self.loss_at:
                self.lose()
            kind = op[0]
            try:
                if kind == "data":
                    if not self.lost:
                        before = sum(1 for e in srv.events if e[:2] == ("srv", "pauseProducing"))
                        srv.feed(op[1])
                        if sum(1 for e in srv.events if e[:2] == ("srv", "pauseProducing")) > before:
                            self.read_ahead_paused = True  # the channel itself stopped reading (> 16 KiB pipelined behind a request)
                            self.ctx.count("read_ahead_pauses")
                elif kind == "step":
                    self.step()
                elif kind == "pause":
                    if not self.lost and srv.transport.producer is not None:
                        self.ctx.count("pause_ops")
                        if self.read_ahead_paused and srv.transport.reading_paused:
                            self.ctx.count("read_ahead_and_transport_pause_overlaps")
                        ch = getattr(srv.proto, "_channel", None)  # read only to label the counter
                        if ch is not None and not ch._handlingRequest:
                            self.ctx.count("pauses_while_request_partially_received" if ch.requests else "pauses_between_requests")
                        srv.transport.sim_pause_producer()
                elif kind == "resume":
                    if not self.lost and srv.transport.producer is not None:
                        srv.transport.sim_resume_producer()
                        srv._drain_held()
                elif kind == "notify":
                    self.extra_notify()
            except (Exception, AppAbort) as e:
                if isinstance(e, (AppError, AppAbort)):
                    srv.exception = None
                    self.lose()  # a reactor logs the exception and drops the connection
                else:
                    self.bad("exception-from-channel", "operation %r raised" % (kind,), error="%s: %s" % (type(e).__name__, e), op_index=i)
            if srv.exception:
                if self.unjudged is not None:
                    self.lose()
                else:
                    self.bad("exception-from-channel", "dataReceived raised", error=srv.exception, op_index=i)
                srv.exception = None
        if self.loss_at >= len(self.ops):
            self.settle()
        self.lose()  # the boundary after the last operation
        # requests that the plan finishes even after the loss get their chance (finish() must raise RuntimeError)
        for _ in range(5):
            try:
                self.step()
            except (AppError, AppAbort):
                pass
        for d in self.paused_deferreds:
            d.unpause()
        if self.unjudged is not None:
            self.ctx.count("runs_unjudged_after_app_exception")
            stranded = sum(1 for a in self.apps for r in a["deferreds"] if not r["fired"])
            if stranded:
                self.ctx.count("unjudged_notify_never_fired_after_app_exception", stranded)
            return
        self.judge()

    # ---- bounded progress
    def settle(self):
        """No loss was injected: match every transport pause with a resume, let the scheduler run, and require that
        every complete request the client sent has been dispatched and answered (logical steps, no clock)."""
        srv = self.server
        if self.lost or self.unjudged is not None:
            return
        try:
            for _ in range(40):
                t = srv.transport
                if not self.lost and t.producer is not None and t.producer_paused:
                    t.sim_resume_producer()
                srv._drain_held()
                self.step()
                if srv.exception:
                    self.bad("exception-from-channel", "dataReceived raised", error=srv.exception)
                    srv.exception = None
                    return
                if self.lost or self.unjudged is not None:
                    break
        except (AppError, AppAbort):
            return
        if self.unjudged is not None:
            return
        self.ctx.count("progress_runs_judged")
        # which requests must have been dispatched / answered by now
        for k, (rq, plan) in enumerate(zip(self.reqs, self.plans)):
            app = self.apps[k] if k < len(self.apps) else None
            if app is None:
                self.bad("no-progress-request-not-dispatched", "request %d was completely delivered, every transport pause was resumed and all earlier "
                         "responses finished, but it was never handed to the application" % k, k=k, dispatched=len(self.apps),
                         held_bytes=sum(len(x) for x in srv.held), reading_paused=srv.transport.reading_paused, lost=self.lost)
                return
            self.ctx.count("progress_requests_dispatched")
            if plan.mode == "never" or plan.app_lose is not None:
                return  # blocks the pipeline by design / closes the connection itself
            if not app["finished"]:
                self.bad("no-progress-request-not-answered", "request %d was dispatched and its plan finishes within a few scheduler steps, but no response was finished" % k,
                         k=k, plan=plan.as_dict(), finish_raised=app["finish_raised"], lost=self.lost)
                return
            self.ctx.count("progress_requests_answered")
            if rq["closing"]:
                return  # the server closes after this one

    # ---- verdict
    def judge(self):
        lost_at = next(i for i, e in enumerate(self.log) if e[0] == "lost")
        for app in self.apps:
            k = app["k"]
            fin = next((i for i, e in enumerate(self.log) if e[0] == "finish-call" and e[1] == k), None)
            finished_first = app["finished"] and fin is not None and fin < lost_at
            for j, rec in enumerate(app["deferreds"]):
                fired = rec["fired"]
                self.ctx.count("notify_deferreds_judged")
                if len(fired) != 1:
                    self.bad("notifyfinish-fired-%d-times" % len(fired) if len(fired) < 3 else "notifyfinish-fired-many-times",
                             "a notifyFinish Deferred of request %d fired %d times (connection is gone, request %s)" % (k, len(fired), "finished" if finished_first else "not finished"),
                             k=k, j=j, fired=fired, finished_first=finished_first, kind=rec["kind"])
                    continue
                how, val, at = fired[0]
                timed = rec["kind"] != "paused"  # a paused Deferred runs its callbacks when the harness unpauses it
                if finished_first:
                    if how != "ok" or val != "None":
                        self.bad("notifyfinish-wrong-result", "response finished before the loss but the Deferred did not fire with None", k=k, j=j, fired=fired)
                    elif timed and at <= fin:
                        self.bad("notifyfinish-fired-before-finish", "Deferred fired with None before finish() was called", k=k, j=j, fired=fired)
                else:
                    if how != "fail":
                        self.bad("notifyfinish-wrong-result", "connection lost before the response finished but the Deferred fired with a result", k=k, j=j, fired=fired)
                    elif timed and at < lost_at:
                        self.bad("notifyfinish-failed-before-loss", "Deferred failed before the connection was lost", k=k, j=j, fired=fired)
        # wire
        import re

        out = bytes(self.server.transport.written)
        done_online = [a for a in self.apps if a["finished"] and not a["offline"]]
        heads = [a["head"] for a in self.apps]
        resps, left = refhttp.read_responses(out, heads)
        finals = [r for r in resps if (r.code or b"")[:1] != b"1"]
        n_complete = 0
        for i, r in enumerate(finals):
            if i >= len(self.apps):
                self.bad("extra-response-on-wire", "more responses on the wire than requests handed to the application", index=i, at=out[r.start:r.start + 120])
                break
            a = self.apps[i]
            if not r.complete or (r.framing == "close" and not (a["finished"] and not a["offline"])):
                # partial response of the request in progress (or of one finished after the transport died): only its id
                tail = out[r.start:]
                ids = set(int(x) for x in re.findall(rb"\[(\d+)\]", tail)) | set(int(x) for x in re.findall(rb"X-Id: (\d+)", tail))
                if not ids <= {a["k"]} or (a["finished"] and not a["offline"]):
                    self.bad("responses-interleaved-or-out-of-order", "bytes after the last complete response are not a partial response of the request in progress",
                             ids=sorted(ids), in_progress=a["k"], finished=a["finished"], tail=tail[:200], problem=r.problem)
                break
            self.ctx.count("responses_on_wire_checked")
            if a["plan"].code in (204, 304) or a["head"]:
                self.ctx.count("bodiless_responses_on_wire_checked")
            xid = r.header_map().get(b"x-id")
            if xid != [b"%d" % a["k"]] or r.body != a["written"] or r.code != b"%d" % a["plan"].code:
                self.bad("responses-interleaved-or-out-of-order", "response %d on the wire is not the response written for request %d" % (i, a["k"]),
                         index=i, x_id=xid, code=r.code, body=r.body[:120], expected_body=a["written"][:120], expected_code=a["plan"].code)
                break
            n_complete += 1
        else:
            if left != len(out):
                self.bad("responses-interleaved-or-out-of-order", "unparsed bytes after the responses", tail=out[left:left + 200])
        if n_complete < len(done_online) and not any(p[0].startswith("responses-") or p[0].startswith("extra-") for p in self.problems):
            self.bad("finished-response-incomplete-on-wire", "fewer complete responses on the wire than finished requests", finished=[a["k"] for a in done_online], complete=n_complete)
        self.ctx.count("bytes_on_wire", len(out))


def run_one(ctx, reqs, ops, plans, loss_at, cap, case_index=None, sync_close=False):
    mark = len(cap.events)
    w = World(ctx, reqs, ops, plans, loss_at, sync_close)
    try:
        w.run()
    finally:
        w.server.cleanup()
    for e in cap.events[mark:]:
        f = e.get("log_failure")
        if f is not None and not (w.unjudged is not None or f.check(AppError, AppAbort)):
            w.bad("logged-failure", "a failure was logged during the run: %s" % (f.type.__name__ if f.type else "?"), error=f.getErrorMessage()[:300])
    ctx.evaluated()
    ctx.count("runs")
    if w.apps:
        ctx.distinct((tuple(op if op[0] != "data" else op[1] for op in ops), tuple(repr(p.as_dict()) for p in plans), loss_at, sync_close))
    for key, what, detail in w.problems[:1]:
        ctx.violation(key, what, dict(detail, case_index=case_index, loss_at=loss_at, sync_close=sync_close, ops=ops, plans=[p.as_dict() for p in plans], log=w.log[-60:],
                                      wire=bytes(w.server.transport.written)[:600], all_problem_keys=sorted(set(p[0] for p in w.problems))))
    return w


def run_schedule(ctx, i, only_loss_at=None):
    rng = ctx.case_rng(i)
    reqs, ops, plans = gen_schedule(rng)
    ctx.count("schedules")
    ctx.count("requests_generated", len(reqs))
    boundaries = range(len(ops) + 1)
    if len(ops) > 45:
        boundaries = sorted(set(rng.sample(range(len(ops) + 1), 45)) | {len(ops)})
    if only_loss_at is not None:
        boundaries = [only_loss_at]
    sync_close = ctx.case_rng(i, "sync-close").random() < 0.3
    if sync_close:
        ctx.count("schedules_on_sync_close_transport")
    with LogCapture() as cap:
        for b in boundaries:
            w = run_one(ctx, reqs, ops, plans, b, cap, i, sync_close)
            if w.problems:
                break
        mark = len(cap.events)
        del w.server
    late = [e for e in cap.events[mark:] if e.get("log_failure") is not None and not e["log_failure"].check(AppError, AppAbort, ZeroDivisionError)]
    if late:
        f = late[0]["log_failure"]
        ctx.violation("logged-failure", "a failure was logged after a schedule (garbage-collected Deferred?)",
                      {"case_index": i, "error": f.getErrorMessage()[:300], "type": f.type.__name__ if f.type else "?", "ops": ops})
    return w, ops, plans, b


def plain_plan(mode="now", delay=1):
    import random

    p = Plan(random.Random(0))
    p.mode, p.delay, p.partial, p.n_notify_at_process, p.use_cl, p.pieces = mode, delay, False, 1, True, 1
    p.code, p.trigger, p.app_lose, p.raises, p.notify_kinds = 200, "steps", None, None, ["plain"] * 3
    return p


PAUSE_PIPELINES = [
    [b"GET /r0 HTTP/1.1\r\nHost: h\r\n\r\n", b"POST /r1 HTTP/1.1\r\nHost: h\r\nContent-Length: 8\r\n\r\nabcdefgh", b"GET /r2 HTTP/1.1\r\nHost: h\r\n\r\n"],
    [b"POST /r0 HTTP/1.1\r\nHost: h\r\nTransfer-Encoding: chunked\r\n\r\n4\r\nabcd\r\n3;x=y\r\nefg\r\n0\r\nT: v\r\n\r\n", b"\r\nHEAD /r1 HTTP/1.1\r\nHost: h\r\n\r\n",
     b"POST /r2 HTTP/1.1\r\nHost: h\r\nExpect: 100-continue\r\nContent-Length: 2\r\n\r\nhi"],
]


def pause_at_every_offset(ctx):
    """The transport pauses the channel (send buffer full) after exactly c bytes of the stream — mid request line, mid
    headers, mid body, mid chunk, between pipelined requests — the rest arrives while paused (held by the driver, as
    a transport that stopped reading does), then the transport resumes.  Judged by the bounded-progress rule."""
    n = 0
    for pi, parts in enumerate(PAUSE_PIPELINES):
        stream = b"".join(parts)
        reqs = [{"method": p.lstrip(b"\r\n").split(b" ")[0], "closing": False, "bytes": p, "stray_crlf_before": p.startswith(b"\r\n")} for p in parts]
        for variant, plans in enumerate(([plain_plan("now") for _ in parts], [plain_plan("later", 2)] + [plain_plan("now") for _ in parts[1:]],
                                         [plain_plan("now"), plain_plan("later", 1), plain_plan("now")])):
            for c in range(0, len(stream) + 1):
                n += 1
                if not ctx.owns(n):
                    continue
                for second_cut in (None, min(len(stream), c + 7)):
                    if second_cut is None:
                        ops = [("data", stream[:c]), ("pause",), ("data", stream[c:]), ("step",), ("resume",), ("step",), ("step",)]
                    else:  # pause, resume, and pause/resume again a little later
                        ops = [("data", stream[:c]), ("pause",), ("data", stream[c:second_cut]), ("resume",), ("pause",), ("data", stream[second_cut:]),
                               ("step",), ("resume",), ("step",)]
                    ops = [op for op in ops if op[0] != "data" or op[1]]
                    with LogCapture() as cap:
                        w = run_one(ctx, reqs, ops, plans, len(ops), cap, ("pause-offset", pi, variant, c), False)
                    ctx.count("pause_at_every_offset_runs")
                    if w.problems:
                        return


def read_ahead_family(ctx):
    """More than 16 KiB pipelined behind an unfinished request (the channel stops reading by itself), combined with a
    transport pause and a transport resume at every pair of positions relative to the deliveries and to the response
    completions.  The driver holds bytes while reading is paused for either reason.  Judged by bounded progress."""
    big = b"x" * 17000
    variants = [
        [b"GET /r0 HTTP/1.1\r\nHost: h\r\n\r\n", b"POST /r1 HTTP/1.1\r\nHost: h\r\nContent-Length: 17000\r\n\r\n" + big, b"GET /r2 HTTP/1.1\r\nHost: h\r\n\r\n"],
        [b"GET /r0 HTTP/1.1\r\nHost: h\r\n\r\n", b"POST /r1 HTTP/1.1\r\nHost: h\r\nTransfer-Encoding: chunked\r\n\r\n4268\r\n" + big + b"\r\n0\r\n\r\n",
         b"GET /r2 HTTP/1.1\r\nHost: h\r\n\r\n", b"GET /r3 HTTP/1.1\r\nHost: h\r\n\r\n"],
    ]
    n = 0
    for vi, parts in enumerate(variants):
        reqs = [{"method": p.split(b" ")[0], "closing": False, "bytes": p, "stray_crlf_before": False} for p in parts]
        # the big request arrives in 6000-byte pieces (its last piece pushes the buffer over 16 KiB and makes the channel stop
        # reading); what follows it arrives in separate pieces, which the driver holds while reading is paused
        datas = [("data", parts[0])] + [("data", parts[1][i:i + 6000]) for i in range(0, len(parts[1]), 6000)] + [("data", p) for p in parts[2:]]
        for d0 in (1, 2, 3):
            for d1 in (1, 2):
                plans = [plain_plan("later", d0), plain_plan("later", d1)] + [plain_plan("now") for _ in parts[2:]]
                base = datas + [("step",)] * (d0 + d1 + 2)
                for i in range(1, len(base) + 1):
                    for j in range(i, len(base) + 1):
                        n += 1
                        if not ctx.owns(n):
                            continue
                        ops = base[:i] + [("pause",)] + base[i:j] + [("resume",)] + base[j:]
                        with LogCapture() as cap:
                            w = run_one(ctx, reqs, ops, plans, len(ops), cap, ("read-ahead", vi, d0, d1, i, j), False)
                        ctx.count("read_ahead_family_runs")
                        if w.problems:
                            return


def run(ctx):
    refhttp.selftest()
    pause_at_every_offset(ctx)
    read_ahead_family(ctx)
    for i in ctx.cases(1000, 40000):
        w, ops, plans, b = run_schedule(ctx, i)
        if i < 2 * ctx.nshards and ctx.shard == 0:
            ctx.sample({"ops": ops, "plans": [p.as_dict() for p in plans], "loss_at": b, "log": w.log[:40]})


def replay(ctx, w):
    """Schedules are a pure function of (seed, case index): regenerate and re-run the recorded loss point."""
    x = w["witness"]
    if isinstance(x.get("case_index"), list):
        print("replay: this case belongs to an enumerated family (%s); re-running that family (it is deterministic)" % x["case_index"][0])
        (read_ahead_family if x["case_index"][0] == "read-ahead" else pause_at_every_offset)(ctx)
        return
    if x.get("case_index") is None:
        print("replay: witness has no case index; re-run with VERIF_SEED=%s" % w.get("seed"))
        return
    run_schedule(ctx, x["case_index"], x.get("loss_at"))
